'''C12 — exactly the zero-importance cells are left out.

Theorems: coq/Properties/C12.v.  Ties (correspondence by execution):
  expand : token lists -> MIP.mip.datacard.expand_data_card  vs  Model.expand
  parse  : generated cell/data blocks -> ParseMCNPCell(parser, None,
           lattice_params).parse()  vs  Model.parse_cells (importance, universe,
           material, density, fill fields, TRCL, lattice per cell; skip list)
  conv   : whole conversions, VOLU ids of the written file  vs  Model.conv_keys
Independent oracle (sweep): the generator's abstract importances (shorthand
expanded by MCNP's definition, written in c12_gen.spec_expand) against the set
of VOLU ids of the written file and the NOTE line on stdout.'''
import json
import random
import re

import common
import impl
import c12_gen as g
from common import cstr, clist, cfloat, copt, cpair, cz, cnat

THEOREMS = ['C12_expand_shorthand', 'C12_interpolates_evenly_spaced',
            'C12_log_interpolates_constant_ratio',
            'C12_importance_cards_single', 'C12_importance_cards_jump_refused',
            'C12_jumped_cell_kept',
            'C12_importance_cards_max', 'C12_importance_cards_dedup',
            'C12_dictionary_last_assignment',
            'C12_importance_cards_uneven_refused',
            'C12_keywords_importance', 'C12_particle_dictionary',
            'C12_option_tokens_words', 'C12_importance_of_cell',
            'C12_importance_missing_refused', 'C12_skipped_iff_zero',
            'C12_note_order',
            'C12_converted_iff_nonzero', 'C12_data_card_max_zero',
            'C12_chain_zero_iff', 'C12_option_tokens_app',
            'C12_last_value_app', 'C12_like_written_zero_iff',
            'C12_like_written_local_zero_iff', 'C12_fill_array_read_locally',
            'C12_fill_array_rep_read_locally',
            'C12_cell_card_zero_iff',
            'C12_plain_card_zero_iff', 'C12_conv_keys_not_skipped',
            'C12_written_volumes', 'C12_generated_converted_iff',
            'C12_lattice_elements_converted_iff_linked',
            'C12_imp_card_text', 'C12_void_card_text',
            'C12_void_card_text_sep',
            'C12_nonvoid_card_text', 'C12_nonvoid_card_text_sep',
            'C12_like_card_text',
            'C12_parse_deck_text_split']
TRUSTED = [
    'hand-written model coq/C12/{Text,Model,Cards}.v: modelled, tied by '
    'execution (tie:expand, tie:parse by two routes, tie:conv, tie:fill)',
    'Card.content() (comment removal, white-space collapse, continuation '
    'lines) and the block splitting of MIP: not modelled; the second route of '
    'tie:parse hands the model the real content() strings of the cell and data '
    'cards (cellcard.split, datacard.split, LIKE_RE ARE modelled: Cards.v)',
    'float(token), datacard.to_float(token), normalize_float(token), the table '
    'of TR cards: primitives of the model, tables filled by the harness from '
    'the implementation; int()/round() of a float and x**y: coq/C12/Exec.v '
    '(binary64), compared at 1e-9',
    'to_cos / normalize_transform (C04) stay symbolic in the model; '
    'Exec.eval_tp reads them numerically only for 0/2/3/12/13 entries',
    'get_ast (C11): geometry strings are carried through, the harness maps the '
    'parsed AST back to the generated geometry text',
    'develop_lattice: not in the C12 model (swept by lattice_sweep; linked to '
    "C06's model by C12_lattice_elements_converted_iff_linked, whose copied "
    'attributes - element_cell - are defined on the C12 side and not tied)',
    'the text of the VOLU lines (C01/C08): only the VOLU ids, the '
    '(universe cell, container) comments and the NOTE bytes are tied',
    'harness: generators, probe-point oracle (t4eval), impl.T4File reader, PEG '
    'shim replacing TatSu',
]
ASSUMPTIONS = [
    'importances are non-negative (C12_data_card_max_zero / '
    'C12_chain_zero_iff: max = 0 iff all = 0)',
    'at least one cell of the deck is converted: a deck whose cells all have '
    'zero importance (not a runnable MCNP problem) stops with ValueError from '
    'max() of an empty sequence, no file is written (checked: all_zero_deck)',
    'C12_imp_card_text only: the first entry of an IMP data card starts with a '
    'digit (datacard.split moves a leading ".", sign or non-numeric entry into '
    'the card name: "imp:n .5" is read as 5; modelled in Cards.data_parts and '
    'tied; zero-ness is not affected)',
    'no LIKE cycle (the code does not terminate); no jump (nJ) entries in IMP '
    'cards for the zero-iff theorems (the behaviour with jumps is proved '
    'separately: C12_jumped_cell_kept, C12_importance_cards_jump_refused)',
]
HEADER = g.HEADER


# ---------------------------------------------------------------------------
# expand_data_card
# ---------------------------------------------------------------------------

def run_cases(*args, **kwargs):
    '''common.run_case_files, run again when a coqc process was killed by a
    signal from outside (rc < 0: other jobs on the machine); genuine errors
    (rc = 1) and disagreements are returned as they are.'''
    for _ in range(3):
        bad, errs = common.run_case_files(*args, **kwargs)
        if not any(re.search(r'rc=-\d+', e.split('\n', 1)[0]) for e in errs):
            break
    return bad, errs


def impl_expand(tokens, expected):
    from MIP.mip.datacard import expand_data_card
    try:
        vals, consumed = expand_data_card(list(tokens), expected=expected)
        return ('ok', vals, consumed)
    except Exception as exc:      # pylint: disable=broad-except
        return ('err', type(exc).__name__)


def gen_expand_case(rng, malformed):
    n = rng.randint(1, 10)
    items = g.gen_imp_items(rng, n, allow_j=rng.random() < 0.3,
                            allow_log=rng.random() < 0.3)
    toks = g.item_tokens(items, rng)
    expected = None
    fault = None
    if malformed:
        fault = rng.choice(['nofirst', 'trail_i', 'badcount', 'bare_m', 'log',
                            'neg', 'garbage', 'expected', 'expected_ok',
                            'trail_log', 'j_then', 'fortran', 'fortran'])
        if fault == 'nofirst':
            toks = [rng.choice(['2r', 'r', '3m', 'i', '2i', '2log'])] + toks
        elif fault == 'trail_i':
            toks = toks + [rng.choice(['i', '2i', '3I'])]
        elif fault == 'trail_log':
            toks = toks + [rng.choice(['2log', '1ilog'])]
        elif fault == 'badcount':
            toks.insert(rng.randint(1, len(toks)),
                        rng.choice(['2.5r', 'xr', '1.5i', 'aj', '1e1r']))
        elif fault == 'bare_m':
            toks.insert(rng.randint(1, len(toks)), rng.choice(['m', 'xm']))
        elif fault == 'log':
            pos = rng.randint(1, len(toks))
            toks[pos:pos] = [rng.choice(['log', 'ilog', '-1log', '0log',
                                         '2xlog']),
                             rng.choice(['4', '0', '-2', 'x'])]
        elif fault == 'neg':
            pos = rng.randint(1, len(toks))
            toks[pos:pos] = [rng.choice(['-1r', '-2r', '0r', '-1i', '0i',
                                         '-2i', '0j', '-1j']), '3']
        elif fault == 'garbage':
            toks.insert(rng.randint(0, len(toks)),
                        rng.choice(['x', '1..2', 'imp', '1e', '--1']))
        elif fault == 'fortran':
            # Fortran spellings and near misses, as entries, xM factors, nI
            # bounds and nLOG bounds (logspace still uses float())
            pos = rng.randint(1, len(toks))
            toks[pos:pos] = rng.choice([
                ['1.0+0'], ['6.40875-2'], ['1d'], ['d5'], ['1.5e+'], ['1+'],
                ['--1+2'], ['1.5d+3', 'r'], ['2d0m'], ['2+0M'], ['1+0', 'i', '3+0'],
                ['i', '5-1'], ['2i', '1D1'], ['1', '2log', '8+0'], ['1', '2log', '8'],
                ['1', '1ilog', '2d0'], ['1', '2LOG', '8+0'],
                ['1.5+3-2'], ['.5-1'], ['5.d0'], ['+2.+1'], ['1e5+2'], ['0x1+2'],
                ['1_0+2'], ['1.+-2'], ['inf+1'], ['nan-1'], ['1d0d0']])
        elif fault == 'j_then':
            pos = rng.randint(1, len(toks))
            toks[pos:pos] = ['j', rng.choice(['2m', 'i', '2log', 'r']), '5']
        elif fault == 'expected':
            expected = rng.choice([0, 1, n - 1, n + 1, n + 3, -1])
        elif fault == 'expected_ok':
            expected = rng.choice([n, max(1, n - 2)])
            toks = toks + ['7', 'other']
    return toks, expected, fault


def c_expand_out(out):
    if out[0] == 'err':
        return f'(Err {g.EXC_MAP.get(out[1], "EOther_" + out[1])})'
    vals = clist(copt(v, cfloat) for v in out[1])
    return f'(Ok ({vals}, {cnat(out[2])}))'


def expand_ties(res, rng, n_valid, n_bad, max_exhaustive=2):
    cases, meta = [], []
    todo = [gen_expand_case(rng, i >= n_valid) for i in range(n_valid + n_bad)]
    todo += [(toks, None, 'exhaustive') for k, toks in exhaustive_expand()
             if k <= max_exhaustive]
    for toks, expected, fault in todo:
        out = impl_expand(toks, expected)
        tables = g.c_tables(toks, {})
        cases.append(cpair(tables, clist(cstr(t) for t in toks),
                           copt(expected, cz), c_expand_out(out)))
        meta.append((toks, expected, fault, out))
        res.seen(('expand', toks, expected), nontrivial=len(toks) >= 2)
        res.count('expand-fault:' + str(fault))
        res.count('expand-impl:' + (out[1] if out[0] == 'err' else 'ok'))
    res.sample({'expand_tokens': meta[0][0], 'impl': meta[0][3]})
    bad, errs = run_cases(
        'c12_expand', HEADER,
        'tables * list string * option Z * expand_out', 'check_expand', cases)
    res.obligation(f'tie:expand ({len(cases)} token lists: Model.expand = '
                   'expand_data_card)', not bad and not errs,
                   f'{len(bad)} disagreements {errs[:1]}')
    for idx in bad[:10]:
        toks, expected, fault, out = meta[idx]
        res.violation('correspondence',
                      f'model and expand_data_card disagree on {toks} '
                      f'(expected={expected}): impl={out}',
                      {'input': {'tokens': toks, 'expected': expected},
                       'observed': out,
                       'theorem_or_correspondence': 'tie:expand'},
                      found_input=False)
    if errs:
        res.violation('correspondence', 'tie:expand could not be evaluated: '
                      + errs[0][-300:], {'theorem_or_correspondence':
                                         'tie:expand', 'errors': errs[:2]},
                      found_input=False)


# ---------------------------------------------------------------------------
# decks
# ---------------------------------------------------------------------------

def gen_ids(rng, n):
    style = rng.random()
    if style < 0.4:
        return list(range(1, n + 1))
    if style < 0.7:
        start = rng.choice([1, 5, 10, 100])
        step = rng.choice([1, 2, 10])
        return [start + k * step for k in range(n)]
    ids = rng.sample(range(1, 60), n)
    return ids


def partition(rng, parts):
    '''Split a list of particle letters into designator groups (n / n,p).'''
    parts = list(parts)
    rng.shuffle(parts)
    groups = []
    while parts:
        k = 2 if len(parts) >= 2 and rng.random() < 0.3 else 1
        groups.append(parts[:k])
        parts = parts[k:]
    return groups


def gen_deck(rng, level0=True, malformed=False, like=True):
    '''Abstract deck with ground-truth importances.  level0: only cells the
    whole converter can run on (no universes / fills / lattices / TRCL); such a
    deck keeps at least one cell of non-zero importance (a deck without any
    cell to convert is not a runnable MCNP problem; see all_zero_deck).'''
    while True:
        deck = gen_deck_once(rng, level0, malformed, like)
        if not level0 or not all(c['zero'] for c in deck['cells']):
            return deck


def gen_deck_once(rng, level0, malformed, like):
    n = rng.randint(2, 8)
    ids = gen_ids(rng, n)
    mode = rng.choice(['cell', 'data', 'data', 'mixed'])
    particles = rng.sample(['n', 'p', 'e', 'h'], rng.choice([1, 1, 2, 3]))
    cards = []          # (name, items)
    if mode != 'cell':
        for group in partition(rng, particles):
            cards.append((g.case_mix('imp', rng) + ':'
                          + g.case_mix(','.join(group), rng),
                          g.gen_imp_items(rng, n, zero_bias=0.35,
                                          allow_log=rng.random() < 0.15)))
    expanded = [g.spec_expand(items) for _, items in cards]
    n_explicit = 0
    cells = []
    tr_ids = [] if level0 else rng.sample(sorted(g.TR_CARDS),
                                          rng.choice([0, 1, 2, 3]))
    mats = set()
    for rank in range(n):
        cell = {'id': ids[rank], 'like': None, 'blocks': []}
        explicit_before = [c for c in cells if c['like'] is None]
        is_like = like and explicit_before and rng.random() < 0.2
        has_imp = mode == 'cell' or (mode == 'mixed' and rng.random() < 0.5)
        blocks = []
        if has_imp:
            chosen = rng.sample(particles, rng.randint(1, len(particles)))
            for group in partition(rng, chosen):
                sp = rng.choice(g.ZERO_SPELLINGS + g.FORTRAN_ZEROS) \
                    if rng.random() < 0.4 \
                    else rng.choice(g.IMP_VALUES + g.FORTRAN_VALUES)
                blocks.append({'kind': 'imp', 'kw': 'imp:' + ','.join(group),
                               'vals': [sp], 'value': g.mcnp_value(sp),
                               'parts': group})
        if rng.random() < 0.3:
            blocks.append(g.gen_block(rng, 'noise'))
        if not level0:
            for kind in ('u', 'fill', 'trcl', 'lat', 'fillarr'):
                prob = {'u': 0.3, 'fill': 0.25, 'trcl': 0.25, 'lat': 0.08,
                        'fillarr': 0.06}[kind]
                if rng.random() < prob:
                    blk = g.gen_block(rng, kind, tr_ids, wild=malformed)
                    blocks.append(blk)
                    if kind == 'fillarr' and not malformed:
                        blocks.append(g.gen_block(rng, 'lat'))
        rng.shuffle(blocks)
        cell['blocks'] = blocks
        if is_like:
            base = rng.choice(cells) if rng.random() < 0.3 \
                else rng.choice(explicit_before)
            cell['like'] = base['id']
            new_mat = rng.random() < 0.3
            if new_mat or rng.random() < 0.3:
                # MAT= on a LIKE card always comes with RHO= (the base may be void)
                blocks.append(g.gen_block(rng, 'rho'))
            if new_mat:
                blk = g.gen_block(rng, 'mat')       # MAT=0: the cell is void
                if int(blk['vals'][0]):
                    mats.add(int(blk['vals'][0]))
                blocks.append(blk)
        else:
            mat = 0 if rng.random() < 0.5 else rng.choice([1, 2, 3])
            cell['mat'] = '0' if mat == 0 else \
                f'{mat} {rng.choice(g.DENSITIES)}'
            if mat:
                mats.add(mat)
            cell['index'] = n_explicit
            n_explicit += 1
        cells.append(cell)
    for cell in cells:
        if cell['like'] is None:
            cell['geom'] = g.geom_for(cell['index'], n_explicit)
            if rng.random() < 0.15:
                cell['geom'] = '(' + cell['geom'] + ')'
                cell['glue'] = rng.random() < 0.5
        cell['opts'] = g.render_opts(cell['blocks'], rng)
    by_id = {c['id']: c for c in cells}

    def chain(cell):
        out = [cell]
        while out[-1]['like'] is not None:
            out.append(by_id[out[-1]['like']])
        return out

    # ground truth: importances of each cell per the explicit card it stands for
    for rank, cell in enumerate(cells):
        imps = {}
        for link in reversed(chain(cell)):       # base first, overrides later
            own = {}
            for blk in link['blocks']:
                if blk['kind'] == 'imp':
                    for part in blk['parts']:
                        own[part] = blk['value']
            if own:
                # a BUT IMP entry replaces the entry of the same particle
                imps.update(own)
        if imps:
            values = list(imps.values())
        else:
            values = [col[rank] for col in expanded]
        cell['values'] = values
        cell['zero'] = bool(values) and all(v == 0 for v in values)
        cell['chain_has_card_imp'] = any(
            blk['kind'] == 'imp' and blk['value'] > 0
            for link in chain(cell)[1:] for blk in link['blocks'])
        cell['own_imp'] = [blk['value'] for blk in cell['blocks']
                           if blk['kind'] == 'imp']
    deck = {'cells': cells, 'nsurf': max(1, n_explicit - 1),
            'imp_cards': [(name, g.item_tokens(items, rng))
                          for name, items in cards],
            'trs': {k: g.TR_CARDS[k] for k in tr_ids}, 'mats': mats,
            'mode': mode, 'fault': None}
    if mode == 'cell' or (mode == 'mixed' and not cards):
        deck['imp_cards'] = []
    if malformed:
        apply_fault(deck, rng)
    return deck


def apply_fault(deck, rng):
    fault = rng.choice(['short', 'long', 'uneven', 'jump', 'like_missing',
                        'no_value', 'bad_value', 'trcl_unknown', 'lat_nofill',
                        'fill_lat_int', 'ranges_nolat', 'none', 'dup_card',
                        'dup_cell', 'dup_imp', 'dup_imp'])
    cells = deck['cells']
    cards = deck['imp_cards']
    deck['fault'] = fault
    if fault == 'short' and cards:
        name, toks = cards[0]
        cards[0] = (name, toks[:max(1, len(toks) - 2)])
        if len(cards) > 1:
            cards[:] = cards[:1]
    elif fault == 'long' and cards:
        cards[:] = [(name, toks + ['1', '0']) for name, toks in cards]
    elif fault == 'uneven' and cards:
        name, toks = cards[-1]
        cards.append(('imp:z', toks + ['1']))
    elif fault == 'jump' and cards:
        name, toks = cards[0]
        if len(toks) > 1:
            toks = toks[:-1] + [rng.choice(['j', 'J', '1j'])]
        cards[0] = (name, toks)
    elif fault == 'like_missing':
        cells.append({'id': 999, 'like': 998, 'blocks': [], 'opts': 'u=3',
                      'values': [], 'zero': False})
    elif fault == 'no_value':
        cells[-1]['opts'] = (cells[-1]['opts'] + ' '
                             + rng.choice(['imp:n', 'u', 'fill', 'lat', 'rho',
                                           'mat', 'u='])).strip()
    elif fault == 'bad_value':
        cells[rng.randrange(len(cells))]['opts'] += ' ' + rng.choice(
            ['imp:n=x', 'u=a', 'fill=z', 'lat=1.0', 'lat=4', 'trcl=1.5',
             'fill=1 (1 2 x)', 'trcl=(1 2 +)'])
    elif fault == 'trcl_unknown':
        cells[rng.randrange(len(cells))]['opts'] += ' ' + rng.choice(
            ['trcl=99', 'fill=3 (77)', '*fill=3(42)'])
    elif fault == 'lat_nofill':
        cells[rng.randrange(len(cells))]['opts'] += ' lat=1'
    elif fault == 'fill_lat_int':
        cells[rng.randrange(len(cells))]['opts'] += ' lat=1 fill=4'
    elif fault == 'ranges_nolat':
        cells[rng.randrange(len(cells))]['opts'] += ' fill=0:1 0:0 0:0 1 2'
    elif fault == 'dup_card' and cards:
        name, toks = cards[0]
        cards.append((name.swapcase(), list(reversed(toks))
                      if rng.random() < 0.5 else toks))
    elif fault == 'dup_imp':
        # the same particle twice on one card (the last entry counts), odd
        # designators
        cells[rng.randrange(len(cells))]['opts'] += ' ' + rng.choice(
            ['imp:n=0 imp:n=2', 'imp:n=2 imp:n=0', 'imp:n,p=1 imp:p=0 imp:n 0',
             'imp:p=3 imp:n,p=0', 'imp=0', 'imp:=1 imp:n=0', 'imp:n,=0',
             'imp::n=1 imp:n=0', 'IMP:N,P,E=0 imp:e 1', 'imp:n=1d',
             'imp:n=1.5+3-2', 'imp:n=d5', 'imp:n=1+'])
    elif fault == 'dup_cell':
        first = cells[0]
        if first['like'] is None:
            cells.append(dict(first, opts=first['opts'] + ' imp:n=0'))


def lattice_args_for(deck, rng):
    '''--lattice options for cells that combine LAT with FILL=n.'''
    args = []
    for cell in deck['cells']:
        toks = g.py_option_tokens(cell['opts'])
        if 'lat' in toks and rng.random() < 0.6:
            args.append(f'{cell["id"]},0:1,0:0')
    return args


def explicit_geoms(deck):
    return [c['geom'] for c in deck['cells'] if c['like'] is None]


# ---------------------------------------------------------------------------
# oracle on a whole conversion
# ---------------------------------------------------------------------------

def chain_of(deck, cell):
    by_id = {c['id']: c for c in deck['cells']}
    out = [cell]
    while out[-1].get('like') is not None and out[-1]['like'] in by_id \
            and len(out) <= len(deck['cells']):
        out.append(by_id[out[-1]['like']])
    return out


def class_of(deck, cell, emitted, listed):
    '''Narrow known-finding classes: none is open (like_but_imp_max and
    keyword_with_u_read_as_universe were repaired by 0b05eba and f85f992; their
    witnesses are must-pass corpus decks now).'''
    return None


PROBE_DIRS = [(0.6, 0.48, 0.64), (-0.6, 0.64, -0.48), (0.48, -0.64, 0.6),
              (-0.64, -0.48, 0.6)]


def probe_points(index):
    '''Points inside the region of the explicit cell number `index` of the
    nested shells written by c12_gen.geom_for (radius index + 0.5), away from
    the planes the fill universes use.'''
    rad = index + 0.5
    return [tuple(rad * c for c in d) for d in PROBE_DIRS]


def point_failures(cells, t4):
    '''cells: [(id, shell index, zero?)] of level-0 cells with pairwise
    disjoint regions. A point of a zero-importance cell must lie in no written
    non-virtual volume, a point of any other cell in at least one.'''
    import t4eval
    ev = t4eval.Evaluator(t4)
    out = []
    for cid, index, zero in cells:
        for pnt in probe_points(index):
            try:
                owners = ev.owners(pnt)
            except t4eval.T4EvalError as exc:
                out.append((cid, f'cannot evaluate the written file at {pnt}: '
                            f'{exc}'))
                break
            if zero and owners:
                out.append((cid, f'cell {cid} has importance 0 for every '
                            f'particle but its point {pnt} lies in written '
                            f'volume(s) {owners}'))
                break
            if not zero and not owners:
                out.append((cid, f'cell {cid} has non-zero importance but its '
                            f'point {pnt} lies in no written volume'))
                break
    return out


FILL_UNIVERSES = {
    # universe: (cells (id, geometry, extra options), surface lines, universes needed)
    5: ([(201, '-90', ''), (202, '90', '')], ['90 px 0'], []),
    6: ([(211, '-91', '')], ['91 so 1000'], []),
    7: ([(221, '-92 93', ''), (222, '92', ''), (223, '-93', '')],
        ['92 py 0.3', '93 py -0.3'], []),
    # nested: a cell of universe 8 is itself FILLed with universe 6
    8: ([(231, '-90', 'fill=6'), (232, '90', '')], ['90 px 0'], [6]),
    9: ([(241, '-92', 'FILL 5'), (242, '92', 'fill=6')], ['92 py 0.3'], [5, 6]),
}


def gen_fill_deck(rng):
    '''A level-0 deck (no LIKE cells: regions are pairwise disjoint) in which
    one or two cells, of zero or non-zero importance, are FILLed with a small
    universe (sometimes with a nested FILL inside); importances from cell
    cards, data cards (with shorthand) or both.'''
    deck = gen_deck(rng, level0=True, malformed=False, like=False)
    level0 = list(deck['cells'])
    victims = rng.sample(level0, rng.choice([1, 1, 2]))
    # prefer a zero-importance victim: that is the case the property is about
    zeros = [c for c in level0 if c['zero']]
    if zeros and rng.random() < 0.7 and not any(v['zero'] for v in victims):
        victims[0] = rng.choice(zeros)
    for cell in level0:
        cell['level0'] = True
    used = rng.sample(sorted(FILL_UNIVERSES), len(victims))
    needed, todo = [], list(used)
    while todo:
        univ = todo.pop()
        if univ not in needed:
            needed.append(univ)
            todo.extend(FILL_UNIVERSES[univ][2])
    deck['nested'] = any(FILL_UNIVERSES[u][2] for u in used)
    extra_surfs = []
    for victim, univ in zip(victims, used):
        kw = g.case_mix('fill', rng) + rng.choice(['=', ' ', ' = '])
        victim['opts'] = (victim['opts'] + ' ' + kw + str(univ)).strip()
        victim['filled'] = True
    for univ in sorted(needed):
        ucells, usurfs, _ = FILL_UNIVERSES[univ]
        extra_surfs.extend(line for line in usurfs if line not in extra_surfs)
        for cid, geom, uopts in ucells:
            deck['cells'].append({
                'id': cid, 'like': None, 'blocks': [], 'mat': '0', 'geom': geom,
                'opts': f'u={univ} imp:n,p,e,h=1 {uopts}'.strip(),
                'values': [1.0], 'zero': False, 'level0': False})
    n_extra = len(deck['cells']) - len(level0)
    deck['imp_cards'] = [(name, toks + rng.choice([['1'] * n_extra,
                                                   ['1', f'{n_extra - 1}r']
                                                   if n_extra > 1 else ['1']]))
                         for name, toks in deck['imp_cards']]
    deck['extra_surfs'] = extra_surfs
    return deck


def lattice_deck(rng):
    '''A level-0 rectangular lattice cell (LAT=1, FILL lo:hi 0:0 0:0 u ... u),
    pitch 2 along x, of zero or non-zero importance (cell-card keyword or IMP
    data card with shorthand), plus the outside of a large sphere. Returns
    (text, lattice cell id, zero?, probe points).'''
    lo = rng.choice([0, -1, -2])
    hi = lo + rng.choice([0, 1, 2])
    n_el = hi - lo + 1
    zero = rng.random() < 0.6
    sp = rng.choice(g.ZERO_SPELLINGS) if zero else rng.choice(['1', '2', '0.5'])
    univ, (ucells, usurfs, _) = rng.choice(
        [(u, FILL_UNIVERSES[u]) for u in (5, 6, 7)])
    fill = f'fill={lo}:{hi} 0:0 0:0 ' + rng.choice(
        [' '.join([str(univ)] * n_el),
         f'{univ} {n_el - 1}r' if n_el > 1 else str(univ)])
    mode = rng.choice(['cell', 'data', 'data'])
    lat_opts = f'lat=1 {fill}' if rng.random() < 0.5 else f'{fill} LAT 1'
    cid = rng.choice([1, 7, 30])
    lines = ['C12 lattice deck']
    n_cells = 2 + len(ucells)
    if mode == 'cell':
        lines.append(f'{cid} 0 -10 11 -12 13 -14 15 {lat_opts} imp:n={sp}')
        lines.append(f'{cid + 1} 0 20 imp:n=1')
        lines += [f'{k} 0 {geom} u={univ} imp:n=1' for k, geom, _ in ucells]
        cards = []
    else:
        lines.append(f'{cid} 0 -10 11 -12 13 -14 15 {lat_opts}')
        lines.append(f'{cid + 1} 0 20')
        lines += [f'{k} 0 {geom} u={univ}' for k, geom, _ in ucells]
        rest = n_cells - 1
        cards = ['imp:n ' + sp + ' ' + rng.choice(
            [' '.join(['1'] * rest), f'1 {rest - 1}r', f'1 {rest - 1}R'])]
        if zero and rng.random() < 0.5:
            cards.append('imp:p 0 ' + f'1 {rest - 1}r')
    lines.append('')
    lines += ['10 px 1', '11 px -1', '12 py 1', '13 py -1', '14 pz 1',
              '15 pz -1', '20 so 100'] + usurfs
    lines.append('')
    lines += cards + ['nps 1']
    points = []
    for i in range(lo, hi + 1):
        points += [(2 * i + 0.3, 0.55, 0.2), (2 * i - 0.35, -0.6, -0.4)]
    return '\n'.join(lines) + '\n', cid, zero, points


def lattice_sweep(res, n_decks, rng):
    '''Zero-importance (and other) level-0 LAT=1 cells: nothing of a
    zero-importance lattice may be written, and the NOTE lists the cell.
    Swept only (develop_lattice is not in the C12 model).'''
    import t4eval
    for _ in range(n_decks):
        text, cid, zero, points = lattice_deck(rng)
        res.seen(('lattice', text), nontrivial=True)
        res.count('lattice:' + ('zero' if zero else 'live'))
        conv = impl.convert(text)
        if not conv.ok or conv.text is None:
            res.violation('impl-violation', f'lattice deck rejected: {conv.exc}: '
                          f'{conv.msg[:150]}', {'input': {'deck': text}},
                          found_input=True)
            continue
        t4 = impl.T4File(conv.text)
        note = g.note_list(conv.stdout)
        if (cid in note) != zero:
            res.violation('impl-violation',
                          f'lattice cell {cid} (zero importance: {zero}) listed '
                          f'in the NOTE: {cid in note}', {'input': {'deck': text}},
                          found_input=True)
        ev = t4eval.Evaluator(t4)
        for pnt in points:
            try:
                owners = ev.owners(pnt)
            except t4eval.T4EvalError as exc:
                res.violation('impl-violation', f'cannot evaluate the written '
                              f'file at {pnt}: {exc}', {'input': {'deck': text}},
                              found_input=True)
                break
            if zero and owners:
                res.violation('impl-violation',
                              f'lattice cell {cid} has importance 0 for every '
                              f'particle but its point {pnt} lies in written '
                              f'volume(s) {owners}', {'input': {'deck': text}},
                              found_input=True)
                break
            if not zero and not owners:
                res.violation('impl-violation',
                              f'lattice cell {cid} has non-zero importance but '
                              f'its point {pnt} lies in no written volume',
                              {'input': {'deck': text}}, found_input=True)
                break


def oracle_conversion(deck, text):
    '''Returns (conv, failures); failures = [(cell, what, cls)].'''
    conv = impl.convert(text)
    fails = []
    if not conv.ok or conv.text is None:
        cls = None
        return conv, [(None, f'deck rejected: {conv.exc}: {conv.msg[:150]}',
                       cls)]
    t4 = impl.T4File(conv.text)
    volu = set(t4.volumes)
    note = g.note_list(conv.stdout)
    if deck.get('extra_surfs') is not None:
        # pairwise disjoint level-0 regions: check what is WRITTEN at probe points
        probes = [(c['id'], c['index'], c['zero']) for c in deck['cells']
                  if c.get('level0')]
        for cid, what in point_failures(probes, t4):
            fails.append((None, what, None))
    for cell in deck['cells']:
        emitted = cell['id'] in volu
        listed = cell['id'] in note
        if not cell.get('level0', True):
            # a cell of a universe: not a level-0 cell
            if emitted or listed != cell['zero']:
                fails.append((cell, f'universe cell {cell["id"]}: emitted='
                              f'{emitted} listed={listed}', None))
            continue
        if cell.get('filled'):
            # its region is written under new ids: judged by the probe points
            if emitted or listed != cell['zero']:
                fails.append((cell, f'filled cell {cell["id"]} (zero='
                              f'{cell["zero"]}): emitted under its own id='
                              f'{emitted} listed={listed}', None))
            continue
        if cell['zero'] and (emitted or not listed):
            fails.append((cell, f'cell {cell["id"]} has importance 0 for '
                          f'every particle but emitted={emitted} '
                          f'listed={listed}',
                          class_of(deck, cell, emitted, listed)))
        if not cell['zero'] and (listed or not emitted):
            fails.append((cell, f'cell {cell["id"]} has importances '
                          f'{cell["values"]} but emitted={emitted} '
                          f'listed={listed}',
                          class_of(deck, cell, emitted, listed)))
    if len(set(note)) != len(note):
        fails.append((None, f'NOTE lists a cell twice: {note}', None))
    return conv, fails


# ---------------------------------------------------------------------------
# corpus: hand-written decks with hand-written answers (which cells are zero)
# ---------------------------------------------------------------------------

def corpus_deck(cells, imp_cards, extra=None):
    '''cells: [(id, options)] explicit void cells in nested shells, or
    (id, ('like', n), options); extra: raw cell lines (universes) and surface
    lines appended to the blocks.'''
    extra = extra or {}
    explicit = [c for c in cells if len(c) == 2]
    lines = ['C12 corpus deck']
    k = 0
    for cell in cells:
        if len(cell) == 2:
            lines.append(f'{cell[0]} 0 {g.geom_for(k, len(explicit))} '
                         f'{cell[1]}'.rstrip())
            k += 1
        else:
            lines.append(f'{cell[0]} like {cell[1][1]} but {cell[2]}'.rstrip())
    lines.extend(extra.get('cells', []))
    lines.append('')
    for j in range(1, max(1, len(explicit) - 1) + 1):
        lines.append(f'{j} so {j}')
    lines.extend(extra.get('surfs', []))
    lines.append('')
    lines.extend(imp_cards)
    lines.append('nps 1')
    return '\n'.join(lines) + '\n'


CORPUS = [
    # (name, cells, IMP cards, ids of the zero-importance cells)
    ('repeat', [(1, ''), (2, ''), (3, ''), (4, ''), (5, ''), (6, '')],
     ['imp:n 1 2r 0 1 0'], [4, 6]),
    ('repeat-of-zero-upper-case', [(1, ''), (2, ''), (3, ''), (4, ''), (5, '')],
     ['IMP:N 1 R 0 2R'], [3, 4, 5]),
    ('two-particles', [(1, ''), (2, ''), (3, ''), (4, '')],
     ['imp:n 1 0 0 1', 'imp:p 0 0 1 1'], [2]),
    ('three-particles-one-live', [(1, ''), (2, ''), (3, '')],
     ['imp:n 0 0 1', 'imp:p 0 0 0', 'imp:e 0 1 0'], [1]),
    # three and four IMP cards: the only non-zero entry of a cell sits on a
    # card that is neither the first nor the last one / on the smaller card
    ('three-particles-middle-card', [(1, ''), (2, ''), (3, '')],
     ['imp:n 1 0 0', 'imp:p 1 1 0', 'imp:e 1 0 0'], [3]),
    ('four-particles-inner-cards', [(1, ''), (2, ''), (3, ''), (4, '')],
     ['imp:n 0 0 0 1', 'imp:p 1 0 0 0', 'imp:e 0 r 2 0', 'imp:h 0 0 0 0'], [2]),
    ('crossing-zero-patterns', [(1, ''), (2, ''), (3, ''), (4, ''), (5, ''), (6, '')],
     ['imp:n 1 0 1 1 0 0', 'imp:p 1 1 0 1 0 0'], [5, 6]),
    ('interpolate-down-to-zero', [(1, ''), (2, ''), (3, ''), (4, '')],
     ['imp:n 2 1i 0 1'], [3]),
    ('interpolate-up-from-zero', [(1, ''), (2, ''), (3, ''), (4, ''), (5, '')],
     ['imp:n 0 2i 3 0'], [1, 5]),
    ('multiply-by-zero', [(1, ''), (2, ''), (3, ''), (4, '')],
     ['imp:n 1 0m 1 1m'], [2]),
    ('multiply-zero', [(1, ''), (2, ''), (3, '')],
     ['imp:n 0 4m 2'], [1, 2]),
    ('spellings-of-zero', [(1, ''), (2, ''), (3, ''), (4, ''), (5, ''), (6, '')],
     ['imp:n 1 0.0 0. 0e0 0.00 1'], [2, 3, 4, 5]),
    ('fortran-spellings', [(1, ''), (2, ''), (3, ''), (4, ''), (5, ''), (6, '')],
     ['imp:n 1.0+0 0.0+0 5-1 0d0 2+0m 0-3'], [2, 4, 5, 6]),
    ('fortran-interpolation', [(1, ''), (2, ''), (3, ''), (4, '')],
     ['imp:n 2d0 1i 0.0+0 1.5D+0'], [3]),
    ('fortran-spellings-on-cell-cards',
     [(1, 'imp:n=1.0+0'), (2, 'imp:n=0.0+0'), (3, 'imp:n 0d0 imp:p=5-1'),
      (4, 'IMP:N=0-3 imp:p 0.D+2'), (5, ('like', 1), 'imp:n=0d0')], [],
     [2, 4, 5]),
    # the first entry of the data card is not a plain integer (datacard.split cuts
    # the card after its leading digits; get_cell_importances glues them back)
    ('first-entry-decimal', [(1, ''), (2, ''), (3, ''), (4, '')],
     ['imp:n 1.0 1 1 0'], [4]),
    ('first-entry-decimal-shorthand', [(1, ''), (2, ''), (3, ''), (4, ''), (5, '')],
     ['imp:n 2.5 3r 0'], [5]),
    ('first-entry-dot-and-exponent', [(1, ''), (2, ''), (3, ''), (4, '')],
     ['imp:n 1. 0 1 0.', 'imp:p 1e0 0 0 0'], [2, 4]),
    ('first-entry-interpolated', [(1, ''), (2, ''), (3, ''), (4, ''), (5, '')],
     ['imp:n 0.5 2i 2 0'], [5]),
    ('position-not-id', [(30, ''), (10, ''), (20, '')], ['imp:n 0 1 1'], [30]),
    ('continuation-of-data-card', [(1, ''), (2, ''), (3, ''), (4, '')],
     ['imp:n 1', '      0 1', '      0'], [2, 4]),
    ('cell-card-spacing',
     [(1, 'imp : n = 0'), (2, 'IMP:N 0.0'), (3, 'imp:n,p=0'), (4, 'imp:n=1'),
      (5, 'imp: n =0 imp :p= 1'), (6, 'imp:n=0 vol=1 imp:p=0')], [],
     [1, 2, 3, 6]),
    ('cell-card-wins-over-data-card',
     [(1, 'imp:n=0'), (2, ''), (3, ''), (4, 'imp:p=2')],
     ['imp:n 1 0 1 0'], [1, 2]),
    ('like-inherits', [(1, 'imp:n=0'), (2, 'imp:n=1'), (3, ('like', 1), 'vol=2'),
                       (4, ('like', 3), 'tmp=1e-8'), (5, ('like', 2), '')],
     [], [1, 3, 4]),
    ('like-raises', [(1, 'imp:n=0'), (2, 'imp:n=1'), (3, ('like', 1), 'imp:n=2')],
     [], [1]),
    ('like-by-rank', [(1, ''), (2, ''), (3, ('like', 1), ''), (4, ('like', 2), '')],
     ['imp:n 1 0 0 1'], [2, 3]),
    # the two repaired defects (0b05eba, f85f992): must pass
    ('like-but-imp-zero', [(1, 'imp:n=1'), (2, ('like', 1), 'imp:n=0'),
                           (3, 'imp:n=1')], [], [2]),
    ('like-but-imp-zero-one-particle-of-two',
     [(1, 'imp:n,p=1'), (2, ('like', 1), 'imp:n=0'),
      (3, ('like', 1), 'imp:n=0 imp:p=0'), (4, ('like', 1), 'imp:p,n=0')],
     [], [3, 4]),
    ('like-chain-lowered-then-inherited',
     [(1, 'imp:n=2'), (2, ('like', 1), 'imp:n=0'), (3, ('like', 2), 'vol=1'),
      (4, ('like', 3), 'imp:n=4')], [], [2, 3]),
    ('like-chain-raised-then-inherited',
     [(1, 'imp:n=0'), (2, ('like', 1), 'imp:n=3'), (3, ('like', 2), 'vol=1'),
      (4, ('like', 3), 'tmp=1e-8'), (5, 'imp:n=1')], [], [1]),
    ('like-chain-two-particles',
     [(1, 'imp:n=1 imp:p=1'), (2, ('like', 1), 'imp:p=0'),
      (3, ('like', 2), 'imp:n=0'), (4, ('like', 3), 'vol=2'),
      (5, ('like', 2), 'imp:n,p=0')], [], [3, 4, 5]),
    ('nonu-is-not-u', [(1, 'imp:n=1 nonu=1'), (2, 'imp:n=0'),
                       (3, 'unc:n=1 imp:n=1'), (4, 'imp:n=0 nonu=2')],
     [], [2, 4]),
    # zero-importance level-0 cells that are FILLed: nothing of their region may
    # be written (the cells generated by the FILL copy the container's importance)
    ('filled-zero-cell-card', [(1, 'imp:n=1'), (2, 'imp:n=0 fill=5'), (3, 'imp:n=1 fill=5'),
                               (4, 'fill=5 imp:n=0 imp:p=0')], [], [2, 4],
     {'cells': ['201 0 -90 u=5 imp:n=1', '202 0 90 u=5 imp:n=1'],
      'surfs': ['90 px 0'], 'filled': [2, 3, 4]}),
    ('filled-zero-data-card-shorthand', [(1, ''), (2, 'fill=6'), (3, 'FILL 6'), (4, '')],
     ['imp:n 1 0 1 0 2r', 'imp:p 0 r 1 2m 1 0'], [2],
     {'cells': ['211 0 -91 u=6', '212 0 91 u=6'], 'surfs': ['91 so 1000'],
      'filled': [2, 3], 'universe_zero': [212]}),
    ('keywords-after-imp', [(1, 'imp:n=0 vol=3 tmp=2.5-8'), (2, 'vol=1 imp:n=1 pwt=0')],
     [], [1]),
]


def check_zero_deck(res, name, cells, cards, zero, extra, parse=True):
    '''One hand-described deck through the whole converter (VOLU ids, NOTE,
    probe points) and through parse() (skip list), against the given answer.'''
    text = corpus_deck(cells, cards, extra)
    ids = [c[0] for c in cells]
    filled = extra.get('filled', [])
    listed_expected = sorted(zero + extra.get('universe_zero', []))
    conv = impl.convert(text)
    if not conv.ok or conv.text is None:
        res.violation('impl-violation', f'deck {name} rejected: '
                      f'{conv.exc}: {conv.msg[:150]}',
                      {'input': {'deck': text}, 'expected': zero},
                      found_input=True)
        return
    t4 = impl.T4File(conv.text)
    volu = set(t4.volumes)
    note = g.note_list(conv.stdout)
    live = [k for k in ids if k not in zero and k not in filled]
    if sorted(volu & set(ids)) != sorted(live) \
            or sorted(note) != listed_expected:
        res.violation('impl-violation',
                      f'deck {name}: zero-importance cells {zero}; '
                      f'VOLU {sorted(volu & set(ids))} NOTE {note}',
                      {'input': {'deck': text}, 'expected': zero},
                      found_input=True)
    if all(len(c) == 2 for c in cells):
        # no LIKE cell: pairwise disjoint regions, look at what is written
        probes = [(c[0], k, c[0] in zero) for k, c in enumerate(cells)]
        for cid, what in point_failures(probes, t4):
            res.violation('impl-violation', f'deck {name}: {what}',
                          {'input': {'deck': text}, 'expected': zero},
                          found_input=True)
    if parse:
        result = g.run_impl(text, [])
        if result[0] != 'ok' or sorted(result[2]) != listed_expected:
            res.violation('impl-violation',
                          f'deck {name}: zero-importance cells {zero}; '
                          f'parse() skip list {result[2] if result[0] == "ok" else result[1]}',
                          {'input': {'deck': text}, 'expected': zero},
                          found_input=True)


def corpus(res):
    for name, cells, cards, zero, *rest in CORPUS:
        res.seen(('corpus', name), nontrivial=True)
        res.count('corpus')
        check_zero_deck(res, 'corpus ' + name, cells, cards, zero,
                        rest[0] if rest else {})


def exhaustive_decks(res, quick):
    '''EXHAUSTIVE small domain: 3 level-0 cells, two particle types, every
    importance vector in {0,1}^3 x {0,1}^3 (the all-zero one excepted: nothing
    to convert), given on IMP data cards, on the cell cards, or (thorough) with
    the second cell FILLed.'''
    import itertools
    k = 0
    for imp_n in itertools.product('01', repeat=3):
        for imp_p in itertools.product('01', repeat=3):
            zero = [i + 1 for i in range(3) if imp_n[i] == '0' and imp_p[i] == '0']
            if len(zero) == 3:
                continue
            k += 1
            variants = []
            if not quick or k % 3 == 0:
                variants.append(('data', [(1, ''), (2, ''), (3, '')],
                                 ['imp:n ' + ' '.join(imp_n),
                                  'imp:p ' + ' '.join(imp_p)], {}))
            if not quick or k % 3 == 1:
                variants.append(('cell', [(i + 1, f'imp:n={imp_n[i]} imp:p={imp_p[i]}')
                                          for i in range(3)], [], {}))
            if not quick or k % 9 == 2:
                variants.append(('fill', [(1, ''), (2, 'fill=5'), (3, '')],
                                 ['imp:n ' + ' '.join(imp_n) + ' 1 1',
                                  'imp:p ' + ' '.join(imp_p) + ' 1 1'],
                                 {'cells': ['201 0 -90 u=5', '202 0 90 u=5'],
                                  'surfs': ['90 px 0'], 'filled': [2]}))
            for kind, cells, cards, extra in variants:
                res.seen(('exhaustive', kind, imp_n, imp_p), nontrivial=True)
                res.count('exhaustive:' + kind)
                check_zero_deck(res, f'exhaustive {kind} n={"".join(imp_n)} '
                                f'p={"".join(imp_p)}', cells, cards, zero, extra,
                                parse=False)


def exhaustive_cards(res):
    '''EXHAUSTIVE: one probed cell between two live ones, importances on three
    and on four IMP data cards, every 0/1 pattern for the probed cell: it is
    left out iff every card gives 0, whatever the position of the card.'''
    import itertools
    names = ['imp:n', 'imp:p', 'imp:e', 'imp:h']
    for n_cards in (3, 4):
        for bits in itertools.product('01', repeat=n_cards):
            cards = [f'{names[k]} 1 {bits[k]} 1' for k in range(n_cards)]
            zero = [2] if set(bits) == {'0'} else []
            res.seen(('exhaustive', 'cards', bits), nontrivial=True)
            res.count('exhaustive:cards')
            check_zero_deck(res, f'exhaustive cards {"".join(bits)}',
                            [(1, ''), (2, ''), (3, '')], cards, zero, {},
                            parse=False)


EXHAUSTIVE_TOKENS = ['0', '1', 'r', '2r', 'i', '2I', '0m', '2M', 'j', '1log']


def exhaustive_expand():
    '''Every token list  v t1 .. tk  (v in 0/1, k <= 2 quick / 3 thorough) over
    EXHAUSTIVE_TOKENS, for tie:expand.'''
    import itertools
    for first in ('0', '1'):
        for k in (1, 2, 3):
            for tail in itertools.product(EXHAUSTIVE_TOKENS, repeat=k):
                yield k, [first] + list(tail)


def trcl_complement_decks(res):
    '''A zero-importance cell that carries a TRCL (inline, by TR number, through
    LIKE n BUT TRCL=) and is complemented (#n) by a written cell: the region
    left out must be the MOVED cell - its points lie in no written volume, the
    points of the place it was moved away from belong to the written cell.'''
    import t4eval
    k = 0
    for shift in (2.0, -3.0, 2.5):
        for form in ('inline', 'tr', 'like', 'star'):
            for zero_from in ('cell', 'data'):
                for zero in (True, False):
                    k += 1
                    imp = '0' if zero else '1'
                    kw = (lambda v: f' imp:n={v}') if zero_from == 'cell' \
                        else (lambda v: '')
                    tr_card = []
                    if form == 'inline':
                        moved = [f'3 0 -7 trcl=({shift} 0 0){kw(imp)}']
                    elif form == 'star':
                        moved = [f'3 0 -7 *trcl=({shift} 0 0 0 90 90 90 0 90 90 90 0)'
                                 f'{kw(imp)}']
                    elif form == 'tr':
                        moved = [f'3 0 -7 trcl=4{kw(imp)}']
                        tr_card = [f'tr4 {shift} 0 0']
                    else:
                        moved = [f'5 0 -7 u=9{kw("1")}',
                                 f'3 like 5 but u=0 trcl=({shift} 0 0){kw(imp)}']
                    n_imp = len(moved) + 2
                    lines = ['C12 trcl/complement deck',
                             f'1 0 #3 -8{kw("1")}', f'2 0 8{kw("1")}'] + moved
                    lines += ['', '7 so 1', '8 so 10', '']
                    if zero_from == 'data':
                        vals = ['1', '1'] + (['1'] if form == 'like' else []) + [imp]
                        lines.append('imp:n ' + ' '.join(vals))
                    lines += tr_card + ['nps 1']
                    text = '\n'.join(lines) + '\n'
                    res.seen(('trcl-complement', text), nontrivial=True)
                    res.count('trcl-complement:' + ('zero' if zero else 'live'))
                    conv = impl.convert(text)
                    if not conv.ok or conv.text is None:
                        res.violation('impl-violation',
                                      f'trcl/complement deck rejected: {conv.exc}: '
                                      f'{conv.msg[:150]}', {'input': {'deck': text}},
                                      found_input=True)
                        continue
                    t4 = impl.T4File(conv.text)
                    note = g.note_list(conv.stdout)
                    if (3 in note) != zero:
                        res.violation('impl-violation',
                                      f'cell 3 (zero importance: {zero}) listed in '
                                      f'the NOTE: {3 in note}',
                                      {'input': {'deck': text}}, found_input=True)
                    ev = t4eval.Evaluator(t4)
                    moved_pt = (shift + 0.1, 0.2, -0.3)     # inside the moved cell 3
                    origin_pt = (0.1, -0.2, 0.3)            # where it was before
                    try:
                        own_moved = ev.owners(moved_pt)
                        own_origin = ev.owners(origin_pt)
                    except t4eval.T4EvalError as exc:
                        res.violation('impl-violation', 'cannot evaluate the written '
                                      f'file: {exc}', {'input': {'deck': text}},
                                      found_input=True)
                        continue
                    if zero and own_moved:
                        res.violation('impl-violation',
                                      f'cell 3 has importance 0 and is moved by TRCL; its '
                                      f'point {moved_pt} lies in written volume(s) '
                                      f'{own_moved}', {'input': {'deck': text}},
                                      found_input=True)
                    if not zero and not own_moved:
                        res.violation('impl-violation',
                                      f'cell 3 (importance 1, moved by TRCL): its point '
                                      f'{moved_pt} lies in no written volume',
                                      {'input': {'deck': text}}, found_input=True)
                    if not own_origin:
                        res.violation('impl-violation',
                                      f'cell 1 = #3 -8 has non-zero importance but its '
                                      f'point {origin_pt} (outside the moved cell 3) lies '
                                      'in no written volume',
                                      {'input': {'deck': text}}, found_input=True)


ALL_ZERO = '''all cells of zero importance
1 0 -1 imp:n=0
2 0 1 imp:n=0

1 so 1

nps 1
'''


def all_zero_deck(res):
    '''Outside the domain (ASSUMPTIONS): nothing to convert. The run must
    stop without producing VOLU lines for the zero-importance cells.'''
    conv = impl.convert(ALL_ZERO)
    res.seen(('all-zero',), nontrivial=False)
    if conv.ok and conv.text:
        t4 = impl.T4File(conv.text)
        note = g.note_list(conv.stdout)
        if set(t4.volumes) & {1, 2} or sorted(note) != [1, 2]:
            res.violation('impl-violation',
                          'deck with only zero-importance cells: VOLU '
                          f'{sorted(t4.volumes)} NOTE {note}',
                          {'input': {'deck': ALL_ZERO}}, found_input=True)
        res.count('all-zero:converted-empty')
    else:
        res.count('all-zero:stopped:' + str(conv.exc))


# ---------------------------------------------------------------------------
# run
# ---------------------------------------------------------------------------

def parse_ties(res, rng, n_valid, n_bad):
    cases, meta = [], []
    for i in range(n_valid + n_bad):
        malformed = i >= n_valid
        deck = gen_deck(rng, level0=False, malformed=malformed)
        text = g.render_deck(deck, rng)
        largs = lattice_args_for(deck, rng)
        result = g.run_impl(text, explicit_geoms(deck), largs)
        cases.append(g.c_pcase(deck, largs, result))
        meta.append((deck, text, largs, result))
        res.seen(('parse', text, largs),
                 nontrivial=len(deck['cells']) >= 2)
        res.count('parse-mode:' + deck['mode'])
        res.count('parse-fault:' + str(deck['fault']))
        res.count('parse-impl:' + (result[1] if result[0] == 'err' else 'ok'))
        res.count('parse-like-cells', sum(1 for c in deck['cells']
                                          if c['like'] is not None))
        # property-level look at the implementation's own answer
        if result[0] == 'ok' and not malformed:
            got = dict(result[1])
            for cell in deck['cells']:
                skipped = cell['id'] in result[2]
                if skipped != cell['zero']:
                    cls = None
                    res.violation(
                        'impl-violation',
                        f'cell {cell["id"]}: importances {cell["values"]} '
                        f'but in skip list = {skipped} (parsed importance '
                        f'{got[cell["id"]]["imp"]})',
                        {'input': {'deck': text, 'lattice': largs}},
                        cls=cls, found_input=True)
    res.sample({'deck': meta[0][1], 'impl_skipped': meta[0][3][2]
                if meta[0][3][0] == 'ok' else meta[0][3][1]})
    res.sample({'deck': meta[n_valid][1], 'fault': meta[n_valid][0]['fault'],
                'impl': meta[n_valid][3][:3]
                if meta[n_valid][3][0] == 'err' else 'ok'})
    bad, errs = run_cases('c12_parse', HEADER, 'pcase',
                                      'check_parse', cases, chunk=40)
    res.obligation(f'tie:parse ({len(cases)} decks: Model.parse_cells = '
                   'ParseMCNPCell.parse, per cell importance/universe/'
                   'material/density/fill/filltr/lattice/trcl + skip list)',
                   not bad and not errs,
                   f'{len(bad)} disagreements {errs[:1]}')
    for idx in bad[:10]:
        deck, text, largs, result = meta[idx]
        res.violation('correspondence',
                      'model and ParseMCNPCell.parse disagree on a deck '
                      f'(fault={deck["fault"]}); impl='
                      + (result[1] if result[0] == 'err' else 'ok'),
                      {'input': {'deck': text, 'lattice': largs,
                                 'coq_case': cases[idx]},
                       'observed': repr(result[:3])[:3000],
                       'theorem_or_correspondence': 'tie:parse'},
                      found_input=False)
    if errs:
        res.violation('correspondence', 'tie:parse could not be evaluated: '
                      + errs[0][-300:], {'theorem_or_correspondence':
                                         'tie:parse', 'errors': errs[:2]},
                      found_input=False)


def conversion_sweep(res, rng, n_decks, n_guard):
    cases, meta = [], []
    fill_cases, fill_meta = [], []
    for i in range(n_decks + n_guard):
        guard = i >= n_decks
        fill = not guard and i % 4 == 3
        deck = gen_fill_deck(rng) if fill \
            else gen_deck(rng, level0=True, malformed=False)
        if guard:
            # outside the theorems' hypotheses: keywords containing a 'u'
            victim = rng.choice(deck['cells'])
            blk = g.gen_block(rng, 'ukw')
            victim['opts'] = (victim['opts'] + ' '
                              + g.render_block(blk, rng)).strip()
        text = g.render_deck(deck, rng)
        conv, fails = oracle_conversion(deck, text)
        n_zero = sum(1 for c in deck['cells'] if c['zero'])
        res.seen(('conv', text), nontrivial=0 < n_zero < len(deck['cells']))
        res.count('conv-mode:' + deck['mode'] + (':guard' if guard else '')
                  + (':fill' if fill else ''))
        if fill:
            res.count('conv-fill:nested', int(deck['nested']))
            res.count('conv-fill:zero-importance-filled-cells',
                      sum(1 for c in deck['cells']
                          if c.get('filled') and c['zero']))
        res.count(f'conv-zero-cells:{min(n_zero, 4)}')
        for cell, what, cls in fails:
            res.violation('impl-violation', what,
                          {'input': {'deck': text},
                           'expected': [(c['id'], c['values'])
                                        for c in deck['cells']]},
                          cls=cls, found_input=True)
        if conv.ok and conv.text:
            result = g.run_impl(text, explicit_geoms(deck))
            if result[0] == 'ok':
                t4 = impl.T4File(conv.text)
                ids = {c['id'] for c in deck['cells']}
                # model order: the order of the cell dictionary
                order = [k for k, _ in result[1]]
                volu = [k for k in order if k in t4.volumes and k in ids]
                note = g.note_list(conv.stdout) \
                    if g.NOTE_RE.search(conv.stdout) else None
                if fill:
                    pairs = []
                    for vid in t4.vol_order:
                        vol = t4.volumes[vid]
                        m = re.search(r'\((\d+), (\d+)\)$', vol['comment'].strip())
                        if m and not vol['fictive']:
                            pairs.append((int(m.group(1)), int(m.group(2))))
                    fill_cases.append(cpair(
                        g.c_pcase(deck, (), result, texts=False),
                        clist(cpair(cz(a), cz(b)) for a, b in pairs)))
                    fill_meta.append((deck, text))
                cases.append(cpair(g.c_pcase(deck, (), result, texts=False),
                                   clist(cz(k) for k in volu),
                                   copt(note, lambda l: clist(cz(k)
                                                              for k in l)),
                                   clist(cstr(line) for line in
                                         g.note_bytes_lines(conv.stdout))))
                meta.append((deck, text))
    if meta:
        res.sample({'deck': meta[0][1],
                    'abstract': [(c['id'], c['values'])
                                 for c in meta[0][0]['cells']]})
    bad, errs = run_cases('c12_conv', HEADER,
                                      'pcase * list Z * option (list Z) * list string',
                                      'check_conv', cases, chunk=100)
    res.obligation(f'tie:conv ({len(cases)} conversions: Model.written_ids = '
                   'VOLU ids of the written file, Model.note_lines = bytes of the NOTE)', not bad and not errs,
                   f'{len(bad)} disagreements {errs[:1]}')
    for idx in bad[:10]:
        deck, text = meta[idx]
        res.violation('correspondence',
                      'VOLU ids of the written file / NOTE list differ '
                      'from Model.written_ids / Model.note', {'input': {'deck': text},
                                          'theorem_or_correspondence':
                                          'tie:conv'}, found_input=False)
    fbad, ferrs = run_cases('c12_fill', HEADER, 'pcase * list (Z * Z)',
                            'check_fill', fill_cases, chunk=40)
    res.obligation(f'tie:fill ({len(fill_cases)} conversions of decks with '
                   'FILLed level-0 cells: Model.conv_generated = the (universe '
                   'cell, container) comments of the written non-virtual '
                   'volumes)', not fbad and not ferrs,
                   f'{len(fbad)} disagreements {ferrs[:1]}')
    for idx in fbad[:10]:
        deck, text = fill_meta[idx]
        res.violation('correspondence',
                      'written volumes stemming from FILL differ from '
                      'Model.conv_generated', {'input': {'deck': text},
                                               'theorem_or_correspondence':
                                               'tie:fill'}, found_input=False)
    if ferrs:
        res.violation('correspondence', 'tie:fill could not be evaluated: '
                      + ferrs[0][-300:], {'theorem_or_correspondence':
                                          'tie:fill', 'errors': ferrs[:2]},
                      found_input=False)
    if errs:
        res.violation('correspondence', 'tie:conv could not be evaluated: '
                      + errs[0][-300:], {'theorem_or_correspondence':
                                         'tie:conv', 'errors': errs[:2]},
                      found_input=False)


def run(res, tier, seed, proofs_ok):
    rng = random.Random(seed)
    quick = tier == 'quick'
    res.rule = ('(a) IMP-card token lists (values, nR, nI, xM, nJ, nLOG/nILOG, '
                'mixed case) plus a malformed stream; (b) decks of 2-8 cells, '
                'ids in/out of order, importances on cell cards / data cards '
                'for 1-3 particles / mixed, shorthand in the data cards, LIKE '
                'cells, option blocks (u, fill, *fill, lattice arrays, trcl, '
                'lat, noise keywords) in all spellings, continuation lines, '
                'plus a malformed stream (card lengths, jumps, missing values,'
                ' unknown TR, LIKE of a missing cell, ...); (c) whole '
                'conversions of level-0 decks incl. keywords containing "u"; '
                'non-trivial = >= 2 tokens / cells, for (c) a deck with both '
                'zero and non-zero cells')
    import contextlib
    import time
    marks = [('start', time.time())]

    def mark(name):
        marks.append((name, time.time()))
    # line coverage is information only: it must never stop or fail the check
    cov, cov_missing = None, []
    try:
        import c12_cov
        funcs, cov_missing = c12_cov.anchored_functions()
        cov = c12_cov.LineCov(funcs)
    except Exception as exc:      # pylint: disable=broad-except
        res.extra['line_coverage_error'] = repr(exc)[:200]
    with (cov if cov is not None else contextlib.nullcontext()):
        corpus(res)
        all_zero_deck(res)
        mark('corpus')
        exhaustive_decks(res, quick)
        exhaustive_cards(res)
        trcl_complement_decks(res)
        mark('exhaustive decks')
        expand_ties(res, rng, 240 if quick else 3000, 160 if quick else 2000,
                    2 if quick else 3)
        mark('tie:expand')
        parse_ties(res, rng, 160 if quick else 2000, 100 if quick else 1000)
        mark('tie:parse')
    try:
        if cov is not None:
            coverage_obligation(res, cov)
        if cov_missing:
            res.extra['line_coverage_skipped'] = [
                f'skipped: helper {name} not present' for name in cov_missing]
    except Exception as exc:      # pylint: disable=broad-except
        res.extra['line_coverage_error'] = repr(exc)[:200]
    lattice_sweep(res, 30 if quick else 150, rng)
    mark('lattice sweep')
    conversion_sweep(res, rng, 160 if quick else 1800, 32 if quick else 200)
    mark('conversion sweep + tie:conv + tie:fill')
    res.extra['section_seconds'] = {
        name: round(t - marks[k][1], 1) for k, (name, t) in enumerate(marks[1:])}
    if g.SKIPPED:
        res.extra['skipped_helpers'] = sorted('skipped: ' + name
                                              for name in g.SKIPPED)


def coverage_obligation(res, cov):
    import c12_cov
    total, missing = cov.missing(c12_cov.EXEMPT)
    res.obligation('coverage: corpus + tie:expand + tie:parse execute every '
                   f'reachable line of the anchored parser functions ({total} '
                   f'lines of {len(cov.codes)} code objects)', not missing,
                   f'never executed: {missing[:6]}')
    res.extra['anchored_lines'] = total
    if missing:
        res.violation('harness-error',
                      'generated inputs no longer reach these lines of the '
                      'anchored code (strengthen the generators): '
                      f'{missing[:8]}',
                      {'theorem_or_correspondence': 'coverage',
                       'input': {'lines': [list(m) for m in missing[:20]]}},
                      found_input=False)


def replay(path):
    data = json.load(open(path))
    inp = data.get('input', {})
    if 'deck' in inp:
        conv = impl.convert(inp['deck'])
        print('conversion:', conv)
        if conv.text:
            t4 = impl.T4File(conv.text)
            print('VOLU ids:', sorted(t4.volumes))
            print('NOTE list:', g.note_list(conv.stdout))
        if 'coq_case' in inp:
            model, out = common.coq_eval(HEADER + 'Import ListNotations.\n',
                                         'run_case ' + inp['coq_case'])
            print('model:', model if model else out[-1500:])
    elif 'tokens' in inp:
        print('implementation:', impl_expand(inp['tokens'],
                                             inp.get('expected')))
        tables = g.c_tables(inp['tokens'], {})
        model, _ = common.coq_eval(
            HEADER + 'Import ListNotations.\n',
            f'expand FS (prims_of {tables}) '
            + clist(cstr(t) for t in inp['tokens']) + ' '
            + copt(inp.get('expected'), cz))
        print('model:', model)
    print('recorded:', data.get('what'))
    if 'expected' in data:
        print('expected:', data['expected'])
    return 0
