'''C07 — hexagonal lattices follow MCNP's hexagonal index convention.

Theorems: coq/Properties/C07.v.  Ties (correspondence by execution, model at
binary64 against the functions imported from the repository):
  inter    : VectUtils.pointInPlaneIntersection     vs Model.pointInPlaneIntersection
  side     : VectUtils.planeSide                    vs Model.planeSide (exact)
  proj     : VectUtils.projectPointOnPlane          vs Model.projectPointOnPlane
  adj      : Lattice.areHexSidesAdjacent            vs Model.areHexSidesAdjacent
  sort     : Lattice.hexSortSides (whole dictionary, insertion order)
  vertices : Lattice.hexVertices (all first_side)   vs Model.hexVertices
  base     : Lattice.hexLatticeBaseVectors          vs Model.hexLatticeBaseVectors
  walk     : the while/for loop of Lattice.hexVertices on fake adjacency
             dictionaries (hexSortSides stubbed) vs Model.hex_vertices_abs
  domain   : develop_lattice's test of the FILL ranges (accept / LatticeError
             of whole conversions)                    vs Model.domain_check
  latvec   : Lattice.latticeVector                  vs Model.latticeVector
on random admissible prisms (regular / irregular centrally symmetric, the 48
listing orders, 6 and 8 planes, tilted caps, any orientation and normal sense)
and on a malformed stream (exception classes compared; a hang of the Python
loop is the model's ELoop).
Independent oracle (sweep): the generator's hexagon gives a1, a2, a3 by MCNP's
convention; (1) the implementation's hexLatticeBaseVectors against them,
(2) whole conversions of LAT=2 decks in which every element is filled with its
own universe, checked point by point with harness/mcnpref.py (element located
from the generator's vectors) against the written volumes (harness/t4eval.py)
and their provenance comments.'''
import json
import os
import random
import signal
import sys
import time

import numpy as np

import common
import impl
import c07_gen as gen
from common import cfloat, cz, cnat, clist, cpair

# every theorem of coq/Properties/C07.v is a member of exactly one family; the
# families are the conjunctions of the member theorems themselves, so one
# Print Assumptions per family audits all of them
THEOREMS = ['C07_family_algebra', 'C07_family_combinatorics', 'C07_family_base_vectors', 'C07_family_errors', 'C07_family_linked']
MEMBERS = ['C07_plane_intersection_on_both',
           'C07_plane_intersection_direction',
           'C07_project_on_plane',
           'C07_axial_vector',
           'C07_hex_translation',
           'C07_proj_par_meaning',
           'C07_side_constant_along_line',
           'C07_adjacent_at_vertex',
           'C07_lattice_vector',
           'C07_admissible_listings',
           'C07_sort_and_vertices_all_orders',
           'C07_walk_never_hangs_on_hexagons',
           'C07_walk_ends_iff_closed_tour',
           'C07_sort_count_error',
           'C07_domain_check_spec',
           'C07_domain_check_error',
           'C07_hex_base_vectors_partial',
           'C07_hex_adjacency_geometry',
           'C07_hex_base_vectors',
           'C07_base_vector_carries_opposite_plane',
           'C07_regular_hexagon_in_family',
           'C07_rhp_cell_hypotheses',
           'C07_rhp15_lattice_vectors',
           'C07_rhp9_lattice_vectors',
           'C07_base_vectors_wrong_count',
           'C07_intersection_error_iff',
           'C07_sort_sides_outcomes',
           'C07_base_vectors_parallel_planes',
           'C07_collinear_sides_parallel',
           'C07_caps_parallel_to_axis',
           'C07_flipped_sense_lattice_error',
           'C07_flipped_set_lattice_error',
           'C07_base_vectors_outcomes',
           'C07_base_vectors_by_shape',
           'C07_axial_planes_exact',
           'C07_hex_lattice_developed',
           'C07_develop_lattice_hex_is_tied',
           'C07_rhp_is_C03_rhp_linked',
           'C07_hex_base_vectors_trcl_linked']
TRUSTED = [
    'hand-written models coq/C07/Model.v, ModelDevelop.v (tied by execution '
    'to the functions of /repo; C07.rhp additionally proved equal to C03\'s '
    'model of it, LinkC03.v)',
    'binary64 evaluation: the theorems are over R; the models are run at '
    'PrimFloat only for the ties (1e-9 scaled tolerance, planeSide exact)',
    'harness: generators (c07_gen.py), mcnpref/t4eval oracles, impl.T4File '
    'reader, PEG shim replacing TatSu, the run-time wrapper of props/c06.py '
    'around CellConversion.develop_lattice and the spy on '
    'hexLatticeBaseVectors, c02_cov.LineCov',
    'C06\'s model and theorems of develop_lattice_with (C07_hex_lattice_'
    'developed), C04\'s model of Transformation.transformation and its frame '
    'lemmas (C07_hex_base_vectors_trcl_linked), C03\'s model of MacroBodies.rhp '
    '(C07_rhp_is_C03_rhp_linked): imported read-only, audited in the same '
    'Print Assumptions',
]
ASSUMPTIONS = [
    'the main family (C07_hex_base_vectors, C07_rhp*_lattice_vectors, '
    'C07_hex_lattice_developed, the error theorems about flipped senses and '
    'caps) is about plane lists that carry the six sides of a strictly convex '
    'centrally symmetric hexagon in one of the 48 MCNP listing orders; for '
    'every other plane list C07_base_vectors_outcomes / C07_base_vectors_by_'
    'shape give the possible outcomes (which one occurs is decided by '
    'parallelism, the number and the shape of the accepted intersections), '
    'not a geometric description of the input',
    'nothing is proved about binary64 rounding (planeSide has no tolerance)',
    'LAT=2 cells written with macrobody facets (b.k) are covered by the point '
    'sweep of the decks only: the extract_surfaces model takes whole surface '
    'numbers, and the run-time wrapper of develop_lattice records numbers '
    'without the facet suffix (such calls are left out of tie:develophex)',
    'surfaces carrying a TRn, cell_transform / pot_transform and the writer '
    'are outside the C07 models: a TRCL/TRn prism is covered by the linked '
    'invariance theorem on the plane frames (C04) and observed at the call '
    'of develop_lattice (tie:develophex), the rest by the deck sweep only',
]
HEADER = ('From Coq Require Import List Arith ZArith Bool PrimFloat.\n'
          'From T4V Require Import Base.Scalar C07.Model C07.Exec.\n')


_T0 = [time.time()]


def _stage(name):
    """Wall time of the stages of run() on stderr when T4GC_TIMING is set."""
    if os.environ.get('T4GC_TIMING'):
        now = time.time()
        sys.stderr.write(f'[C07 timing] {name}: {now - _T0[0]:.1f} s\n')
        _T0[0] = now


# tie -> (case type, check function, model applied to the case `c`)
TIE_MODEL = {
    'walk': ('list (nat * nat) * nat * res (list (nat * nat))', 'check_walk',
             'hex_vertices_abs (adjb_of (fst (fst c))) (snd (fst c))'),
    'base': ('list fsurf * res (list fvec)', 'check_base',
             'hexLatticeBaseVectors FS (fst c)'),
    'vertices': ('list fsurf * nat * res (list fvec * fvec)',
                 'check_vertices',
                 'hexVertices FS (fst (fst c)) (snd (fst c))'),
    'sort': ('list fsurf * res (adjacency fline)', 'check_sort',
             'hexSortSides FS (fst c)'),
    'adj': ('fplane * fplane * fsurf * fsurf * res (option fline)',
            'check_adj',
            'areHexSidesAdjacent FS (fst (fst (fst (fst c)))) '
            '(snd (fst (fst (fst c)))) (snd (fst (fst c))) (snd (fst c))'),
    'inter': ('fplane * fplane * res fline', 'check_inter',
              'pointInPlaneIntersection FS (fst (fst c)) (snd (fst c))'),
    'side': ('fvec * fplane * Z', 'check_side',
             'planeSide FS (fst (fst c)) (snd (fst c))'),
    'domain': ('nat * list (Z * Z) * res unit', 'check_domain',
               'domain_check (fst (fst c)) (snd (fst c))'),
    'latvec': ('list fvec * list Z * fvec', 'check_latvec',
               'latticeVector FS (fst (fst c)) (snd (fst c))'),
    'rhpcell': ('list float * res (list fsurf)', 'check_rhp_cell',
                'rhp_cell_surfaces FS (fst c)'),
    'planecell': ('list (nat * (float * float * float * float)) * list Z '
                  '* res (list fsurf)', 'check_plane_cell',
                  'tt'),
    'rotate': ('fvec * fvec * float * fvec', 'check_rotate',
               'rotate FS (fst (fst (fst c))) (snd (fst (fst c))) '
               '(snd (fst c))'),
    'proj': ('fvec * fplane * fvec * res fvec', 'check_proj',
             'projectPointOnPlane FS (fst (fst (fst c))) (snd (fst (fst c))) '
             '(snd (fst c))'),
}
EVAL_HEADER = HEADER + 'Import ListNotations.\n'

# ---- running the implementation -------------------------------------------

class Hang(Exception):
    pass


def _alarm(_signum, _frame):
    raise Hang()


def guarded(fun, *args):
    '''('ok', value) | ('err', class) with a watchdog for the unbounded loop
    of hexVertices.'''
    from t4_geom_convert.Kernel.Volume.Lattice import LatticeError
    import common
    old = common.arm_watchdog(_alarm, 2.0)   # CPU-time limit + wall-clock backstop
    tracing = COV is not None and COV_ON[0]
    if tracing:
        COV.__enter__()
    try:
        return ('ok', fun(*args))
    except ZeroDivisionError:
        return ('err', 'EZeroDiv')
    except LatticeError:
        return ('err', 'ELattice')
    except AssertionError:
        return ('err', 'EAssert')
    except StopIteration:
        return ('err', 'EStop')
    except Hang:
        return ('err', 'ELoop')
    except Exception:       # pylint: disable=broad-except
        return ('err', 'EOther')
    finally:
        if tracing:
            COV.__exit__()
        common.disarm_watchdog(old)


def _valarm(_signum, _frame):
    raise Hang()


def walk_on_fake_adjacency(LT, pairs, first):
    """hexVertices' loop alone: hexSortSides is replaced by a dictionary whose
    Some-entries are exactly `pairs`; the line stored for (i, j) is the vertical
    through (i, j, 5), so the projected vertices read back as the keys taken.
    CPU-time watchdog (the loop takes microseconds when it ends)."""
    adj = {}
    for i in range(6):
        for j in range(i + 1, 6):
            adj[(i, j)] = (((float(i), float(j), 5.0), (0.0, 0.0, 1.0))
                           if (i, j) in pairs else None)
    surfs = [(((0.0, 0.0, 0.0), (1.0, 0.0, 0.0)), -1)] * 6
    real = LT.hexSortSides
    old = signal.signal(signal.SIGVTALRM, _valarm)
    LT.hexSortSides = lambda _surfs: adj
    signal.setitimer(signal.ITIMER_VIRTUAL, 0.01)
    try:
        verts, _ = LT.hexVertices(surfs, first)
        return ('ok', [(int(v[0]), int(v[1])) for v in verts])
    except Hang:
        return ('err', 'ELoop')
    except StopIteration:
        return ('err', 'EStop')
    except AssertionError:
        return ('err', 'EAssert')
    except LT.LatticeError:
        return ('err', 'ELattice')
    except Exception:       # pylint: disable=broad-except
        return ('err', 'EOther')
    finally:
        signal.setitimer(signal.ITIMER_VIRTUAL, 0)
        signal.signal(signal.SIGVTALRM, old)
        LT.hexSortSides = real


class SurfaceSpy:
    """Records the argument of every call of hexLatticeBaseVectors made by
    develop_lattice while the context is active."""

    def __init__(self):
        self.captured = []
        self.real = None

    def __enter__(self):
        from t4_geom_convert.Kernel.Volume import CellConversion as CC
        self.captured = []
        # the name under which CellConversion calls it; when a rewrite calls it
        # some other way nothing is captured and the surface-list ties simply
        # have no cases from this conversion (tie:develophex still observes
        # the call of develop_lattice)
        self.real = getattr(CC, 'hexLatticeBaseVectors', None)
        if self.real is None:
            return self

        def spy(surfaces):
            try:
                self.captured.append(
                    [((tuple(float(x) for x in pl[0]),
                       tuple(float(x) for x in pl[1])), int(side))
                     for pl, side in surfaces])
            except Exception:       # pylint: disable=broad-except
                pass
            return self.real(surfaces)
        CC.hexLatticeBaseVectors = spy
        return self

    def __exit__(self, *exc):
        from t4_geom_convert.Kernel.Volume import CellConversion as CC
        if self.real is not None:
            CC.hexLatticeBaseVectors = self.real
        return False


def csurfs(surfs):
    return clist(csurf(s) for s in surfs)


def plane_cards_of(deck):
    """(kind, (A, B, C, D)) of the plane cards 301.. of a generated deck, as
    cards 1.., and the literals of the lattice cell renumbered likewise."""
    kinds = {'p': 0, 'px': 1, 'py': 2, 'pz': 3}
    cards = []
    for card in deck['surfaces']:
        if card['id'] >= 900:
            continue
        prm = [float(v) for v in card['params']] + [0.0, 0.0, 0.0]
        cards.append((kinds[card['mn']], tuple(prm[:4])))
    lat = next(c for c in deck['cells'] if c.get('lat'))
    ids = [(abs(e[1]) - 300) * (1 if e[1] > 0 else -1) for e in lat['expr'][1:]]
    return cards, ids


def rhp_card_deck(rng):
    """A LAT=2 cell bounded by one RHP/HEX card with 9 or 15 entries (a valid
    regular / irregular prism), or a malformed card: wrong count, zero height,
    zero r."""
    import deck as deckmod
    want9 = rng.random() < 0.45
    while True:
        deck, _meta = gen_deck(rng, style='rhp', facets=False)
        if not _meta['moved'] and (
                not want9 or len(deck['surfaces'][0]['params']) == 9):
            break
    card = deck['surfaces'][0]
    params = list(card['params'])
    roll = rng.random()
    if roll < 0.12:
        params = params[:rng.choice([6, 8, 10, 12, 14])]
    elif roll < 0.2:
        params[3:6] = [0.0, 0.0, 0.0]
    elif roll < 0.26:
        params[6:9] = [0.0, 0.0, 0.0]
    if rng.random() < 0.3:
        card['mn'] = 'hex'
    card['params'] = params
    return [float(v) for v in params], deckmod.render(deck)


DEVELOP_RECORDS = []        # calls of develop_lattice seen in this run
COV = None                  # line-coverage tracer of the anchored functions
COV_ON = [False]            # trace the function-level calls of this iteration

# lines of the anchored functions that no input of this check can reach
UNREACHABLE = [
    # develop_lattice: only called for lattice cells by ConstructVolumeT4, with
    # a LatticeSpec; LAT=1 belongs to C06
    'return', 'lat_base_vectors = squareLatticeBaseVectors(surfaces)',
    # fewer FILL ranges than base vectors: only through the --lattice option (C06)
    "msg = ('Problem of domain definition for lattice; expected '",
    "f'at least {n_vectors} bounds, got {len(domain.bounds)}')",
    # hexSortSides is only called by hexVertices, with six planes
    "raise LatticeError('hexSortSides() must be called with 6 planes')",
]


def anchored_functions(missing=None):
    """The anchored functions that exist in the tree under test (a name that a
    rewrite removed is recorded in `missing`, never an error)."""
    import importlib
    wanted = [
        ('t4_geom_convert.Kernel.VectUtils',
         ['pointInPlaneIntersection', 'planeSide', 'projectPointOnPlane',
          'rotate', 'planeParamsFromNormalAndPoint']),
        ('t4_geom_convert.Kernel.Volume.Lattice',
         ['areHexSidesAdjacent', 'hexSortSides', 'hexVertices',
          'hexLatticeBaseVectors', 'latticeVector']),
        ('t4_geom_convert.Kernel.Volume.CellConversion',
         ['CellConversion.develop_lattice', 'CellConversion.extract_surfaces']),
        ('t4_geom_convert.Kernel.Surface.MacroBodies', ['rhp']),
    ]
    found = []
    for modname, names in wanted:
        try:
            obj0 = importlib.import_module(modname)
        except Exception:       # pylint: disable=broad-except
            if missing is not None:
                missing.append(modname)
            continue
        for name in names:
            obj = obj0
            for part in name.split('.'):
                obj = getattr(obj, part, None)
                if obj is None:
                    break
            if obj is None or not hasattr(getattr(obj, '__func__', obj),
                                          '__code__'):
                if missing is not None:
                    missing.append(f'{modname}.{name}')
                continue
            found.append(obj)
    return found


def convert_watchdog(text, secs=30.0, trace=False):
    """impl.convert under a watchdog: a conversion that does not end (the
    unbounded loop of hexVertices) comes back as exc='Hang'.  Every call of
    CellConversion.develop_lattice made on the way is recorded (run-time
    wrapper of props/c06.py) for tie:develophex."""
    from props import c06
    import common
    old = common.arm_watchdog(_alarm, secs)   # CPU-time limit + wall-clock backstop
    tracing = COV is not None and trace
    try:
        with c06.spy_develop(DEVELOP_RECORDS):
            if tracing:
                with COV:
                    return impl.convert(text, keep_stdout=False)
            return impl.convert(text, keep_stdout=False)
    finally:
        common.disarm_watchdog(old)


# ---- rendering ------------------------------------------------------------

def cvec(v):
    return cpair(*(cfloat(x) for x in v))


def cplane(pl):
    return cpair(cvec(pl[0]), cvec(pl[1]))


def csurf(s):
    return cpair(cplane(s[0]), cz(s[1]))


def cres(out, render):
    if out[0] == 'err':
        return f'(Err {out[1]})'
    return f'(Ok {render(out[1])})'


def cline(ln):
    return cpair(cvec(ln[0]), cvec(ln[1]))


def copt_line(x):
    return 'None' if x is None else f'(Some {cline(x)})'


def cadj(adj):
    return clist(cpair(cpair(cnat(k[0]), cnat(k[1])), copt_line(v))
                 for k, v in adj.items())


def finite(obj):
    '''No nan/inf anywhere (those are compared by class only).'''
    if isinstance(obj, (tuple, list)):
        return all(finite(x) for x in obj)
    if isinstance(obj, dict):
        return all(finite(x) for x in obj.values())
    if isinstance(obj, float):
        return obj == obj and abs(obj) != float('inf')
    return True


# ---- decks ----------------------------------------------------------------

def plane_card(sid, point, nrm):
    '''P card A B C D with Ax+By+Cz-D = 0; axis planes as PX/PY/PZ.'''
    nrm = [gen.clean(v) for v in nrm]
    d = gen.clean(sum(n * p for n, p in zip(nrm, point)))
    for k, mn in enumerate(('px', 'py', 'pz')):
        unit = [0.0, 0.0, 0.0]
        unit[k] = 1.0
        if nrm == unit:
            return {'id': sid, 'mn': mn, 'params': [d], 'tr': None, 'bc': ''}
    return {'id': sid, 'mn': 'p', 'params': nrm + [d], 'tr': None, 'bc': ''}


def gen_deck(rng, style=None, force=None, twin=None, facets=None):
    '''LAT=2 deck; every element of the FILL array gets its own universe (or 0,
    or the lattice's own universe). Returns (deck, meta).  `force` (0..4) fixes the
    placement variant and puts a 0 and an own-universe entry in the array (the
    first decks of the sweep cover every branch of develop_lattice).'''
    import deck as deckmod
    S = deckmod.S
    if style is None:
        style = rng.choice(['planes', 'planes', 'planes', 'rhp'])
    if style == 'rhp':
        hexa = gen.gen_hexagon(rng, caps=True)
        while hexa['caps']['tilt']:
            hexa = gen.gen_hexagon(rng, caps=True)
    else:
        hexa = gen.gen_hexagon(rng)
    listing = gen.gen_listing(rng)
    centre, u = hexa['centre'], hexa['u']
    surfaces = []
    if style == 'rhp':
        # RHP v h r s t: facets 1/2 across r, 3/4 across s, 5/6 across t,
        # 7 top, 8 bottom.  r, s, t = vectors from the axis to the middle of
        # three sides, perpendicular to them.
        caps = hexa['caps']
        base = caps['down']
        height = caps['up'] - caps['down']
        mids = []
        for g in (listing[0], listing[2], listing[4]):
            nrm = hexa['normals'][g]
            mids.append(nrm * float(nrm @ (hexa['verts'][g] - centre)))
        params = [gen.clean(v) for v in list(base) + list(height)
                  + list(mids[0])]
        if not hexa['regular'] or rng.random() < 0.5:
            params += [gen.clean(v) for v in list(mids[1]) + list(mids[2])]
        else:
            # nine entries: s, t are r rotated by 60 and 120 degrees about h;
            # choose the listing accordingly
            hdir = height / np.linalg.norm(height)
            r = mids[0]

            def rot(vec, ang):
                return (vec * np.cos(ang) + np.cross(hdir, vec) * np.sin(ang)
                        + hdir * float(hdir @ vec) * (1 - np.cos(ang)))
            mids = [r, rot(r, np.pi / 3), rot(r, 2 * np.pi / 3)]
        surfaces.append({'id': 1, 'mn': 'rhp', 'params': params, 'tr': None,
                         'bc': ''})
        expr = S(-1)
        if len(params) == 9:
            a1, a2 = 2 * mids[0], 2 * mids[1]
        else:
            a1, a2 = (hexa['verts'][g] + hexa['verts'][g - 1] - 2 * centre
                      for g in (listing[0], listing[2]))
        a3 = height
        facet_order = None
        if facets is None:
            facets = rng.random() < 0.45
        if facets and len(params) == 15:
            # the cell written with the FACETS of the macrobody (-1.k) in a
            # user-chosen admissible order instead of "-1": facet 1..6 carry the
            # sides listing[0..5]; the cell lists them as listing2 wants, the
            # end facets 7 (top) and 8 (bottom) in either order.  The index
            # convention follows the order on the CELL card.
            listing2 = gen.gen_listing(rng)
            facet_order = [listing.index(g) + 1 for g in listing2]
            ends = [7, 8] if rng.random() < 0.5 else [8, 7]
            facet_order += ends
            expr = ('*',) + tuple(('f', -1, k) for k in facet_order)
            a1, a2 = (hexa['verts'][g] + hexa['verts'][g - 1] - 2 * centre
                      for g in (listing2[0], listing2[2]))
            if ends[0] == 8:
                a3 = -height
        vecs = [a1, a2, a3]
        has_caps = True
    else:
        surfs = gen.surfaces_of(hexa, listing, rng)
        lits = []
        for k, ((point, nrm), side) in enumerate(surfs):
            sid = 301 + k
            card = plane_card(sid, point, nrm)
            factor = rng.choice([1.0, 1.0, 1.0, 0.5, 2.0, -1.0, -3.0])
            if factor != 1.0:
                # the same plane with its equation multiplied through
                if card['mn'] != 'p':
                    unit = [0.0, 0.0, 0.0]
                    unit['xyz'.index(card['mn'][1])] = 1.0
                    card['mn'], card['params'] = 'p', unit + card['params']
                card['params'] = [gen.clean(factor * v)
                                  for v in card['params']]
                if factor < 0:
                    side = -side
            surfaces.append(card)
            lits.append(S(sid * side))
        expr = ('*',) + tuple(lits)
        vecs = gen.spec_vectors(hexa, listing, surfs)
        has_caps = hexa['caps'] is not None
    # ranges and universes
    while True:
        ranges = [(rng.choice([-2, -1, -1, 0]), rng.choice([0, 1, 1, 2]))
                  for _ in range(2)]
        ranges.append((rng.choice([-1, 0]), rng.choice([0, 1]))
                      if has_caps else (0, 0))
        n_el = 1
        for lo, hi in ranges:
            n_el *= hi - lo + 1
        if (3 if force is not None else 2) <= n_el <= 14:
            break
    array = []
    for k in range(n_el):
        roll = rng.random()
        if roll < 0.08:
            array.append(0)
        elif roll < 0.16:
            array.append(1)
        else:
            array.append(10 + k)
    if not any(u >= 10 for u in array):
        # a lattice none of whose elements holds a filler universe leaves
        # nothing to convert (construct_volume_t4 then fails on an empty
        # max(): a corner outside this property, see notes/C07.md)
        array[0] = 10
    if force is not None:
        array[0], array[1], array[2] = 10, 0, 1
    cells = []
    reach = 0.0
    all_vecs = list(vecs) + ([np.zeros(3)] if len(vecs) == 2 else [])
    for a, (lo, hi) in zip(all_vecs, ranges):
        reach += max(abs(lo), abs(hi)) * float(np.linalg.norm(a))
    cell_size = max(float(np.linalg.norm(v - centre)) for v in hexa['verts'])
    radius = gen.clean(round(reach + 1.5 * cell_size + 1.0, 2))
    if not has_caps:
        radius = gen.clean(round(reach + 1.2 * cell_size, 2))
    r_fill = gen.clean(round(0.3 * min(float(nrm @ (hexa['verts'][g] - centre))
                                        for g, nrm in
                                        enumerate(hexa['normals'])), 3))
    surfaces.append({'id': 900, 'mn': 's',
                     'params': [gen.clean(v) for v in centre] + [radius],
                     'tr': None, 'bc': ''})
    surfaces.append({'id': 910, 'mn': 's',
                     'params': [gen.clean(v) for v in centre] + [r_fill],
                     'tr': None, 'bc': ''})
    cells.append({'id': 1, 'mat': 0, 'rho': None, 'expr': S(-900),
                  'imp': {'n': 1}, 'u': 0, 'lat': None,
                  'fill': {'u': 1, 'tr': None}, 'trcl': None})
    cells.append({'id': 2, 'mat': 0, 'rho': None, 'expr': expr,
                  'imp': {'n': 1}, 'u': 1, 'lat': 2,
                  'fill': {'ranges': ranges, 'array': array, 'tr': None},
                  'trcl': None,
                  'lat_vectors': [[float(x) for x in v] for v in vecs],
                  'lat_centre': [float(x) for x in centre]})
    cid = 100
    for univ in sorted(set(array)):
        if univ in (0, 1):
            continue
        cells.append({'id': cid, 'mat': 0, 'rho': None, 'expr': S(-910),
                      'imp': {'n': 1}, 'u': univ, 'lat': None, 'fill': None,
                      'trcl': None})
        cells.append({'id': cid + 1, 'mat': 0, 'rho': None, 'expr': S(910),
                      'imp': {'n': 1}, 'u': univ, 'lat': None, 'fill': None,
                      'trcl': None})
        cid += 2
    cells.append({'id': 99, 'mat': 0, 'rho': None, 'expr': S(900),
                  'imp': {'n': 0}, 'u': 0, 'lat': None, 'fill': None,
                  'trcl': None})
    deck = {'title': 'C07 generated hexagonal lattice', 'cells': cells,
            'surfaces': surfaces, 'transforms': {}, 'materials': {},
            'data': []}
    # a second LAT=2 cell bounded by the SAME plane cards listed in another
    # admissible order (other first / third plane: other a1, a2), in its own
    # universe, seen through a translated container: the index convention of
    # each cell must follow ITS listing
    twin_meta = None
    if twin is None:
        twin = style == 'planes' and force is None and rng.random() < 0.2
    if twin and style == 'planes':
        listing2 = gen.gen_listing(rng)
        while listing2[0] == listing[0] and listing2[2] == listing[2]:
            listing2 = gen.gen_listing(rng)
        order = [listing.index(g) for g in listing2]
        if has_caps:
            order += [7, 6] if rng.random() < 0.5 else [6, 7]
        lits2 = [lits[k] for k in order]
        surfs2 = [surfs[k] for k in order]
        vecs2 = gen.spec_vectors(hexa, listing2, surfs2)
        while True:
            ranges2 = [(rng.choice([-2, -1, 0]), rng.choice([0, 1, 2]))
                       for _ in range(2)]
            ranges2.append((rng.choice([-1, 0]), rng.choice([0, 1]))
                           if has_caps else (0, 0))
            n2 = 1
            for lo, hi in ranges2:
                n2 *= hi - lo + 1
            if 3 <= n2 <= 12:
                break
        array2 = [40 + k for k in range(n2)]
        shift = np.array([gen.clean(2 * radius + 3.0), 0.0, 0.0])
        surfaces.append({'id': 901, 'mn': 's',
                         'params': [gen.clean(v) for v in centre + shift]
                         + [radius], 'tr': None, 'bc': ''})
        cells.insert(-1, {'id': 5, 'mat': 0, 'rho': None, 'expr': S(-901),
                          'imp': {'n': 1}, 'u': 0, 'lat': None,
                          'fill': {'u': 2, 'tr': deckmod.make_tr(shift)},
                          'trcl': None})
        cells.insert(-1, {'id': 6, 'mat': 0, 'rho': None,
                          'expr': ('*',) + tuple(lits2),
                          'imp': {'n': 1}, 'u': 2, 'lat': 2,
                          'fill': {'ranges': ranges2, 'array': array2,
                                   'tr': None}, 'trcl': None,
                          'lat_vectors': [[float(x) for x in v] for v in vecs2],
                          'lat_centre': [float(x) for x in centre]})
        for k, univ in enumerate(array2):
            cells.insert(-1, {'id': 200 + 2 * k, 'mat': 0, 'rho': None,
                              'expr': S(-910), 'imp': {'n': 1}, 'u': univ,
                              'lat': None, 'fill': None, 'trcl': None})
            cells.insert(-1, {'id': 201 + 2 * k, 'mat': 0, 'rho': None,
                              'expr': S(910), 'imp': {'n': 1}, 'u': univ,
                              'lat': None, 'fill': None, 'trcl': None})
        cells[-1]['expr'] = ('*', S(900), S(901))
        twin_meta = {'listing': listing2, 'ranges': ranges2,
                     'vectors': [[float(x) for x in v] for v in vecs2],
                     'centre': [float(x) for x in centre], 'radius': radius,
                     'r_fill': r_fill,
                     'container_centre': [float(x) for x in centre + shift],
                     'move': {'O': [float(x) for x in shift],
                              'R': np.eye(3).tolist()}}
    # the same prism placed through a coordinate transformation: the plane
    # cards written in an auxiliary frame (TRn on the cards), the lattice cell
    # moved by TRCL, or the lattice universe placed by a fill transformation
    moved = None
    roll = rng.random()
    if force is not None:
        roll = [0.9, 0.05, 0.15, 0.25, 0.35][force]
    if twin_meta is not None:
        roll = 0.9
    if roll < 0.12 and style == 'planes':
        moved = 'surface-tr'
        trf = deckmod.random_tr(rng)
        deck['transforms'][7] = trf
        origin = np.array(trf['O'])
        rot = (np.eye(3) if trf['B'] is None
               else np.array(trf['B']).reshape(3, 3).T)
        for card in surfaces:
            if card['id'] >= 900:
                continue
            if card['mn'] in ('px', 'py', 'pz'):
                nrm = np.zeros(3)
                nrm['xyz'.index(card['mn'][1])] = 1.0
                dist = card['params'][0]
            else:
                nrm, dist = np.array(card['params'][:3]), card['params'][3]
            card['mn'] = 'p'
            card['params'] = ([float(x) for x in rot.T @ nrm]
                              + [float(dist - nrm @ origin)])
            card['tr'] = 7
    elif roll < 0.22:
        moved = 'trcl'
        cells[1]['trcl'] = deckmod.random_tr(rng)
    elif roll < 0.32:
        moved = 'container-fill-tr'
        cells[0]['fill']['tr'] = deckmod.random_tr(rng)
    elif roll < 0.42:
        # every filler placed by the fill transformation of the lattice cell
        # (develop_lattice composes it with the element translation)
        moved = 'lattice-fill-tr'
        cells[1]['fill']['tr'] = deckmod.random_tr(rng)
    move = None
    if moved in ('trcl', 'container-fill-tr'):
        radius = gen.clean(radius + 9.0)
        surfaces[-2]['params'][3] = radius
        trf = cells[1]['trcl'] if moved == 'trcl' else cells[0]['fill']['tr']
        move = {'O': [float(v) for v in trf['O']],
                'R': (np.eye(3) if trf['B'] is None
                      else np.array(trf['B']).reshape(3, 3).T).tolist()}
    meta = {'style': style, 'regular': hexa['regular'],
            'orient': hexa['orient'], 'listing': listing, 'ranges': ranges,
            'array': array, 'vectors': [[float(x) for x in v] for v in vecs],
            'centre': [float(x) for x in centre], 'radius': radius,
            'r_fill': r_fill, 'caps': has_caps, 'moved': moved,
            'move': move, 'twin': twin_meta,
            'facet_order': facet_order if style == 'rhp' else None,
            'tilt': bool(hexa['caps'] and hexa['caps']['tilt'])}
    return deck, meta


def deck_points(rng, meta, n_random):
    '''Sample points: uniform in the container, element centres (inside the
    filler sphere), points just across every element border.'''
    centre = np.array(meta['centre'])
    cont = np.array(meta.get('container_centre', meta['centre']))
    vecs = [np.array(v) for v in meta['vectors']]
    radius = meta['radius']
    pts = []
    for _ in range(n_random):
        while True:
            q = np.array([rng.uniform(-1, 1) for _ in range(3)])
            if q @ q <= 1:
                break
        pts.append(cont + 0.98 * radius * q)
    ranges = meta['ranges']
    idx_ranges = [range(lo - 1, hi + 2) for lo, hi in ranges[:len(vecs)]]
    for idx in np.ndindex(*[len(r) for r in idx_ranges]):
        ijk = [r[i] for r, i in zip(idx_ranges, idx)]
        here = centre + sum(i * v for i, v in zip(ijk, vecs))
        jitter = np.array([rng.uniform(-1, 1) for _ in range(3)])
        pts.append(here + 0.4 * meta['r_fill'] * jitter)
        for v in vecs[:2]:
            # just on either side of the border with the neighbour across v
            for frac in (0.47, 0.53):
                pts.append(here + frac * v + 0.02 * jitter)
    if meta.get('move'):
        # the structured points follow the lattice to where it was moved
        origin = np.array(meta['move']['O'])
        rot = np.array(meta['move']['R'])
        pts = pts[:n_random] + [origin + rot @ p for p in pts[n_random:]]
    pts = [p for p in pts if np.linalg.norm(p - cont) < 0.995 * radius]
    if meta.get('twin'):
        pts += deck_points(rng, meta['twin'], n_random // 2)
    return pts


def check_deck(deck, meta, t4, points, eps=1e-6):
    '''Independent point-by-point check: the leaf cell MCNP reaches at p
    (reference semantics, element found from the generator's lattice vectors)
    against the written volume that owns p and its provenance comment.'''
    import mcnpref
    import t4eval
    import geomcheck
    ref = mcnpref.Reference(deck, eps=eps)
    ev = t4eval.Evaluator(t4, eps=eps)
    checked, failures = 0, []
    deck_ids = {c['id'] for c in deck['cells']}
    lattice_ids = {c['id'] for c in deck['cells'] if c.get('lat')}
    for p in points:
        try:
            chain = ref.locate(np.array(p, float))
        except mcnpref.Ambiguous:
            continue
        try:
            owners = ev.owners(p)
        except t4eval.T4EvalError as exc:
            if 'within eps' in str(exc):
                continue
            failures.append({'point': list(map(float, p)),
                             'why': f'T4 evaluation: {exc}'})
            continue
        checked += 1
        if chain is None or chain[-1] is None:
            if owners:
                failures.append({'point': list(map(float, p)), 'why':
                                 f'no MCNP cell here (chain {chain}) but '
                                 f'volume(s) {owners} contain the point'})
            continue
        leaf = chain[-1][0]
        index = next((idx for _, idx in chain if idx is not None), None)
        if len(owners) != 1:
            failures.append({'point': list(map(float, p)), 'why':
                             f'lattice element {index} (leaf cell {leaf}) but '
                             f'the point lies in {len(owners)} volumes '
                             f'{owners}'})
            continue
        prov = geomcheck.parse_provenance(t4.volumes[owners[0]]['comment'])
        got = prov[0][0] if prov else owners[0]
        if leaf in lattice_ids:
            # element filled with the lattice cell's own material: the
            # provenance names the generated copy of the lattice cell, never a
            # cell of the deck
            if got in deck_ids:
                failures.append({'point': list(map(float, p)), 'why':
                                 f'MCNP: element {index} is filled by the '
                                 f'lattice cell itself; the written volume '
                                 f'{owners[0]} comes from cell {got}'})
            continue
        if got != leaf:
            failures.append({'point': list(map(float, p)), 'why':
                             f'MCNP: element {index}, leaf cell {leaf}; the '
                             f'written volume {owners[0]} comes from cell '
                             f'{got} (provenance {prov})'})
    return checked, failures


# ---- known findings -------------------------------------------------------

WITNESS_TRIVIAL_RANGE = '''six-plane hexagonal lattice, one row of elements
1 0 -900 fill=1 imp:n=1
2 0 -301 302 -303 305 -304 306 u=1 lat=2 fill=-1:1 0:0 0:0 3 3 3 imp:n=1
3 0 -910 u=3 imp:n=1
4 0 910 u=3 imp:n=1
99 0 900 imp:n=0

301 px 1
302 px -1
303 p 1 1.7320508076 0 2
304 p -1 1.7320508076 0 2
305 p 1 1.7320508076 0 -2
306 p -1 1.7320508076 0 -2
900 so 6
910 so 0.5

'''


def domain_deck(nvec, bounds, n_el):
    """The regular prism of the witness, with or without caps, and the given
    FILL ranges (all elements filled with universe 3)."""
    text = WITNESS_TRIVIAL_RANGE.replace(
        'fill=-1:1 0:0 0:0 3 3 3',
        'fill=' + ' '.join(f'{lo}:{hi}' for lo, hi in bounds)
        + ''.join('\n      ' + ' '.join(['3'] * min(20, n_el - k))
                  for k in range(0, n_el, 20))
        + '\n     ')
    if nvec == 3:
        text = text.replace('-304 306 u=1', '-304 306 -307 308 u=1')
        text = text.replace('900 so 6', '307 pz 1\n308 pz -1\n900 so 6')
    return text


def closed_tour(pairs):
    '''The accepted pairs form one closed tour of the six positions (every
    position in exactly two pairs, all connected): ProofsErrors.closed_tour.'''
    deg = {i: 0 for i in range(6)}
    for i, j in pairs:
        deg[i] += 1
        deg[j] += 1
    if any(d != 2 for d in deg.values()):
        return False
    reach, front = {0}, [0]
    while front:
        cur = front.pop()
        for i, j in pairs:
            for a, b in ((i, j), (j, i)):
                if a == cur and b not in reach:
                    reach.add(b)
                    front.append(b)
    return len(reach) == 6


def finding_class(_conv, _meta):
    """Narrow classes of findings/C07.txt: none is open (the class
    six_planes_trivial_range of the previous round was repaired by /repo
    commit 9b5a8f0)."""
    return None


# ---- the check ------------------------------------------------------------

def run(res, tier, seed, proofs_ok):
    '''Ties and sweep; the first 250 admissible prisms, every malformed one and
    the first 30 conversions run under a line tracer restricted to the
    anchored functions: every line a LAT=2 input can reach must be executed.'''
    global COV
    cov, cov_missing = None, []
    try:
        import c02_cov
        cov = COV = c02_cov.LineCov(anchored_functions(cov_missing))
    except Exception as exc:       # pylint: disable=broad-except
        cov = COV = None
        cov_missing.append(f'coverage tracer not available: {exc!r}')
    try:
        _run(res, tier, seed, proofs_ok)
    finally:
        COV = None
        COV_ON[0] = False
    # line coverage is information only: it never fails the check and never raises
    try:
        if cov is not None:
            import linecache
            total, missing = cov.missing(UNREACHABLE)
            try:
                from t4_geom_convert.Kernel.Volume import CellConversion as ccmod
                missing = [m for m in missing
                           if not (m[2] == 'raise LatticeError(msg)' and 'at least'
                                   in linecache.getline(ccmod.__file__, m[1] - 1))]
            except Exception:       # pylint: disable=broad-except
                pass
            res.obligation('coverage: the generated inputs execute every '
                           'reachable line of the anchored functions '
                           f'({total} lines of {len(cov.codes)} code objects)',
                           not missing, f'never executed: {missing[:6]}; '
                           f'anchored names not present: {cov_missing}')
        else:
            res.count('coverage skipped: ' + '; '.join(cov_missing)[:200])
    except Exception as exc:       # pylint: disable=broad-except
        res.count(f'coverage pass failed: {exc!r}'[:200])


def _run(res, tier, seed, proofs_ok):
    from t4_geom_convert.Kernel import VectUtils as VU
    from t4_geom_convert.Kernel.Volume import Lattice as LT
    import deck as deckmod
    rng = random.Random(seed)
    quick = tier == 'quick'
    n_hex = 2000 if quick else 12000
    n_bad = 300 if quick else 2500
    n_decks = 36 if quick else 400
    res.rule = ('admissible prisms: centrally symmetric convex hexagons '
                '(zonogons of three edges, 40% regular) in a random frame '
                '(z, axis permutation or random rotation), each side plane '
                'given by a random point and a normal of random sense '
                '(and random length in the function-level stream), listed in '
                'one of the 48 MCNP orders; half of them with a seventh and '
                'eighth plane (a quarter of those tilted, either one listed '
                'first). Malformed stream: swapped listing positions, '
                'flipped sides, duplicated/dropped/extra planes, a pair of '
                'sides pushed away, six random planes, a cap parallel to the '
                'axis. Decks: LAT=2 cell from P/PX/PY/PZ cards or an RHP '
                'macrobody, every element of the FILL array with its own '
                'universe (or 0, or the lattice universe), points at element '
                'centres, across every border and uniform in the container. '
                'non-trivial = every case (distinct by surfaces)')

    _T0[0] = time.time()
    del DEVELOP_RECORDS[:]
    # ---------------- corpus ----------------
    # witness of the repaired finding six_planes_trivial_range: one row of
    # hexagons, six planes; must convert
    conv = convert_watchdog(WITNESS_TRIVIAL_RANGE, 15.0, trace=True)
    res.seen(WITNESS_TRIVIAL_RANGE)
    if not conv.ok:
        res.violation('impl-violation',
                      'six-plane LAT=2 cell with FILL=-1:1 0:0 0:0 rejected: '
                      f'{conv.exc}: {conv.msg[:120]}',
                      {'input': {'deck': WITNESS_TRIVIAL_RANGE}},
                      found_input=True)
    # the concrete prism of the Coq example C07_example_base_vectors, on the
    # implementation (the non-vacuity example and the code agree)
    ex_surfs = [(((2.0, 0.0, 0.0), (1.0, -1.0, 0.0)), -1),
                (((-2.0, 0.0, 5.0), (1.0, -1.0, 0.0)), 1),
                (((1.0, 1.0, 0.0), (2.0, 2.0, 0.0)), -1),
                (((-1.0, -1.0, 0.0), (-1.0, -1.0, 0.0)), -1),
                (((0.0, 1.0, -2.0), (0.0, -1.0, 0.0)), 1),
                (((1.0, -1.0, 0.0), (0.0, -1.0, 0.0)), -1),
                (((0.0, 0.0, 3.0), (0.0, 0.0, 1.0)), -1),
                (((7.0, 0.0, -1.0), (0.0, 0.0, 2.0)), 1)]
    got = guarded(LT.hexLatticeBaseVectors, ex_surfs)
    want = [(3.0, -1.0, 0.0), (3.0, 1.0, 0.0), (0.0, 0.0, 4.0)]
    ok_ex = got[0] == 'ok' and len(got[1]) == 3 and all(
        abs(a - b) < 1e-12 for v, w in zip(got[1], want) for a, b in zip(v, w))
    res.obligation('corpus: the prism of the Coq example C07_example_base_vectors '
                   'gives (3,-1,0) (3,1,0) (0,0,4) on the implementation', ok_ex,
                   repr(got)[:200])
    if not ok_ex:
        res.violation('impl-violation',
                      'hexLatticeBaseVectors on the prism of the Coq example: '
                      f'{got!r}', {'input': {'surfaces': ex_surfs},
                                   'expected': want}, found_input=True)
    # the open chain of C07_open_chain_never_ends: the loop must not end (M5)
    chain = {(0, 2), (0, 4), (1, 3), (1, 5), (2, 4), (3, 5)}
    wout = walk_on_fake_adjacency(LT, chain, 0)
    res.obligation('corpus: two triangles instead of a tour: the loop of '
                   'hexVertices does not end (model: ELoop)',
                   wout == ('err', 'ELoop'), repr(wout))
    if wout != ('err', 'ELoop'):
        res.violation('correspondence', 'hexVertices on the two-triangle '
                      f'dictionary: {wout!r}, the model says ELoop',
                      {'input': {'pairs': sorted(chain), 'first': 0},
                       'theorem_or_correspondence': 'tie:walk'},
                      found_input=False)
    _stage('witnesses')
    # ---------------- function-level streams ----------------
    stream = []          # (surfaces, hexa or None, listing or None, fault)
    for _ in range(n_hex):
        hexa = gen.gen_hexagon(rng)
        listing = gen.gen_listing(rng)
        surfs = gen.surfaces_of(hexa, listing, rng, unit=rng.random() < 0.6)
        stream.append((surfs, hexa, listing, None))
    for _ in range(n_bad):
        hexa = gen.gen_hexagon(rng)
        listing = gen.gen_listing(rng)
        surfs = gen.surfaces_of(hexa, listing, rng)
        surfs, fault = gen.malform(surfs, hexa, rng)
        stream.append((surfs, None, None, fault))

    base_cases, base_meta = [], []
    vert_cases, vert_meta = [], []
    sort_cases, sort_meta = [], []
    adj_cases, inter_cases, side_cases, proj_cases = [], [], [], []
    adj_meta, inter_meta, side_meta, proj_meta = [], [], [], []
    hangs = 0
    for num, (surfs, hexa, listing, fault) in enumerate(stream):
        COV_ON[0] = num < 250 or fault is not None
        if hangs >= 4 and hexa is not None:
            # the loop of hexVertices no longer ends on admissible prisms:
            # already reported; do not wait 2 s for each of the others
            res.count('skipped after repeated hangs')
            continue
        out = guarded(LT.hexLatticeBaseVectors, surfs)
        if out == ('err', 'ELoop') and hexa is not None:
            hangs += 1
        res.seen(surfs)
        res.count('fault:' + str(fault))
        res.count('base:' + (out[1] if out[0] == 'err' else 'ok'))
        res.count(f'planes:{len(surfs)}')
        if hexa is not None:
            res.count('regular' if hexa['regular'] else 'irregular')
            res.count('orient:' + hexa['orient'])
            if hexa['caps'] and hexa['caps']['tilt']:
                res.count('tilted caps')
            # ---- sweep (1): the property on the implementation's result
            want = gen.spec_vectors(hexa, listing, surfs)
            why = None
            if out[0] != 'ok':
                why = f'admissible prism rejected: {out[1]}'
            elif len(out[1]) != len(want):
                why = f'{len(out[1])} base vectors for {len(surfs)} planes'
            else:
                for k, (got, exp) in enumerate(zip(out[1], want)):
                    scale = max(1.0, float(np.abs(exp).max()))
                    if not finite(list(got)) or float(
                            np.abs(np.array(got) - exp).max()) > 1e-8 * scale:
                        why = (f'a{k + 1} = {tuple(got)} but MCNP\'s '
                               f'convention gives {tuple(exp)}')
                        break
            if why:
                res.violation('impl-violation',
                              'hexLatticeBaseVectors: ' + why,
                              {'input': {'surfaces': surfs,
                                         'listing': listing},
                               'expected': [list(map(float, v)) for v in want],
                               'observed': repr(out)}, found_input=True)
        if out[0] == 'ok' and not finite(out[1]):
            continue     # nan/inf out of a malformed input: class only
        if not quick or num % 2 == 0 or fault is not None:
            # (the sweep above checks every prism on the implementation; in the
            # quick tier the model is run on every second admissible one)
            base_cases.append(cpair(
                clist(csurf(s) for s in surfs),
                cres(out, lambda v: clist(cvec(x) for x in v))))
            base_meta.append(surfs)
        if num % (5 if quick else 3) == 0 or fault is not None:
            first = rng.randrange(6) if rng.random() < 0.95 else rng.choice([6, 7])
            vout = guarded(LT.hexVertices, surfs, first)
            if vout[0] == 'err' or finite(vout[1]):
                vert_cases.append(cpair(
                    clist(csurf(s) for s in surfs), cnat(first),
                    cres(vout, lambda v: cpair(clist(cvec(x) for x in v[0]),
                                               cvec(v[1])))))
                vert_meta.append((surfs, first))
                res.count('vertices:' + (vout[1] if vout[0] == 'err' else 'ok'))
                if hexa is not None and vout[0] == 'ok' and first < 6:
                    why = oracle_vertices(hexa, listing, surfs, first, vout[1])
                    if why:
                        res.violation('impl-violation', 'hexVertices: ' + why,
                                      {'input': {'surfaces': surfs,
                                                 'first_side': first,
                                                 'listing': listing},
                                       'observed': repr(vout)},
                                      found_input=True)
        if num % (10 if quick else 5) == 0 or fault is not None:
            six = surfs[:6] if rng.random() < 0.9 else surfs
            sout = guarded(LT.hexSortSides, six)
            if sout[0] == 'ok' and len(six) == 6 and len(surfs) in (6, 8) \
                    and six == surfs[:6]:
                # C07_base_vectors_by_shape on the implementation: closed tour
                # of the accepted pairs <=> the loop of hexVertices ends
                tour = closed_tour([k for k, v in sout[1].items()
                                    if v is not None])
                allowed = (('ok', 'EZeroDiv') if tour else ('ELoop', 'EZeroDiv'))
                if fault in (None, 'swap12', 'swap23', 'flip_side', 'flip_two',
                             'far_plane'):
                    # side planes still parallel to one axis, caps across it:
                    # C07_axial_planes_exact leaves a single outcome
                    allowed = ('ok',) if tour else ('ELoop',)
                got_cls = out[1] if out[0] == 'err' else 'ok'
                res.count(f'shape: {"closed tour" if tour else "no tour"} -> '
                          + got_cls)
                if got_cls not in allowed:
                    res.violation('correspondence',
                                  'C07_base_vectors_by_shape: the accepted '
                                  f'pairs {"form" if tour else "do not form"} '
                                  f'a closed tour but the outcome is {got_cls}',
                                  {'input': {'surfaces': surfs},
                                   'theorem_or_correspondence':
                                   'C07_base_vectors_by_shape'},
                                  found_input=False)
            if sout[0] == 'err' or finite(sout[1]):
                sort_cases.append(cpair(clist(csurf(s) for s in six),
                                        cres(sout, cadj)))
                sort_meta.append(six)
                res.count('sort:' + (sout[1] if sout[0] == 'err' else 'ok'))
        if (num % (6 if quick else 4) == 0 or fault is not None) \
                and len(surfs) >= 6:
            i, j = rng.sample(range(6), 2)
            k = rng.choice([x for x in range(6) if x not in (i, j)])
            k2 = rng.randrange(len(surfs))
            args = (surfs[i][0], surfs[j][0], surfs[k], surfs[k2])
            aout = guarded(LT.areHexSidesAdjacent, *args)
            if aout[0] == 'err' or finite(aout[1]):
                adj_cases.append(cpair(cplane(args[0]), cplane(args[1]),
                                       csurf(args[2]), csurf(args[3]),
                                       cres(aout, copt_line)))
                adj_meta.append(args)
            iout = guarded(VU.pointInPlaneIntersection, args[0], args[1])
            if iout[0] == 'err' or finite(iout[1]):
                inter_cases.append(cpair(cplane(args[0]), cplane(args[1]),
                                         cres(iout, cline)))
                inter_meta.append(args[:2])
                if iout[0] == 'ok':
                    pt, drc = iout[1]
                    # sides of the intersection point and of nearby points
                    for target in (pt, tuple(rng.uniform(-3, 3)
                                             for _ in range(3)),
                                   surfs[k][0][0]):
                        sd = VU.planeSide(target, surfs[k][0])
                        side_cases.append(cpair(cvec(target),
                                                cplane(surfs[k][0]), cz(sd)))
                        side_meta.append((target, surfs[k][0]))
                    top = surfs[-1][0] if rng.random() < 0.7 else surfs[k][0]
                    pout = guarded(VU.projectPointOnPlane, pt, top, drc)
                    if pout[0] == 'err' or finite(pout[1]):
                        proj_cases.append(cpair(cvec(pt), cplane(top),
                                                cvec(drc), cres(pout, cvec)))
                        proj_meta.append((pt, top, drc))
    _stage('function-level stream (implementation + oracle)')
    # C07_flipped_set_lattice_error on the implementation: k flipped senses
    # leave 6 - k intersections
    import re as _re
    flip_bad = 0
    for _ in range(60 if quick else 600):
        hexa = gen.gen_hexagon(rng)
        surfs = gen.surfaces_of(hexa, gen.gen_listing(rng), rng)
        flips = [k for k in range(6) if rng.random() < 0.4] or [rng.randrange(6)]
        for k in flips:
            surfs[k] = (surfs[k][0], -surfs[k][1])
        try:
            LT.hexSortSides(surfs[:6])
            got = 'accepted'
        except LT.LatticeError as exc:
            m = _re.search(r'not enough intersections \((\d+)\)', str(exc))
            got = int(m.group(1)) if m else str(exc)[:60]
        except Exception as exc:       # pylint: disable=broad-except
            got = type(exc).__name__
        res.count(f'flipped senses: {len(flips)}')
        if got != 6 - len(flips):
            flip_bad += 1
            res.violation('correspondence',
                          f'{len(flips)} flipped senses: hexSortSides -> {got}, '
                          f'the theorem gives {6 - len(flips)} intersections',
                          {'input': {'surfaces': surfs, 'flips': flips},
                           'theorem_or_correspondence':
                           'C07_flipped_set_lattice_error'}, found_input=False)
    res.obligation('sweep: k flipped senses leave 6 - k intersections '
                   '(C07_flipped_set_lattice_error on the implementation)',
                   flip_bad == 0, f'{flip_bad} disagreements')
    # degenerate numeric cases
    for _ in range(40):
        nrm = tuple(float(rng.choice([-1, 0, 1, 2])) for _ in range(3))
        if not any(nrm):
            nrm = (0.0, 1.0, 0.0)
        p1 = (tuple(float(rng.randint(-2, 2)) for _ in range(3)), nrm)
        scale = rng.choice([1.0, -1.0, 2.0])
        p2 = (tuple(float(rng.randint(-2, 2)) for _ in range(3)),
              tuple(scale * v for v in nrm))
        iout = guarded(VU.pointInPlaneIntersection, p1, p2)
        inter_cases.append(cpair(cplane(p1), cplane(p2), cres(iout, cline)))
        inter_meta.append((p1, p2))
        drc = (nrm[1], -nrm[0], 0.0)
        pt = tuple(float(rng.randint(-2, 2)) for _ in range(3))
        pout = guarded(VU.projectPointOnPlane, pt, p1, drc)
        proj_cases.append(cpair(cvec(pt), cplane(p1), cvec(drc),
                                cres(pout, cvec)))
        proj_meta.append((pt, p1, drc))
        target = tuple(float(rng.randint(-2, 2)) for _ in range(3))
        side_cases.append(cpair(cvec(target), cplane(p1),
                                cz(VU.planeSide(target, p1))))
        side_meta.append((target, p1))
    res.sample({'surfaces': stream[0][0], 'listing': stream[0][2],
                'base_vectors': repr(guarded(LT.hexLatticeBaseVectors,
                                             stream[0][0]))})
    res.sample({'surfaces': stream[n_hex][0], 'fault': stream[n_hex][3],
                'base_vectors': repr(guarded(LT.hexLatticeBaseVectors,
                                             stream[n_hex][0]))})

    # the traversal alone, on adjacency dictionaries with six entries chosen
    # among the twelve pairs of different groups (most of them no hexagon)
    cross = [(i, j) for i in range(6) for j in range(i + 1, 6)
             if i // 2 != j // 2]
    walk_inputs = []
    for listing in gen.all_listings():
        pairs = tuple(p for p in cross
                      if (listing[p[0]] - listing[p[1]]) % 6 in (1, 5))
        walk_inputs += [(pairs, first) for first in range(6)]
    if quick:
        for _ in range(200):
            walk_inputs.append((tuple(sorted(rng.sample(cross, 6))),
                                rng.randrange(6)))
        for _ in range(300):
            # a closed tour of the six positions in any order (not only the
            # 48 admissible ones), sometimes with one pair exchanged
            while True:
                order = rng.sample(range(6), 6)
                if all(order[k] // 2 != order[k - 1] // 2 for k in range(6)):
                    break
            pairs = {tuple(sorted((order[k], order[k - 1]))) for k in range(6)}
            if rng.random() < 0.3:
                pairs.discard(rng.choice(sorted(pairs)))
                pairs.add(rng.choice([p for p in cross if p not in pairs]))
            walk_inputs.append((tuple(sorted(pairs)), rng.randrange(6)))
    else:
        import itertools
        walk_inputs += [(pairs, first)
                        for pairs in itertools.combinations(cross, 6)
                        for first in range(6)]
    walk_cases, walk_meta = [], []
    for pairs, first in walk_inputs:
        wout = walk_on_fake_adjacency(LT, set(pairs), first)
        res.count('walk:' + (wout[1] if wout[0] == 'err' else 'ok'))
        walk_cases.append(cpair(
            clist(cpair(cnat(i), cnat(j)) for i, j in pairs), cnat(first),
            cres(wout, lambda ks: clist(cpair(cnat(i), cnat(j))
                                        for i, j in ks))))
        walk_meta.append((pairs, first, wout))

    # develop_lattice's test of the ranges, through whole conversions of one
    # fixed regular prism (six or eight planes) with every combination of four
    # ranges; latticeVector directly
    dom_cases, dom_meta = [], []
    choices = [(0, 0), (-1, 1), (0, 1), (2, 2)]
    combos = [(a, b, c) for a in choices for b in choices for c in choices]
    if quick:
        combos = rng.sample(combos, 24) + [((-1, 1), (0, 0), (0, 0)),
                                           ((-1, 1), (0, 0), (-1, 1)),
                                           ((-1, 1), (0, 1), (0, 0))]
    for nvec in (2, 3):
        for bounds in combos:
            n_el = 1
            for lo, hi in bounds:
                n_el *= hi - lo + 1
            text = domain_deck(nvec, bounds, n_el)
            conv = convert_watchdog(text, 15.0, trace=len(dom_cases) % 6 == 0)
            res.seen(text)
            if conv.ok:
                out = ('ok', None)
            elif (conv.exc == 'LatticeError'
                  and 'Problem of domain definition' in conv.msg):
                out = ('err', 'ELattice')
            else:
                out = ('err', 'EAssert')     # anything else: never expected
                res.violation('impl-violation',
                              f'regular prism with {nvec + 4 if nvec == 2 else 8}'
                              f' planes and FILL ranges {bounds}: {conv.exc}: '
                              f'{conv.msg[:150]}',
                              {'input': {'deck': text}}, found_input=True)
            valid = nvec == 3 or bounds[2][0] == bounds[2][1]
            res.count(f'ranges: MCNP-{"valid" if valid else "invalid"}, '
                      f'{"accepted" if conv.ok else "rejected"}')
            if valid and out[0] == 'err' and out[1] == 'ELattice':
                meta_d = {'caps': nvec == 3, 'ranges': list(bounds)}
                res.violation('impl-violation',
                              f'LAT=2 cell with {"eight" if nvec == 3 else "six"} '
                              f'planes and FILL ranges {bounds} rejected: '
                              f'{conv.msg[:120]}',
                              {'input': {'deck': text}},
                              cls=finding_class(conv, meta_d),
                              found_input=True)
            dom_cases.append(cpair(
                cnat(nvec), clist(cpair(cz(lo), cz(hi)) for lo, hi in bounds),
                cres(out, lambda _v: 'tt')))
            dom_meta.append((nvec, bounds, out))
    lv_cases, lv_meta = [], []
    for _ in range(200):
        base = [tuple(rng.choice([0.0, 1.0, -2.5, rng.uniform(-3, 3)])
                      for _ in range(3)) for _ in range(rng.randint(1, 3))]
        index = tuple(rng.randint(-4, 4) for _ in range(rng.randint(1, 3)))
        got = LT.latticeVector(base, index)
        lv_cases.append(cpair(clist(cvec(v) for v in base),
                              clist(cz(i) for i in index), cvec(got)))
        lv_meta.append((base, index, got))

    ties = [
        ('domain', 'c07_domain', TIE_MODEL['domain'][0], 'check_domain',
         dom_cases, dom_meta, 'domain_check (develop_lattice)'),
        ('latvec', 'c07_latvec', TIE_MODEL['latvec'][0], 'check_latvec',
         lv_cases, lv_meta, 'latticeVector FS'),
        ('walk', 'c07_walk',
         'list (nat * nat) * nat * res (list (nat * nat))', 'check_walk',
         walk_cases, walk_meta, 'hex_vertices_abs (loop of hexVertices)'),
        ('base', 'c07_base', 'list fsurf * res (list fvec)', 'check_base',
         base_cases, base_meta, 'hexLatticeBaseVectors FS'),
        ('vertices', 'c07_vert', 'list fsurf * nat * res (list fvec * fvec)',
         'check_vertices', vert_cases, vert_meta, 'hexVertices FS'),
        ('sort', 'c07_sort', 'list fsurf * res (adjacency fline)',
         'check_sort', sort_cases, sort_meta, 'hexSortSides FS'),
        ('adj', 'c07_adj',
         'fplane * fplane * fsurf * fsurf * res (option fline)', 'check_adj',
         adj_cases, adj_meta, 'areHexSidesAdjacent FS'),
        ('inter', 'c07_inter', 'fplane * fplane * res fline', 'check_inter',
         inter_cases, inter_meta, 'pointInPlaneIntersection FS'),
        ('side', 'c07_side', 'fvec * fplane * Z', 'check_side', side_cases,
         side_meta, 'planeSide FS'),
        ('proj', 'c07_proj', 'fvec * fplane * fvec * res fvec', 'check_proj',
         proj_cases, proj_meta, 'projectPointOnPlane FS'),
    ]
    _stage('walk cases')
    def run_tie(tie, fname, ctype, cfun, cases, meta, what):
        bad, errs = common.run_case_files(fname, HEADER, ctype, cfun, cases)
        _stage('coq tie ' + tie)
        res.obligation(f'tie:{tie} ({len(cases)} cases: model {what} = '
                       'implementation)', not bad and not errs,
                       f'{len(bad)} disagreements {errs[:1]}')
        if errs:
            res.violation('correspondence',
                          f'tie:{tie}: the generated Coq files did not run: '
                          + errs[0][-300:],
                          {'theorem_or_correspondence': 'tie:' + tie,
                           'errors': errs[:2]}, found_input=False)
        for idx in bad[:5]:
            res.violation('correspondence',
                          f'tie:{tie}: model and implementation disagree on '
                          f'case {idx}: {repr(meta[idx])[:300]}',
                          {'input': {'tie': tie, 'args': meta[idx]},
                           'case': cases[idx],
                           'theorem_or_correspondence': 'tie:' + tie},
                          found_input=False)

    for entry in ties:
        run_tie(*entry)

    # ---------------- whole conversions ----------------
    n_checked = 0
    deck_hangs = 0
    spy = SurfaceSpy()
    rhp_cases, rhp_meta, pc_cases, pc_meta = [], [], [], []
    for num in range(n_decks):
        if deck_hangs >= 2:
            break
        if num < 5:
            deck, meta = gen_deck(rng, style='planes', force=num)
        elif num == 5:
            # corpus deck (fixed): two LAT=2 cells bounded by the same plane
            # cards listed in two different admissible orders
            deck, meta = gen_deck(random.Random(70707), style='planes',
                                  twin=True)
        elif num == 6:
            deck, meta = gen_deck(rng, style='planes', twin=True)
        elif num in (7, 8):
            # corpus deck (fixed) and a fresh one: an RHP-bounded cell written
            # with the facets of the macrobody in a permuted admissible order
            frng = random.Random(80808) if num == 7 else rng
            while True:
                deck, meta = gen_deck(frng, style='rhp', facets=True)
                if meta['facet_order'] and not meta['moved']:
                    break
        else:
            deck, meta = gen_deck(rng)
        if meta.get('twin'):
            res.count('deck with two lattices on the same planes')
        if meta.get('facet_order'):
            res.count('deck: RHP cell written with permuted facets')
        text = deckmod.render(deck)
        res.seen(text)
        res.count('deck:' + meta['style'])
        if meta['moved']:
            res.count('deck moved:' + meta['moved'])
        with spy:
            conv = convert_watchdog(text, 15.0, trace=num < 30)
        if (meta['moved'] in (None, 'container-fill-tr', 'lattice-fill-tr')
                and len(spy.captured) == 1):
            # the (plane, side) list develop_lattice handed to
            # hexLatticeBaseVectors, against the model of the cards
            got = ('ok', spy.captured[0])
            if meta['style'] == 'rhp' and meta.get('facet_order'):
                pass        # facet literals: not the '-b' shape of rhp_cell_surfaces
            elif meta['style'] == 'rhp':
                params = deck['surfaces'][0]['params']
                rhp_cases.append(cpair(clist(cfloat(v) for v in params),
                                       cres(got, csurfs)))
                rhp_meta.append(params)
            else:
                cards, ids = plane_cards_of(deck)
                pc_cases.append(cpair(
                    clist(cpair(cnat(k), cpair(*(cfloat(v) for v in q)))
                          for k, q in cards),
                    clist(cz(i) for i in ids), cres(got, csurfs)))
                pc_meta.append((cards, ids))
        if conv.exc == 'Hang':
            deck_hangs += 1
        if not conv.ok or conv.text is None:
            res.count('deck rejected')
            res.violation('impl-violation',
                          f'admissible LAT=2 deck rejected: {conv.exc}: '
                          f'{conv.msg[:200]}',
                          {'input': {'deck': text, 'meta': meta}},
                          cls=finding_class(conv, meta), found_input=True)
            continue
        try:
            t4 = impl.T4File(conv.text)
        except ValueError as exc:
            res.violation('impl-violation',
                          f'written file unreadable: {exc}',
                          {'input': {'deck': text, 'meta': meta}},
                          found_input=True)
            continue
        pts = deck_points(rng, meta, 60 if quick else 200)
        checked, failures = check_deck(deck, meta, t4, pts)
        n_checked += checked
        if num == 0:
            res.sample({'deck': text, 'meta': meta, 'points_checked': checked})
        if failures:
            first = failures[0]
            res.violation('impl-violation',
                          f'LAT=2 deck ({meta["style"]}, listing '
                          f'{meta["listing"]}): {len(failures)} of {checked} '
                          f'points wrong, e.g. {first["point"]}: '
                          f'{first["why"]}',
                          {'input': {'deck': text, 'meta': meta,
                                     'abstract': deck,
                                     'point': first['point']},
                           'failures': failures[:5]}, found_input=True)
    _stage('deck sweep')
    # RHP cards on their own: 9 and 15 entries, wrong counts, zero height
    for _ in range(40 if quick else 300):
        params, text = rhp_card_deck(rng)
        with spy:
            conv = convert_watchdog(text, 15.0, trace=len(rhp_cases) % 3 == 0)
        res.seen(text)
        if len(spy.captured) == 1:
            got = ('ok', spy.captured[0])
        elif conv.exc == 'MacroBodyError':
            got = ('err', 'EMacro')
        elif conv.exc == 'ZeroDivisionError':
            got = ('err', 'EZeroDiv')
        else:
            got = ('err', 'EOther')
        res.count(f'rhp card {len(params)} entries: '
                  + (got[1] if got[0] == 'err' else 'surfaces'))
        rhp_cases.append(cpair(clist(cfloat(v) for v in params),
                               cres(got, csurfs)))
        rhp_meta.append(params)
    rot_cases, rot_meta = [], []
    for _ in range(100):
        vec = tuple(rng.uniform(-3, 3) for _ in range(3))
        axis = tuple(rng.choice([0.0, 1.0, rng.uniform(-1, 1)])
                     for _ in range(3))
        if not any(axis):
            axis = (0.0, 0.0, 1.0)
        if rng.random() < 0.8:
            axis = VU.renorm(axis)
        angle = rng.choice([np.pi / 3., 2. * np.pi / 3., rng.uniform(-7, 7)])
        got = VU.rotate(vec, axis, float(angle))
        rot_cases.append(cpair(cvec(vec), cvec(axis), cfloat(float(angle)),
                               cvec(got)))
        rot_meta.append((vec, axis, float(angle)))
    run_tie('rhpcell', 'c07_rhpcell', TIE_MODEL['rhpcell'][0],
            'check_rhp_cell', rhp_cases, rhp_meta,
            'rhp_cell_surfaces FS (MacroBodies.rhp + forcad.p + '
            'extract_surfaces, observed at the call of hexLatticeBaseVectors)')
    run_tie('planecell', 'c07_planecell', TIE_MODEL['planecell'][0],
            'check_plane_cell', pc_cases, pc_meta,
            'extract_surfaces over forcad.p/px/py/pz (observed at the call '
            'of hexLatticeBaseVectors)')
    run_tie('rotate', 'c07_rotate', TIE_MODEL['rotate'][0], 'check_rotate',
            rot_cases, rot_meta, 'rotate FS')
    _stage('surface-list ties')
    # malformed LAT=2 cells, only to feed tie:develophex with the error paths
    # of develop_lattice: a flipped literal (LatticeError raised by
    # hexSortSides and re-raised), a cap parallel to the axis
    # (ZeroDivisionError), a literal dropped (AssertionError)
    for k_bad in range(18 if quick else 120):
        deck, meta = gen_deck(rng, style='planes')
        while meta['moved']:
            deck, meta = gen_deck(rng, style='planes')
        lat = deck['cells'][1]
        lits = list(lat['expr'][1:])
        fault = ['flip', 'cap', 'drop'][k_bad % 3]
        if fault == 'flip':
            k = rng.randrange(6)
            lits[k] = ('s', -lits[k][1])
        elif fault == 'cap' and len(lits) == 8:
            k = rng.choice([6, 7])
            lits[k] = ('s', abs(lits[rng.randrange(6)][1])
                       * (1 if lits[k][1] > 0 else -1))
        else:
            fault = 'drop'
            del lits[rng.randrange(len(lits))]
        lat['expr'] = ('*',) + tuple(lits)
        text = deckmod.render(deck)
        conv = convert_watchdog(text, 15.0, trace=True)
        res.seen(text)
        res.count(f'malformed deck ({fault}): '
                  + ('converted' if conv.ok else str(conv.exc)))
    # develop_lattice for LAT=2 at function level: every call recorded during
    # the conversions above (deck sweep, range combinations, RHP cards)
    from props import c06
    dev_cases, dev_meta = [], []
    for rec in DEVELOP_RECORDS:
        if rec.get('lattice') != 2 or 'snapshot_error' in rec:
            continue
        if len(set(abs(i) for i in rec['ids'])) != len(rec['ids']):
            # the cell names macrobody FACETS (b.k): the wrapper of props/c06.py
            # records surface numbers without the facet suffix, so its snapshot
            # of the planes is not the cell's; such cells are covered by the
            # point sweep of the decks, not by this tie
            res.count('develop_lattice LAT=2: facet cell (not tied here)')
            continue
        if rec['out'][0] == 'err' and rec['out'][1] not in (
                'LatticeError', 'ZeroDivisionError', 'AssertionError'):
            rec = dict(rec, out=('err', 'MissingLatticeOptError'))
        case, problems = c06.develop_case(rec)
        res.count('develop_lattice LAT=2: '
                  + (rec['out'][1] if rec['out'][0] == 'err'
                     else f'{len(rec["out"][1])} elements'
                     if len(rec['out'][1]) < 3 else '3+ elements'))
        for prob in problems[:1]:
            res.violation('impl-violation',
                          'develop_lattice (LAT=2): ' + prob,
                          {'input': {'record': repr(rec)[:3000]}},
                          found_input=True)
        dev_cases.append(case)
        dev_meta.append({'ids': rec['ids'], 'fill': rec['fill'],
                         'out': repr(rec['out'])[:400]})
    bad, errs = common.run_case_files(
        'c07_devhex',
        'From Coq Require Import List ZArith Bool String Ascii PrimFloat.\n'
        'From T4V Require Import Base.Str Base.Scalar C06.Model C06.Exec.\n'
        'From T4V Require C07.ExecDevelop.\nOpen Scope string_scope.\n',
        'develop_case', 'C07.ExecDevelop.check_develop_hex', dev_cases)
    res.obligation(f'tie:develophex ({len(dev_cases)} recorded calls of '
                   'develop_lattice on LAT=2 cells: model '
                   'develop_lattice_hex_gen FS = implementation)',
                   not bad and not errs and len(dev_cases) > 20,
                   f'{len(bad)} disagreements {errs[:1]}')
    if errs:
        res.violation('correspondence',
                      'tie:develophex: the generated Coq files did not run: '
                      + errs[0][-300:],
                      {'theorem_or_correspondence': 'tie:develophex',
                       'errors': errs[:2]}, found_input=False)
    for idx in bad[:5]:
        res.violation('correspondence',
                      'tie:develophex: model and implementation disagree on '
                      f'recorded call {idx}: {repr(dev_meta[idx])[:300]}',
                      {'input': {'tie': 'develophex', 'args': dev_meta[idx]},
                       'case': dev_cases[idx],
                       'theorem_or_correspondence': 'tie:develophex'},
                      found_input=False)
    _stage('tie develophex')
    res.count('deck points checked', n_checked)
    res.obligation(f'sweep: {n_decks} LAT=2 decks, {n_checked} points located '
                   'with the reference semantics', n_checked > 20 * n_decks,
                   f'{n_checked} points')
    if n_checked <= 20 * n_decks:
        res.violation('harness-error', 'the deck sweep checked too few points',
                      {'points': n_checked}, found_input=False)


def oracle_vertices(hexa, listing, surfs, first, out):
    '''hexVertices' documented contract, from the generator's hexagon: six
    consecutive vertices (up to the axial projection), the first and the last
    on side `first`.'''
    verts, axis = out
    u = hexa['u']
    if len(verts) != 6:
        return f'{len(verts)} vertices'
    ax = np.array(axis, float)
    if not np.linalg.norm(ax) > 0 or float(np.linalg.norm(
            np.cross(ax, u))) > 1e-9 * float(np.linalg.norm(ax)):
        return f'axis {axis} is not along the prism axis'

    def which(pt):
        best = None
        for k, w in enumerate(hexa['verts']):
            d = np.array(pt) - w
            d = d - (d @ u) * u
            if np.linalg.norm(d) < 1e-7 * max(1.0, float(np.abs(w).max())):
                best = k
        return best
    ks = [which(v) for v in verts]
    if None in ks:
        return f'vertex off the hexagon: {ks}'
    g = listing[first]
    fwd = [(g + i) % 6 for i in range(6)]
    bwd = [(g - 1 - i) % 6 for i in range(6)]
    if ks not in (fwd, bwd):
        return (f'vertices {ks} are not consecutive from side {g} '
                f'(listing position {first})')
    # projected on the top plane
    if len(surfs) == 8:
        pt7, n7 = (np.array(x) for x in surfs[6][0])
    else:
        pt7, n7 = np.zeros(3), np.array(axis)
    for v in verts:
        if abs(float((np.array(v) - pt7) @ n7)) > 1e-7 * max(
                1.0, float(np.abs(np.array(v)).max())):
            return 'vertex not on the top plane'
    return None


def replay(path):
    '''Re-run the recorded input through the implementation, the model and
    the oracle.'''
    from t4_geom_convert.Kernel.Volume import Lattice as LT
    import deck as deckmod
    data = json.load(open(path))
    inp = data.get('input', {})

    def detuple(x):
        if isinstance(x, list):
            return tuple(detuple(v) for v in x)
        return x
    if 'deck' in inp:
        conv = impl.convert(inp['deck'], keep_stdout=False)
        print('conversion:', conv)
        if conv.text and 'abstract' in inp:
            t4 = impl.T4File(conv.text)
            deck = inp['abstract']
            for cell in deck['cells']:
                cell['expr'] = detuple(cell['expr'])
                if cell.get('fill') and 'ranges' in cell['fill']:
                    cell['fill']['ranges'] = [tuple(r) for r in
                                              cell['fill']['ranges']]
            pts = [inp['point']] if 'point' in inp else []
            pts += deck_points(random.Random(0), inp['meta'], 100)
            checked, failures = check_deck(deck, inp['meta'], t4, pts)
            print(f'{len(failures)} of {checked} points wrong')
            for fail in failures[:5]:
                print(' ', fail)
    elif 'surfaces' in inp:
        surfs = [((tuple(s[0][0]), tuple(s[0][1])), s[1])
                 for s in inp['surfaces']]
        if 'first_side' in inp:
            print('implementation:', guarded(LT.hexVertices, surfs,
                                             inp['first_side']))
            term = (f'hexVertices FS {clist(csurf(s) for s in surfs)} '
                    f'{cnat(inp["first_side"])}')
        else:
            print('implementation:', guarded(LT.hexLatticeBaseVectors, surfs))
            term = f'hexLatticeBaseVectors FS {clist(csurf(s) for s in surfs)}'
        model, _ = common.coq_eval(EVAL_HEADER, term)
        print('model:', model)
        print('expected:', data.get('expected'))
    elif 'args' in inp:
        print('tie', inp.get('tie'), 'arguments (implementation side):',
              inp['args'])
        print('case (arguments, implementation\'s answer):', data.get('case'))
        if inp.get('tie') in TIE_MODEL and data.get('case'):
            ctype, cfun, model = TIE_MODEL[inp['tie']]
            case = data['case']
            value, _ = common.coq_eval(
                EVAL_HEADER, f'let c : {ctype} := {case} in ({model})')
            print('model:', value)
            agree, _ = common.coq_eval(
                EVAL_HEADER, f'let c : {ctype} := {case} in {cfun} c')
            print('model agrees with the implementation:', agree)
    print('recorded:', data.get('what'))
    return 0
