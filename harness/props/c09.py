'''C09 — each volume gets the material and density of the owning MCNP cell.

Theorems: coq/Properties/C09.v.  Ties (correspondence by execution):
  norm      : normalize_float on ALL strings of length <= 6 (quick) / 7
              (thorough) over {0,1,2,.,-,+,e,d} (bucketed fingerprints of
              (input, output, float() accepts the output), the model enumerates
              the domain inside Coq), the 20 doctest cases, structured and
              random spellings over 0-9 . - + e E d D
  material  : ParseMCNPCell.parse_material vs Model.parse_material
  fill      : CellConversion.pot_fill (driven like construct_volume_t4's
              "treat FILL") on synthetic cell dictionaries vs Model.treat_fill:
              whole final dictionary (material, density, importance, universe,
              fillid, idorigin), key counter and returned keys
  geomcomp  : writeT4GeomComp on synthetic dictionaries and on the dictionaries
              of real conversions vs Model.geomcomp_lines
  comp      : constructCompositionT4 names on synthetic dictionaries and on the
              dictionaries of real conversions vs Model.comp_names
  pipeline  : parse -> develop_lattice -> pot_fill of real conversions vs
              Model.develop_lattice + Model.treat_fill, modulo key numbering
Independent oracle (sweep): whole conversions of generated decks (universes,
FILL with transformations, lattices naming their own universe, LIKE n BUT);
GEOMCOMP joined with point membership (t4eval) against the reference location
(mcnpref), material number and float(density) compared numerically.'''
import io
import itertools
import json
import random
import re
from collections import OrderedDict

import common
import impl
import deck as deckmod
import c09_corpus
import c09_gen
import c09_oracle
from common import cstr, clist, cbool, copt, cpair, cz, cn

THEOREMS = [
    'C09_normalize_float_normal_form', 'C09_normalize_float_classes',
    'C09_normalize_float_kept_distinct', 'C09_normal_form_fixed',
    'C09_normalize_float_value', 'C09_same_name_iff',
    'C09_different_values_different_names', 'C09_like_chain_last_wins',
    'C09_like_inherits',
    'C09_normalize_float_idempotent', 'C09_parse_material_density_fixed',
    'C09_parse_material_classes', 'C09_like_but_rho',
    'C09_like_but_void', 'C09_pot_fill_provenance',
    'C09_provenance_head_is_leaf', 'C09_treat_fill_total',
    'C09_lattice_elements', 'C09_lattice_leaf_material', 'C09_geomcomp_name',
    'C09_geomcomp_one_line', 'C09_geomcomp_lines',
    'C09_volume_gets_leaf_material', 'C09_compositions_exact',
    'C09_compositions_distinct', 'C09_geomcomp_name_has_composition',
    'C09_write_compositions', 'C09_block_head', 'C09_block_written',
    'C09_normal_form_accepted',
    'C09_point_gets_leaf_material_linked', 'C09_density_type_by_sign',
    'C09_point_composition_written_linked', 'C09_fill_models_agree_linked',
    'C09_lattice_element_material_linked',
]
TRUSTED = [
    'hand-written model coq/C09/Model.v, tied by execution only (exhaustive '
    'small-alphabet domains for normalize_float, byte comparison for '
    'writeT4Composition, line comparison for GEOMCOMP, whole final '
    'dictionaries for pot_fill, LIKE chains, every whole conversion of the '
    'sweep)',
    'Python re semantics of the four patterns of normalize_float: explicit '
    'string functions, tied exhaustively on two 8-letter alphabets',
    'float(): only acceptance (float_ok) and the sign test (neg_density) are '
    'modelled and tied; values are compared by the sweep oracle; '
    'C09_normalize_float_value / C09_density_type_by_sign use the rational '
    'reading number_value of coq/C09/Spec.v',
    'coq/C09/Spec.v: the spelling relation, number_value and the reference '
    'reading of a FILL hierarchy (leaves) are written from the MCNP manual; '
    'leaves is proved to coincide with C05\'s Paths enumeration '
    '(C09_fill_models_agree_linked)',
    'ownership of points: no longer trusted for FILL hierarchies and lattice '
    'elements — linked inside Coq with C05 and C06 '
    '(C09_point_composition_written_linked, '
    'C09_lattice_element_material_linked) over their abstract '
    'points/motions/senses; what is still assumed there: C05\'s two interface '
    'laws (C04), and that a non-empty returned cell has a non-virtual volume '
    'numbered like the cell and carrying its idorigin (C01_cells + '
    'C13/LinkC01Orig.v prove this on C01\'s model; no bridge from C05\'s '
    'table to C01\'s cell table exists); which lattice index a point falls '
    'in is C06\'s statement',
    'nuclide lists and %.15e concentrations inside the COMPOSITION blocks are '
    'C10\'s (handed to write_compositions as data)',
    'the density a COMPOSITION block carries (DENSITY |d| / sum of the '
    'POINT_WISE concentrations = d) is checked on the written text by the '
    'sweep and the corpus, not proved: the rescaling itself is C10\'s',
    'harness: generators, impl.T4File reader, t4eval/mcnpref oracles (numeric '
    'sweep of the same ownership statement on real decks), PEG shim replacing '
    'TatSu',
]
ASSUMPTIONS = [
    'density and material tokens are ASCII without blanks, newlines, '
    'underscores and letters other than e/E/d/D (Python\'s "$" before a final '
    'newline, int()/float() on underscores, inf/nan, float underflow are not '
    'modelled)',
    'cards enter the LIKE-chain model as (material tokens, option entries): '
    'the split of a card and the keyword tokenizer are C15\'s',
    'fillid of the cells handed to pot_fill is a plain universe number '
    '(lattices are developed before); importances are integers',
    'C09_normalize_float_classes: the number has at least one mantissa digit '
    '(otherwise the token is not a number); spelling differences outside the '
    'relation stay distinct (C09_normalize_float_kept_distinct, exact '
    'characterisation: C09_same_name_iff)',
    'C09_provenance_head_is_leaf / C09_pot_fill_provenance: the parsed cells '
    'carry no provenance (idorigin empty) and new_cell_key is not below any '
    'existing key (true of construct_volume_t4: free_key = max key + 1); '
    'conditional on pot_fill returning, which C09_treat_fill_total proves for '
    'acyclic universe nesting',
    'C09_compositions_exact / C09_write_compositions: the stored densities are '
    'fixed points of normalize_float — proved for every string parse_material '
    'can store (C09_normalize_float_idempotent)',
    'C09_point_composition_written_linked: the container has positive '
    'importance; C05\'s hypotheses on the table of parsed cards (fresh '
    'counters, empty caches, distinct keys, no CellRef yet, no provenance)',
]
HEADER = ('From Coq Require Import List NArith ZArith Bool String Ascii.\n'
          'From Coq Require Uint63.\n'
          'From T4V Require Import Base.Str C09.Model C09.Exec.\n'
          'Open Scope string_scope.\n')

ALPHABET = '012.-+ed'
ALPHABET_B = '07.-+EDd'
MASK = (1 << 63) - 1


# ---------------------------------------------------------------------------
# rendering of abstract values as Coq terms
# ---------------------------------------------------------------------------

def run_cases(*args, **kwargs):
    '''common.run_case_files, tried once more when a coqc process was killed
    by a signal (rc < 0: another job on the machine), never when Coq itself
    reports an error.'''
    bad, errs = common.run_case_files(*args, **kwargs)
    if errs and all(re.search(r'rc=-\d+', e) for e in errs):
        bad, errs = common.run_case_files(*args, **kwargs)
    return bad, errs


def repo_attr(module, *names):
    '''A (possibly private) name of the repository, or None when a rewrite
    removed or renamed it.  Only for helpers the anchors do not name.'''
    import importlib
    try:
        obj = importlib.import_module(module)
    except ImportError:
        return None
    for name in names:
        obj = getattr(obj, name, None)
        if obj is None:
            return None
    return obj


def skip_helper(res, tie, name):
    '''A helper-level tie is skipped when its helper is gone; the same code is
    exercised through the public entry points by the corpus and the deck
    sweep of the same run.'''
    res.extra.setdefault('skipped', []).append(
        f'{tie}: helper {name} not present')
    res.count('skipped:' + tie)


PARSER_MOD = 't4_geom_convert.Kernel.FileHandlers.Parser.ParseMCNPCell'


def make_worker(parser):
    '''ParseMCNPCell instance for the helper-level ties, or None.'''
    cls = repo_attr(PARSER_MOD, 'ParseMCNPCell')
    if cls is None:
        return None
    try:
        return cls(parser, None, {})
    except TypeError:
        return None


def ccell(c):
    origin = clist(cpair(cz(a), cz(b)) for a, b in c['origin'])
    return (f'(mkCell {cstr(c["mat"])} {copt(c["dens"], cstr)} '
            f'{cz(c["imp"])} {cz(c["univ"])} {copt(c["fill"], cz)} {origin})')


def cdict(cells):
    return clist(cpair(cz(k), ccell(c)) for k, c in cells.items())


def cres(out, render):
    if out[0] == 'err':
        return f'(Err {out[1]})'
    return f'(Ok {render(out[1])})'


EXC = {'ValueError': 'EValue', 'IndexError': 'EIndex', 'KeyError': 'EKey',
       'TypeError': 'EType', 'RecursionError': 'EFuel'}


def guarded(fun, *args):
    try:
        return ('ok', fun(*args))
    except (ValueError, IndexError, KeyError, TypeError, RecursionError) as exc:
        return ('err', EXC[type(exc).__name__])


def abstract_cells(mcnp_dict):
    '''{key: CellMCNP} -> abstract dictionary, or None when a field is outside
    the model's types.'''
    out = OrderedDict()
    for key, c in mcnp_dict.items():
        imp = c.importance
        if imp != int(imp) or not (c.fillid is None
                                   or isinstance(c.fillid, int)):
            return None
        out[int(key)] = {'mat': str(c.materialID), 'dens': c.density,
                         'imp': int(imp), 'univ': int(c.universe),
                         'fill': c.fillid,
                         'origin': [(int(a), int(b)) for a, b in c.idorigin]}
    return out


def concrete_cells(cells):
    from t4_geom_convert.Kernel.Volume.CellMCNP import CellMCNP
    return OrderedDict(
        (k, CellMCNP(c['mat'], c['dens'], ('*', 1, 2), float(c['imp']),
                     c['univ'], c['fill'], (), None, [],
                     idorigin=list(c['origin'])))
        for k, c in cells.items())


# ---------------------------------------------------------------------------
# normalize_float
# ---------------------------------------------------------------------------

def impl_norm(s):
    from t4_geom_convert.Kernel.Utils import normalize_float
    try:
        out = normalize_float(s)
    except IndexError:
        return ('err', 'EIndex')
    try:
        float(out)
        return ('ok', (out, True))
    except ValueError:
        return ('ok', (out, False))


def hash_string(s, h):
    for ch in s:
        h = (h * 1000003 + ord(ch)) & MASK
    return h


def hash_case(s):
    h = hash_string(s, 7)
    out = impl_norm(s)
    if out[0] == 'err':
        return (h * 1000003 + 35) & MASK
    text, fl = out[1]
    return hash_string(text, (h * 1000003 + (62 if fl else 33)) & MASK)


def words_upto(n, alphabet=ALPHABET):
    for length in range(n + 1):
        for tup in itertools.product(alphabet, repeat=length):
            yield ''.join(tup)


def norm_case(s):
    return cpair(cstr(s), cres(impl_norm(s),
                               lambda o: cpair(cstr(o[0]), cbool(o[1]))))


def spelling_violation(res, s, tie):
    '''Independent check of one spelling on the implementation: the value of
    the normalised string and the class of the paddings/markers.'''
    try:
        want = impl.mcnp_float(s)
    except ValueError:
        return False
    out = impl_norm(s)
    bad = out[0] == 'err' or not out[1][1] or float(out[1][0]) != want
    if bad:
        res.violation('impl-violation',
                      f'normalize_float({s!r}) = {out} does not denote '
                      f'{want}', {'input': {'spelling': s}, 'expected': want,
                                  'observed': out,
                                  'theorem_or_correspondence': tie},
                      found_input=True)
        return True
    return False


def tie_norm_exhaustive(res, tier, alphabet, check_fun, label, shorter=0):
    maxlen = (6 if tier == 'quick' else 7) - shorter
    tail = maxlen - 2
    suffixes = list(words_upto(tail, alphabet))
    cases, meta = [], []
    short = sum(hash_case(w) for w in words_upto(1, alphabet)) & MASK
    cases.append(cpair(cstr(''), '1%nat', f'(Uint63.of_Z {short}%Z)'))
    meta.append(('', 1))
    n_strings = len(alphabet) + 1
    for a in alphabet:
        for b in alphabet:
            prefix = a + b
            total = 0
            for w in suffixes:
                total += hash_case(prefix + w)
            cases.append(cpair(cstr(prefix), f'{tail}%nat',
                               f'(Uint63.of_Z {total & MASK}%Z)'))
            meta.append((prefix, tail))
            n_strings += len(suffixes)
    res.count(f'norm:exhaustive-strings-{label}', n_strings)
    res.evaluations += n_strings
    bad, errs = run_cases(f'c09_bucket{label}', HEADER,
                                      'string * nat * Uint63.int',
                                      check_fun, cases, chunk=5)
    tie = f'tie:norm-exhaustive-{label}'
    res.obligation(f'{tie} (all {n_strings} strings of length '
                   f'<= {maxlen} over "{alphabet}": normalize_float and '
                   'float() acceptance, 65 bucket fingerprints)',
                   not bad and not errs, f'bad buckets {bad} {errs[:1]}')
    for idx in bad[:3]:
        prefix, n = meta[idx]
        words = [prefix + w for w in words_upto(n, alphabet)]
        sub_bad, _ = run_cases(
            'c09_expand', HEADER, 'string * res (string * bool)',
            'check_norm', [norm_case(w) for w in words], chunk=600)
        found = False
        for k in sub_bad[:200]:
            found = spelling_violation(res, words[k], tie) or found
        if not found:
            shown = [words[k] for k in sub_bad[:5]]
            model = [common.coq_eval(HEADER, f'norm_out {cstr(w)}')[0]
                     for w in shown[:2]]
            res.violation('correspondence',
                          f'normalize_float differs from the model on '
                          f'{len(sub_bad)} strings of bucket {prefix!r}, e.g. '
                          f'{shown}: impl {[impl_norm(w) for w in shown[:2]]} '
                          f'model {model}',
                          {'input': {'spelling': shown[0] if shown else prefix},
                           'disagreeing': [words[k] for k in sub_bad[:50]],
                           'theorem_or_correspondence': tie},
                          found_input=False)


def tie_norm(res, tier, rng):
    tie_norm_exhaustive(res, tier, ALPHABET, 'check_bucket', 'a')
    tie_norm_exhaustive(res, tier, ALPHABET_B, 'check_bucket_b', 'b',
                        shorter=1 if tier == 'quick' else 0)

    # doctests + structured spellings + random strings over a wider alphabet
    strings = [s for s, _ in c09_gen.DOCTESTS]
    for s, want in c09_gen.DOCTESTS:
        got = impl_norm(s)
        if got != ('ok', (want, True)):
            res.violation('impl-violation',
                          f'doctest case normalize_float({s!r}) = {got}, '
                          f'documented {want!r}',
                          {'input': {'spelling': s}, 'expected': want},
                          found_input=True)
    n_struct = 600 if tier == 'quick' else 6000
    for i in range(n_struct):
        number = c09_gen.gen_number(rng, wild=i % 3 == 0)
        for text, _, _ in c09_gen.gen_spellings(rng, number, 2,
                                                wild=i % 3 == 0):
            strings.append(text)
    wide = '0123456789.-+eEdD'
    for _ in range(n_struct):
        strings.append(c09_gen.random_token(rng, wide, 9))
    for s in strings:
        res.seen(('norm', s), nontrivial=len(s) > 1)
    bad, errs = run_cases(
        'c09_norm', HEADER, 'string * res (string * bool)', 'check_norm',
        [norm_case(s) for s in strings])
    res.obligation(f'tie:norm-spellings ({len(strings)} doctest, structured '
                   'and random spellings over 0-9.-+eEdD)',
                   not bad and not errs, f'{len(bad)} disagreements {errs[:1]}')
    for idx in bad[:10]:
        s = strings[idx]
        if not spelling_violation(res, s, 'tie:norm-spellings'):
            model = common.coq_eval(HEADER, f'norm_out {cstr(s)}')[0]
            res.violation('correspondence',
                          f'normalize_float({s!r}): impl {impl_norm(s)} '
                          f'model {model}',
                          {'input': {'spelling': s},
                           'theorem_or_correspondence': 'tie:norm-spellings'},
                          found_input=False)


def sweep_spellings(res, tier, rng):
    '''Property-level sweep of normalize_float alone: value kept, classes of
    paddings and markers collapse (inside and outside the theorem's guard).'''
    n = 1500 if tier == 'quick' else 15000
    for i in range(n):
        wild = i % 4 == 0
        number = c09_gen.gen_number(rng, wild=wild)
        spl = c09_gen.gen_spellings(rng, number, 3, wild=wild)
        res.seen(('class', number, tuple(spl)))
        outs = {}
        for text, pad, marker in spl:
            res.count('spelling:' + ('exp' if number[3] else 'plain')
                      + ('-wild' if wild else ''))
            out = impl_norm(text)
            outs[text] = out
            spelling_violation(res, text, 'sweep:spellings')
        for (ta, pa, _), (tb, pb, _) in itertools.combinations(spl, 2):
            if outs[ta] == outs[tb]:
                continue
            cls = None           # nothing may differ any more
            res.violation('impl-violation',
                          f'spellings {ta!r} and {tb!r} of one number '
                          f'normalise to {outs[ta][1][0]!r} and '
                          f'{outs[tb][1][0]!r}',
                          {'input': {'spellings': [ta, tb]}}, cls=cls,
                          found_input=True)


# ---------------------------------------------------------------------------
# parse_material
# ---------------------------------------------------------------------------

def tie_material(res, tier, rng):
    from t4_geom_convert.Kernel.FileHandlers.Parser.ParseMCNPCell import \
        ParseMCNPCell
    n = 300 if tier == 'quick' else 3000
    cases, meta = [], []
    for i in range(n):
        mat = rng.choice(['0', '1', '2', '12', '01', '00', '+3', '-0', '007',
                          '35', '1x', '', '1.0'])
        toks = [] if mat == '' else [mat]
        if rng.random() < 0.85:
            number = c09_gen.gen_number(rng, wild=i % 3 == 0)
            toks.append(c09_gen.gen_spellings(rng, number, 1,
                                              wild=i % 3 == 0)[0][0])
        if rng.random() < 0.1:
            toks.append('7')
        text = ' ' + '  '.join(toks) + ' '
        out = guarded(ParseMCNPCell.parse_material, text)
        cases.append(cpair(
            clist(cstr(t) for t in toks),
            cres(out, lambda o: cpair(cstr(o[0]), copt(o[1], cstr)))))
        meta.append((text, out))
        res.seen(('material', text))
        res.count('material:' + (out[1] if out[0] == 'err' else 'ok'))
        # property: the density spelling, when valid, keeps its value
        if out[0] == 'ok' and out[1][1] is not None and len(toks) > 1:
            spelling_violation(res, toks[1], 'tie:material')
    bad, errs = run_cases(
        'c09_mat', HEADER, 'list string * res (string * option string)',
        'check_parse_material', cases)
    res.obligation(f'tie:material ({len(cases)} material/density pairs: '
                   'parse_material)', not bad and not errs,
                   f'{len(bad)} disagreements {errs[:1]}')
    for idx in bad[:10]:
        text, out = meta[idx]
        res.violation('correspondence',
                      f'parse_material({text!r}): impl {out} differs from the '
                      'model', {'input': {'material': text}, 'observed': out,
                                'theorem_or_correspondence': 'tie:material'},
                      found_input=False)


def tie_likebut(res, tier, rng):
    '''parse_one_cell_worker on (material, geometry, options) triples as
    apply_but builds them for LIKE n BUT cells vs Model.cell_material.'''
    n = 200 if tier == 'quick' else 2000
    cases, meta = [], []
    with impl.mip_parser(COMP_DECK) as parser:
        worker = make_worker(parser)
        one_cell = getattr(worker, 'parse_one_cell_worker', None)
        if one_cell is None:
            skip_helper(res, 'tie:likebut', 'ParseMCNPCell.parse_one_cell_worker')
            return
        for i in range(n):
            mat = rng.choice(['0', '1', '2', '12', '01', '3'])
            toks = [mat]
            if mat != '0' or rng.random() < 0.1:
                number = c09_gen.gen_number(rng, wild=i % 3 == 0)
                toks.append(c09_gen.gen_spellings(rng, number, 1,
                                                  wild=i % 3 == 0)[0][0])
            kmat = rng.choice([None, None, '2', '0', '02', '5'])
            krho = None
            if rng.random() < 0.6:
                number = c09_gen.gen_number(rng, wild=i % 3 == 1)
                krho = c09_gen.gen_spellings(rng, number, 1,
                                             wild=i % 3 == 1)[0][0]
            options = 'imp:n=1 u=3'
            if kmat is not None:
                options += rng.choice([' MAT=', ' mat ']) + kmat
            if krho is not None:
                options += rng.choice([' RHO=', ' rho=']) + krho
            material = ' '.join(toks)

            def call():
                cell = one_cell(0, None,
                                                    (material, '-1', options))
                return (str(cell.materialID), cell.density)
            out = guarded(call)
            cases.append(cpair(
                clist(cstr(t) for t in toks), copt(kmat, cstr),
                copt(krho, cstr),
                cres(out, lambda o: cpair(cstr(o[0]), copt(o[1], cstr)))))
            meta.append((material, options, out))
            res.seen(('likebut', material, options))
            res.count('likebut:' + (out[1] if out[0] == 'err' else 'ok'))
            if out[0] == 'ok' and krho is not None:
                spelling_violation(res, krho, 'tie:likebut')
    bad, errs = run_cases(
        'c09_like', HEADER,
        'list string * option string * option string * '
        'res (string * option string)', 'check_cell_material', cases)
    res.obligation(f'tie:likebut ({len(cases)} cell cards with MAT=/RHO= '
                   'keywords: parse_one_cell_worker, material and density)',
                   not bad and not errs,
                   f'{len(bad)} disagreements {errs[:1]}')
    for idx in bad[:10]:
        material, options, out = meta[idx]
        res.violation('correspondence',
                      f'parse_one_cell_worker({material!r}, {options!r}): impl '
                      f'{out} differs from the model',
                      {'input': {'material': material, 'options': options},
                       'observed': out,
                       'theorem_or_correspondence': 'tie:likebut'},
                      found_input=False)


OTHER_OPTIONS = ['imp:n=1', 'u=3', 'trcl=(1 0 0)', 'imp:p=2', 'u=7']


def gen_like_cards(rng, wild):
    '''{id: ('plain', tokens, opts) | ('like', n, opts)} with LIKE chains of
    up to four hops; opts = list of ('mat', s) | ('rho', s) | ('other', text);
    the LIKE graph is acyclic (a cycle makes the repository loop forever).'''
    cards = OrderedDict()
    ids = rng.sample(range(1, 40), rng.randint(2, 7))

    def options(is_base):
        out = [('other', 'imp:n=1')] if is_base else []
        for _ in range(rng.choice([0, 1, 1, 2, 3])):
            kind = rng.random()
            if kind < 0.35:
                out.append(('mat', rng.choice(['0', '1', '2', '02', '5', '00'])))
            elif kind < 0.7:
                number = c09_gen.gen_number(rng, wild=wild)
                out.append(('rho', c09_gen.gen_spellings(rng, number, 1,
                                                         wild=wild)[0][0]))
            else:
                out.append(('other', rng.choice(OTHER_OPTIONS)))
        rng.shuffle(out)
        return out
    done = []
    for k in ids:
        if done and rng.random() < 0.65:
            target = rng.choice(done)
            if rng.random() < 0.04:
                target = 99                       # KeyError
            cards[k] = ('like', target, options(False))
        else:
            mat = rng.choice(['0', '1', '2', '3', '01'])
            toks = [mat]
            if int(mat) != 0:
                number = c09_gen.gen_number(rng, wild=wild)
                toks.append(c09_gen.gen_spellings(rng, number, 1,
                                                  wild=wild)[0][0])
            cards[k] = ('plain', toks, options(True))
        done.append(k)
    # cards may refer to cells defined later in the deck
    items = list(cards.items())
    if rng.random() < 0.5:
        rng.shuffle(items)
    return OrderedDict(items)


def render_options(opts, rng):
    parts = []
    for kind, text in opts:
        if kind == 'mat':
            parts.append(rng.choice(['mat=', 'MAT=', 'mat ']) + text)
        elif kind == 'rho':
            parts.append(rng.choice(['rho=', 'RHO=', 'rho ']) + text)
        else:
            parts.append(text)
    return ' ' + ' '.join(parts)


def ccard(card):
    def copts(opts):
        return clist('(OMat %s)' % cstr(t) if k == 'mat' else
                     '(ORho %s)' % cstr(t) if k == 'rho' else 'OOther'
                     for k, t in opts)
    if card[0] == 'plain':
        return f'(Plain {clist(cstr(t) for t in card[1])} {copts(card[2])})'
    return f'(Like {cz(card[1])} {copts(card[2])})'


def tie_likechain(res, tier, rng):
    '''ParseMCNPCell.parse_one_cell (the LIKE loop, apply_but, the keyword
    scan) on dictionaries of parsed cards vs Model.card_material.'''
    n = 120 if tier == 'quick' else 1200
    cases, meta = [], []
    depth_seen = 0
    with impl.mip_parser(COMP_DECK) as parser:
        worker = make_worker(parser)
        one_cell = getattr(worker, 'parse_one_cell', None)
        if one_cell is None:
            skip_helper(res, 'tie:likechain', 'ParseMCNPCell.parse_one_cell')
            return
        for i in range(n):
            cards = gen_like_cards(rng, wild=i % 3 == 0)
            parsed = OrderedDict()
            for k, card in cards.items():
                if card[0] == 'plain':
                    parsed[k] = (' ' + ' '.join(card[1]), ' -1',
                                 render_options(card[2], rng))
                else:
                    parsed[k] = ('', rng.choice([' like %d but', ' LIKE %d BUT'])
                                 % card[1], render_options(card[2], rng))
            for rank, k in enumerate(cards):
                def call(rank=rank, k=k):
                    cell = one_cell(parsed, rank, None, parsed[k])
                    return (str(cell.materialID), cell.density)
                out = guarded(call)
                hops, cur = 0, cards[k]
                while cur[0] == 'like' and cur[1] in cards:
                    hops, cur = hops + 1, cards[cur[1]]
                depth_seen = max(depth_seen, hops)
                cases.append(cpair(
                    clist(cpair(cz(j), ccard(c)) for j, c in cards.items()),
                    cz(k),
                    cres(out, lambda o: cpair(cstr(o[0]), copt(o[1], cstr)))))
                meta.append((dict(parsed), k, out))
                res.seen(('likechain', tuple(parsed.items()), k),
                         nontrivial=hops > 0)
                res.count(f'likechain:hops-{min(hops, 4)}')
    bad, errs = run_cases(
        'c09_chain', HEADER,
        'idict card * Z * res (string * option string)',
        'check_card_material', cases, chunk=150)
    res.obligation(f'tie:likechain ({len(cases)} cards of {n} dictionaries, '
                   f'LIKE chains up to {depth_seen} hops: parse_one_cell, '
                   'material and density)', not bad and not errs
                   and depth_seen >= 3,
                   f'{len(bad)} disagreements {errs[:1]}')
    for idx in bad[:10]:
        parsed, k, out = meta[idx]
        res.violation('correspondence',
                      f'parse_one_cell of card {k} in {parsed}: impl {out} '
                      'differs from the model',
                      {'input': {'cards': {str(j): list(v)
                                           for j, v in parsed.items()},
                                 'card': k}, 'observed': out,
                       'theorem_or_correspondence': 'tie:likechain'},
                      found_input=False)


# ---------------------------------------------------------------------------
# pot_fill on synthetic dictionaries
# ---------------------------------------------------------------------------

def impl_treat_fill(cells):
    from collections import defaultdict
    from t4_geom_convert.Kernel.Volume.CellConversion import CellConversion
    conc = concrete_cells(cells)
    free_key = max(conc) + 1
    conv = CellConversion(free_key, 1, {}, {}, {}, conc)
    by_universe = repo_attr('t4_geom_convert.Kernel.Volume.ByUniverse',
                            'by_universe')
    if by_universe is not None:
        universes = by_universe(conc)
    else:       # the argument pot_fill expects: cell keys by universe
        universes = defaultdict(list)
        for k, v in conc.items():
            universes[v.universe].append(k)
    fill_keys = [k for k, v in conc.items()
                 if v.fillid is not None and v.universe == 0]
    returned = []
    for key in fill_keys:
        returned.extend(conv.pot_fill(key, universes, False, False))
    counter = getattr(conv, 'new_cell_key', None)
    if counter is None:     # renamed: the counter is the number of keys handed out
        counter = free_key + len(conc) - len(cells)
    return abstract_cells(conc), counter, returned


def leaves_spec(cells, key, seen=()):
    '''Independent reading: the leaf cells below `key` (depth first).'''
    cell = cells[key]
    if cell['fill'] is None:
        return [key]
    if key in seen:
        raise RecursionError
    out = []
    for k, c in cells.items():
        if c['univ'] == cell['fill']:
            out.extend(leaves_spec(cells, k, seen + (key,)))
    return out


def tie_fill(res, tier, rng):
    n = 160 if tier == 'quick' else 2500
    cases, meta = [], []
    for i in range(n):
        cells = c09_gen.gen_cells(rng, malformed=i % 10 == 9)
        out = guarded(impl_treat_fill, cells)
        free = max(cells) + 1
        cases.append(cpair(
            cdict(cells), cz(free),
            cres(out, lambda o: cpair(cdict(o[0]), cz(o[1]),
                                      clist(cz(k) for k in o[2])))))
        meta.append((cells, out))
        n_new = len(out[1][2]) if out[0] == 'ok' else 0
        res.seen(('fill', sorted(cells.items())), nontrivial=n_new > 0
                 or out[0] == 'err')
        res.count('fill:' + (out[1] if out[0] == 'err'
                             else f'new-cells-{min(n_new, 5)}'))
        # property-level oracle on the implementation's own dictionary
        if out[0] == 'ok':
            final, _, returned = out[1]
            want = []
            for key, c in cells.items():
                if c['fill'] is not None and c['univ'] == 0:
                    want.extend(leaves_spec(cells, key))
            got = []
            for key in returned:
                new = final[key]
                head = new['origin'][0][0] if new['origin'] else key
                got.append(head)
                src = cells.get(head)
                if src is None or (new['mat'], new['dens']) != (
                        src['mat'], src['dens']) or src['fill'] is not None:
                    res.violation(
                        'impl-violation',
                        f'pot_fill: new cell {key} = {new} does not carry the '
                        f'material/density of its provenance head {head}',
                        {'input': {'cells': cells}, 'observed': final},
                        found_input=True)
            if got != want:
                res.violation('impl-violation',
                              f'pot_fill: provenance heads {got} differ from '
                              f'the leaves of the hierarchy {want}',
                              {'input': {'cells': cells}}, found_input=True)
    if meta:
        res.sample({'cells': meta[0][0], 'pot_fill': meta[0][1]})
    bad, errs = run_cases(
        'c09_fill', HEADER, 'dict cell * Z * fill_out', 'check_fill', cases,
        chunk=60)
    res.obligation(f'tie:fill ({len(cases)} synthetic dictionaries: final '
                   'dictionary, key counter and returned keys of pot_fill)',
                   not bad and not errs, f'{len(bad)} disagreements {errs[:1]}')
    for idx in bad[:10]:
        cells, out = meta[idx]
        res.violation('correspondence',
                      'pot_fill differs from the model on a synthetic '
                      f'dictionary: impl {str(out)[:300]}',
                      {'input': {'cells': cells}, 'observed': out,
                       'theorem_or_correspondence': 'tie:fill'},
                      found_input=False)


# ---------------------------------------------------------------------------
# GEOMCOMP
# ---------------------------------------------------------------------------

def impl_geomcomp(vols, conc_cells):
    '''writeT4GeomComp -> [(name, count, [ids])]. vols: {key: (fictive,
    origin)} or a real DictVolumeT4.'''
    from t4_geom_convert.Kernel.FileHandlers.Writer.WriteT4GeomComp import \
        writeT4GeomComp
    buf = io.StringIO()
    writeT4GeomComp(vols, conc_cells, buf)
    lines = buf.getvalue().split('\n')
    if lines[:2] != ['', 'GEOMCOMP'] or lines[-2:] != ['END_GEOMCOMP', '']:
        raise ValueError('GEOMCOMP block is not framed as expected')
    out = []
    for line in lines[2:-2]:
        toks = line.split()
        out.append((toks[0], int(toks[1]), [int(x) for x in toks[2:]]))
    return out


def concrete_vols(vols):
    from t4_geom_convert.Kernel.Volume.VolumeT4 import VolumeT4
    return OrderedDict((k, VolumeT4([], [], idorigin=list(origin),
                                    fictive=fict))
                       for k, (fict, origin) in vols.items())


def cvols(vols):
    return clist(cpair(cz(k), f'(mkVol {cbool(f)} '
                       + clist(cpair(cz(a), cz(b)) for a, b in o) + ')')
                 for k, (f, o) in vols.items())


def clines(lines):
    return clist(cpair(cstr(n), cn(c), clist(cz(x) for x in ids))
                 for n, c, ids in lines)


def oracle_geomcomp(vols, cells, lines):
    '''Independent reading of constructGeomCompT4's contract.'''
    where = {}
    for name, count, ids in lines:
        if count != len(ids):
            return f'line {name}: count {count} != {len(ids)} volumes'
        for k in ids:
            where.setdefault(k, []).append(name)
    for k, (fict, origin) in vols.items():
        if fict:
            if k in where:
                return f'virtual volume {k} listed'
            continue
        head = origin[0][0] if origin else k
        src = cells.get(head)
        if src is None:
            return (f'GEOMCOMP written although the provenance head {head} of '
                    f'volume {k} is not a cell')
        try:
            number = int(src['mat'])
        except ValueError:
            return (f'GEOMCOMP written although the material token '
                    f'{src["mat"]!r} of cell {head} is not a number')
        want = f'm{number}' + ('' if src['dens'] is None
                               else '_' + src['dens'])
        if where.get(k) != [want]:
            return f'volume {k}: lines {where.get(k)}, expected {want}'
    if any(k not in vols for k in where):
        return 'unknown volume listed'
    return None


def gen_vols(rng, cells):
    vols = OrderedDict()
    keys = list(cells)
    for k in rng.sample(range(1, 200), rng.randint(1, 14)):
        fict = rng.random() < 0.3
        origin = []
        if rng.random() < 0.5 or k not in cells:
            depth = rng.randint(1, 3)
            origin = [(rng.choice(keys), rng.choice(keys))
                      for _ in range(depth)]
            if rng.random() < 0.04:
                origin[0] = (999, origin[0][1])       # KeyError
        vols[k] = (fict, origin)
    return vols


def tie_geomcomp(res, tier, rng, real):
    n = 160 if tier == 'quick' else 2500
    cases, meta = [], []
    for _ in range(n):
        cells = c09_gen.gen_cells(rng)
        if rng.random() < 0.05:
            rng.choice(list(cells.values()))['mat'] = '1x'    # ValueError
        vols = gen_vols(rng, cells)
        out = guarded(impl_geomcomp, concrete_vols(vols),
                      concrete_cells(cells))
        cases.append(cpair(cvols(vols), cdict(cells), cres(out, clines)))
        meta.append((vols, cells, out, None))
        res.seen(('geomcomp', list(vols.items()), list(cells.items())))
        res.count('geomcomp:' + (out[1] if out[0] == 'err' else 'ok'))
        if out[0] == 'ok':
            why = oracle_geomcomp(vols, cells, out[1])
            if why:
                res.violation('impl-violation', f'GEOMCOMP: {why}',
                              {'input': {'vols': list(vols.items()),
                                         'cells': cells}, 'observed': out[1]},
                              found_input=True)
    for deck_text, vols_real, cells_real, t4 in real:
        cells = abstract_cells(cells_real)
        if cells is None:
            continue
        vols = OrderedDict((int(k), (bool(v.fictive),
                                     [(int(a), int(b)) for a, b in v.idorigin]))
                           for k, v in vols_real.items())
        lines = [(name, len(ids), ids) for name, ids in t4.geomcomp]
        cases.append(cpair(cvols(vols), cdict(cells), cres(('ok', lines),
                                                           clines)))
        meta.append((vols, cells, ('ok', lines), deck_text))
        res.count('geomcomp:real-deck')
    bad, errs = run_cases(
        'c09_geomcomp', HEADER,
        'dict vol * dict cell * res (list (string * N * list Z))',
        'check_geomcomp', cases, chunk=40)
    res.obligation(f'tie:geomcomp ({len(cases)} dictionaries, {len(real)} of '
                   'them from whole conversions: GEOMCOMP lines)',
                   not bad and not errs, f'{len(bad)} disagreements {errs[:1]}')
    for idx in bad[:10]:
        vols, cells, out, deck_text = meta[idx]
        payload = {'vols': list(vols.items()), 'cells': cells}
        if deck_text:
            payload['deck'] = deck_text
        res.violation('correspondence',
                      f'GEOMCOMP lines differ from the model: impl '
                      f'{str(out)[:300]}',
                      {'input': payload, 'observed': out,
                       'theorem_or_correspondence': 'tie:geomcomp'},
                      found_input=False)


# ---------------------------------------------------------------------------
# compositions: names
# ---------------------------------------------------------------------------

COMP_DECK = ('materials only\n1 0 -1 imp:n=1\n2 0 1 imp:n=0\n\n1 so 1\n\n'
             'm1 1001 2 8016 1\nm2 26056 1\nm3 92235 -0.05 92238 -0.95\n'
             'm12 6012 1\n')
COMP_KEYS = [1, 2, 3, 12]
# what compositionConversionMCNPToT4 + extract_isotopes_fractions give on it
COMP_CARDS = [(1, True, [('H1', '2'), ('O16', '1')]),
              (2, True, [('FE56', '1')]),
              (3, False, [('U235', '0.05'), ('U238', '0.95')]),
              (12, True, [('C12', '1')])]


def impl_comp(parser, conc_cells, keys):
    import warnings
    from t4_geom_convert.Kernel.Composition.ConstructCompositionT4 import \
        constructCompositionT4
    with warnings.catch_warnings():
        warnings.simplefilter('ignore')
        result = constructCompositionT4(parser, conc_cells)
    extra = [k for k in result if k not in keys]
    if extra:
        raise AssertionError(f'composition for unknown material {extra}')
    try:
        return [(k, [c.material + '_' + c.valueOfDensity
                     for c in result.get(k, [])]) for k in keys]
    except AttributeError:
        # the record class of the compositions was rewritten: read the names
        # off the text the public writer produces from the same arguments
        return comp_names_from_text(parser, conc_cells, keys)


def comp_names_from_text(parser, conc_cells, keys):
    import contextlib
    import warnings
    from t4_geom_convert.Kernel.FileHandlers.Writer.WriteT4Composition import \
        writeT4Composition
    buf = io.StringIO()
    with warnings.catch_warnings(), contextlib.redirect_stdout(io.StringIO()):
        warnings.simplefilter('ignore')
        writeT4Composition(parser, conc_cells, buf)
    names = {k: [] for k in keys}
    for comp in impl.T4File(buf.getvalue()).compositions:
        tok = c09_oracle.parse_name(comp['name'])
        if comp['name'] != 'm0' and tok and int(tok[0]) in names:
            names[int(tok[0])].append(comp['name'])
    return [(k, names[k]) for k in keys]


def pointwise_from_text(text):
    '''[(name, [(nuclide, amount)])] of the POINT_WISE blocks of a COMPOSITION
    text (fallback when the composition records cannot be read field by field).'''
    out = []
    for comp in impl.T4File(text).compositions:
        if comp['type'] == 'POINT_WISE' and comp['name'] != 'm0':
            out.append((comp['name'], [(a, b) for a, b in comp['items']]))
    return out


def ccomp(out):
    return clist(cpair(cz(k), clist(cstr(n) for n in names))
                 for k, names in out)


def oracle_comp(cells, out):
    '''Every live level-0 cell of a material with a card has a composition
    named after it; names are unique; nothing else is emitted.'''
    from t4_geom_convert.Kernel.Utils import normalize_float
    names = [n for _, ns in out for n in ns]
    if len(set(names)) != len(names):
        return f'duplicate composition names {names}'
    want = set()
    for c in cells.values():
        if c['imp'] > 0 and c['univ'] == 0 and c['fill'] is None \
                and int(c['mat']) in COMP_KEYS and c['dens'] is not None:
            want.add(f'm{int(c["mat"])}_{normalize_float(c["dens"])}')
    if want != set(names):
        return f'compositions {sorted(names)}, live cells need {sorted(want)}'
    return None


def tie_comp(res, tier, rng, real):
    n = 160 if tier == 'quick' else 2500
    cases, meta = [], []
    with impl.mip_parser(COMP_DECK) as parser:
        for _ in range(n):
            cells = c09_gen.gen_cells(rng)
            out = guarded(impl_comp, parser, concrete_cells(cells), COMP_KEYS)
            cases.append(cpair(clist(cz(k) for k in COMP_KEYS), cdict(cells),
                               cres(out, ccomp)))
            meta.append((cells, out, None))
            res.seen(('comp', list(cells.items())))
            res.count('comp:' + (out[1] if out[0] == 'err' else 'ok'))
            if out[0] == 'ok':
                why = oracle_comp(cells, out[1])
                if why:
                    res.violation('impl-violation', f'COMPOSITION: {why}',
                                  {'input': {'cells': cells},
                                   'observed': out[1]}, found_input=True)
    for deck_text, _vols, cells_real, t4 in real:
        cells = abstract_cells(cells_real)
        if cells is None:
            continue
        keys, names = [], {}
        for m in re.finditer(r'(?m)^m(\d+) ', deck_text):
            keys.append(int(m.group(1)))
        for comp in t4.compositions:
            tok = c09_oracle.parse_name(comp['name'])
            if comp['name'] != 'm0':
                names.setdefault(int(tok[0]), []).append(comp['name'])
        out = ('ok', [(k, names.get(k, [])) for k in keys])
        cases.append(cpair(clist(cz(k) for k in keys), cdict(cells),
                           cres(out, ccomp)))
        meta.append((cells, out, deck_text))
        res.count('comp:real-deck')
    bad, errs = run_cases(
        'c09_comp', HEADER,
        'list Z * dict cell * res (list (Z * list string))',
        'check_comp_all', cases, chunk=40)
    res.obligation(f'tie:comp ({len(cases)} dictionaries, {len(real)} of them '
                   'from whole conversions: composition names per material)',
                   not bad and not errs, f'{len(bad)} disagreements {errs[:1]}')
    for idx in bad[:10]:
        cells, out, deck_text = meta[idx]
        payload = {'cells': cells}
        if deck_text:
            payload['deck'] = deck_text
        res.violation('correspondence',
                      f'composition names differ from the model: impl '
                      f'{str(out)[:300]}',
                      {'input': payload, 'observed': out,
                       'theorem_or_correspondence': 'tie:comp'},
                      found_input=False)


def ctext(text):
    '''A text with newlines as a Coq term over the model's [nl].'''
    return '(' + ' ++ nl ++ '.join(cstr(part) for part in text.split('\n')) + ')'


def tie_writecomp(res, tier, rng):
    '''writeT4Composition byte for byte on synthetic dictionaries vs
    Model.write_compositions (nuclide lists and rescaled concentrations are
    C10's and are handed to the model as data).'''
    import contextlib
    import warnings
    from t4_geom_convert.Kernel.Composition.ConstructCompositionT4 import \
        constructCompositionT4
    from t4_geom_convert.Kernel.FileHandlers.Writer.WriteT4Composition import \
        writeT4Composition
    convert_cards = repo_attr(
        't4_geom_convert.Kernel.Composition.CompositionConversionMCNPToT4',
        'compositionConversionMCNPToT4')
    fractions_of = repo_attr(
        't4_geom_convert.Kernel.Composition.ConstructCompositionT4',
        'extract_isotopes_fractions')
    n = 150 if tier == 'quick' else 1500
    cases, meta = [], []
    with impl.mip_parser(COMP_DECK) as parser:
        # the cards of COMP_DECK as data (C10's business): from the two helpers
        # when they exist, else the values they give on the unchanged code
        card_data = COMP_CARDS
        if convert_cards is not None and fractions_of is not None:
            try:
                card_data = [(k, bool(v.atom_fracs),
                              list(fractions_of(v.isotopes)))
                             for k, v in convert_cards(parser).items()]
            except (AttributeError, TypeError):
                card_data = COMP_CARDS
        else:
            skip_helper(res, 'tie:writecomp (card data from constants)',
                        'compositionConversionMCNPToT4 / '
                        'extract_isotopes_fractions')
        mcs = clist(
            f'(mkMcard {cz(k)} {cbool(atom)} '
            + clist(cpair(cstr(a), cstr(b)) for a, b in fracs) + ')'
            for k, atom, fracs in card_data)
        for _ in range(n):
            cells = c09_gen.gen_cells(rng)
            conc = concrete_cells(cells)

            def call():
                buf = io.StringIO()
                with warnings.catch_warnings(), \
                        contextlib.redirect_stdout(io.StringIO()):
                    warnings.simplefilter('ignore')
                    writeT4Composition(parser, conc, buf)
                    comps = constructCompositionT4(parser, conc)
                return buf.getvalue(), comps
            out = guarded(call)
            pw = []
            if out[0] == 'ok':
                text = out[1][0]
                try:
                    for key, lst in out[1][1].items():
                        for comp in lst:
                            if comp.typeDensity == 'POINT_WISE':
                                pw.append((comp.material + '_'
                                           + comp.valueOfDensity,
                                           [tuple(x) for x in
                                            comp.listMaterialComposition]))
                except (AttributeError, TypeError):
                    pw = pointwise_from_text(text)
                    if not res.extra.get('writecomp_pw_from_text'):
                        res.extra['writecomp_pw_from_text'] = True
                        skip_helper(res, 'tie:writecomp (concentrations read '
                                    'from the text)', 'CCompositionT4 fields')
                expected = f'(Ok {ctext(text)})'
                n_blocks = text.count(' 300 ')
                res.count(f'writecomp:blocks-{min(n_blocks, 6)}')
                # the property on the written text itself
                lines = text.split('\n')
                if int(lines[2]) != n_blocks:
                    res.violation('impl-violation',
                                  f'COMPOSITION count line {lines[2]} but '
                                  f'{n_blocks} blocks', {'input': {'cells': cells}},
                                  found_input=True)
            else:
                expected = f'(Err {out[1]})'
                res.count('writecomp:' + out[1])
            cases.append(cpair(
                mcs, cdict(cells),
                clist(cpair(cstr(name), clist(cpair(cstr(a), cstr(b))
                                              for a, b in isos))
                      for name, isos in pw), expected))
            meta.append((cells, out if out[0] == 'err' else ('ok', out[1][0])))
            res.seen(('writecomp', list(cells.items())))
    bad, errs = run_cases(
        'c09_wcomp', HEADER,
        'list mcard * dict cell * list (string * list (string * string)) * '
        'res string', 'check_write_comp', cases, chunk=40)
    res.obligation(f'tie:writecomp ({len(cases)} dictionaries: the text '
                   'writeT4Composition writes, byte for byte)',
                   not bad and not errs, f'{len(bad)} disagreements {errs[:1]}')
    for idx in bad[:10]:
        cells, out = meta[idx]
        res.violation('correspondence',
                      f'writeT4Composition differs from the model: impl '
                      f'{str(out)[:300]}',
                      {'input': {'cells': cells}, 'observed': str(out),
                       'theorem_or_correspondence': 'tie:writecomp'},
                      found_input=False)


# ---------------------------------------------------------------------------
# pipeline (parse -> develop_lattice -> pot_fill) modulo key numbering
# ---------------------------------------------------------------------------

def cell_signature(cells, c):
    def md(k):
        return (cells[k]['mat'], cells[k]['dens'])
    return (c['mat'], c['dens'], c['imp'],
            [md(a) + md(b) for a, b in c['origin']])


def csig(sig):
    mat, dens, imp, chain = sig
    return cpair(cstr(mat), copt(dens, cstr), cz(imp),
                 clist(cpair(cpair(cstr(a), copt(b, cstr)),
                             cpair(cstr(c), copt(d, cstr)))
                       for a, b, c, d in chain))


def tie_pipeline(res, tier, rng, real):
    ParseMCNPCell = repo_attr(PARSER_MOD, 'ParseMCNPCell')
    LatticeSpec = repo_attr('t4_geom_convert.Kernel.Volume.Lattice',
                            'LatticeSpec')
    parse_lattice = repo_attr('t4_geom_convert.main', 'parse_lattice')
    if None in (ParseMCNPCell, LatticeSpec, parse_lattice) \
            or not hasattr(ParseMCNPCell, 'parse'):
        skip_helper(res, 'tie:pipeline',
                    'ParseMCNPCell.parse / LatticeSpec / main.parse_lattice')
        return
    cases, meta = [], []
    for deck_text, _vols, cells_real, _t4, args in real:
        lattice_opts = [args[i + 1] for i, a in enumerate(args)
                        if a == '--lattice']
        with impl.mip_parser(deck_text) as parser:
            parsed, _ = ParseMCNPCell(parser, None,
                                      parse_lattice(lattice_opts)).parse()
        lats = []
        for key, c in parsed.items():
            if isinstance(c.fillid, LatticeSpec):
                lats.append((key, [int(u) for _, u in c.fillid.items()]))
                c.fillid = None      # replaced by the array in the model call
        start = abstract_cells(parsed)
        final = abstract_cells(cells_real)
        if start is None or final is None:
            continue
        sigs = [cell_signature(final, c) for c in final.values()
                if c['univ'] == 0 and c['fill'] is None and c['origin']]
        cases.append(cpair(
            cdict(start), cz(max(start) + 1),
            clist(cpair(cz(k), clist(cz(u) for u in us)) for k, us in lats),
            clist(csig(s) for s in sigs)))
        meta.append(deck_text)
        res.count('pipeline:' + ('lattice' if lats else 'fill-only'))
    bad, errs = run_cases(
        'c09_pipe', HEADER,
        'dict cell * Z * list (Z * list Z) * list cell_sig', 'check_pipeline',
        cases, chunk=25)
    res.obligation(f'tie:pipeline ({len(cases)} whole conversions: material, '
                   'density, importance and provenance chain of every level-0 '
                   'cell made by pot_fill, modulo key numbering)',
                   not bad and not errs, f'{len(bad)} disagreements {errs[:1]}')
    for idx in bad[:10]:
        res.violation('correspondence',
                      'cells made by develop_lattice/pot_fill differ from the '
                      'model on a generated deck',
                      {'input': {'deck': meta[idx]},
                       'theorem_or_correspondence': 'tie:pipeline'},
                      found_input=False)


# ---------------------------------------------------------------------------
# known-finding witnesses
# ---------------------------------------------------------------------------

def witness_deck(cells, mats='m1 1001 2 8016 1\n'):
    surfs = ''.join(f'{k} so {k}\n' for k in range(1, len(cells) + 1))
    body = ''
    for k, (mat, rho) in enumerate(cells, 1):
        inner = f'{k - 1} ' if k > 1 else ''
        body += f'{k} {mat} {rho} {inner}-{k} imp:n=1\n'
    body += f'{len(cells) + 1} 0 {len(cells)} imp:n=0\n'
    return 'C09 witness\n' + body + '\n' + surfs + '\n' + mats


def witnesses(res):
    # DESIGN §8 #9
    text = witness_deck([('1', '-1.0'), ('1', '-1.00')])
    conv = impl.convert(text)
    names = [c['name'] for c in impl.T4File(conv.text).compositions] \
        if conv.ok else None
    if names is None or len([n for n in names if n != 'm0']) != 1:
        res.violation('impl-violation',
                      'densities -1.0 and -1.00 of material 1 give '
                      f'compositions {names}',
                      {'input': {'deck': text}, 'observed': names},
                      found_input=True)       # repaired in /repo (6d1467b)
    # zeros padded before an exponent are never removed
    text = witness_deck([('1', '-1.5e-3'), ('1', '-1.50e-3')])
    conv = impl.convert(text)
    names = [c['name'] for c in impl.T4File(conv.text).compositions] \
        if conv.ok else None
    if names is None or len([n for n in names if n != 'm0']) != 1:
        res.violation('impl-violation',
                      'densities -1.5e-3 and -1.50e-3 of material 1 give '
                      f'compositions {names}',
                      {'input': {'deck': text}, 'observed': names},
                      found_input=True)       # repaired in /repo (bd76c8d)
    # 4.0e0 -> '4.0e'
    text = witness_deck([('1', '4.0e0')])
    conv = impl.convert(text)
    t4 = impl.T4File(conv.text) if conv.ok else None
    good = False
    if t4 is not None:
        toks = [c09_oracle.parse_name(n) for n, _ in t4.geomcomp if n != 'm0']
        try:
            good = len(toks) == 1 and float(toks[0][1]) == 4.0
        except (ValueError, TypeError):
            good = False
    if not good:
        res.violation('impl-violation',
                      'density 4.0e0: ' + (f'{conv.exc}: {conv.msg[:120]}'
                                           if not conv.ok else
                                           f'GEOMCOMP {t4.geomcomp}'),
                      {'input': {'deck': text}},
                      found_input=True)       # repaired in /repo (6d1467b)
    # LIKE n BUT MAT=0: a void copy keeps the base density
    text = ('C09 witness\n1 1 -1.0 -1 imp:n=1\n'
            '2 like 1 but mat=0 trcl=(3 0 0)\n3 0 1 #2 imp:n=0\n\n1 so 1\n\n'
            'm1 1001 2 8016 1\n')
    conv = impl.convert(text)
    lines = impl.T4File(conv.text).geomcomp if conv.ok else None
    owner = [n for n, ids in (lines or []) if 2 in ids]
    if owner != ['m0']:
        res.violation('impl-violation',
                      'LIKE 1 BUT MAT=0 (base cell of material 1, density '
                      f'-1.0): the void copy is attached to {owner} '
                      f'(GEOMCOMP {lines})',
                      {'input': {'deck': text}, 'observed': lines},
                      found_input=True)       # repaired in /repo (ac9102a)
    # DESIGN §8 #16
    text = witness_deck([('01', '-1.0')])
    conv = impl.convert(text)
    if conv.ok:
        t4 = impl.T4File(conv.text)
        comp = {c['name'] for c in t4.compositions}
        missing = [n for n, _ in t4.geomcomp if n not in comp]
    if not conv.ok or missing:
        res.violation('impl-violation',
                      'cell material written 01: '
                      + (f'GEOMCOMP names {missing} have no composition '
                         f'({sorted(comp)})' if conv.ok else str(conv)),
                      {'input': {'deck': text}},
                      found_input=True)       # repaired in /repo (d8902ad)


def name_value(name):
    '''(material number, density value) of a composition name; names are
    compared numerically so that a change of the normal form of a density is
    not a failure as long as one density keeps one name.'''
    tok = c09_oracle.parse_name(name)
    if tok is None:
        return name
    try:
        return (int(tok[0]), None if tok[1] is None else float(tok[1]))
    except ValueError:
        return name


def corpus(res):
    '''Hand-written decks: every probe point must lie in exactly one volume
    and that volume must be attached to the expected composition; the
    COMPOSITION block must hold exactly the expected names (+ m0).'''
    import t4eval
    n_ok = 0
    runs = [(name, text, args + extra, probes, comps)
            for name, text, args, probes, comps in c09_corpus.CORPUS
            for extra in c09_corpus.VARIANTS]
    for name, text, args, probes, comps in runs:
        res.seen(('corpus', name, tuple(args)), nontrivial=True)
        res.count('corpus:conversions')
        conv = impl.convert(text, args)
        if not conv.ok:
            res.violation('impl-violation',
                          f'corpus deck {name} {args} rejected: {conv.exc}: '
                          f'{conv.msg[:200]}', {'input': {'deck': text}},
                          found_input=True)
            continue
        t4 = impl.T4File(conv.text)
        comp_of = {}
        for line, vols in t4.geomcomp:
            for vid in vols:
                comp_of.setdefault(vid, []).append(line)
        ev = t4eval.Evaluator(t4, eps=1e-6)
        good = True
        for point, want in probes:
            owners = ev.owners(point)
            got = [comp_of.get(v) for v in owners]
            if [[name_value(x) for x in (g or [])] for g in got] \
                    != [[name_value(want)]]:
                good = False
                res.violation('impl-violation',
                              f'corpus deck {name} {args}: point {point} lies in '
                              f'volume(s) {owners} attached to {got}, expected '
                              f'{want}', {'input': {'deck': text,
                                                    'point': list(point)}},
                              found_input=True)
        have = {c['name'] for c in t4.compositions} - {'m0'}
        for comp in t4.compositions:
            why = c09_oracle.block_density_failure(comp)
            if why:
                good = False
                res.violation('impl-violation',
                              f'corpus deck {name} {args}: {why}',
                              {'input': {'deck': text, 'args': args}},
                              found_input=True)
        orphans = [n for n, _ in t4.geomcomp if n != 'm0' and n not in have]
        if orphans:
            good = False
            res.violation('impl-violation',
                          f'corpus deck {name} {args}: GEOMCOMP lines {orphans} '
                          f'have no COMPOSITION of that name ({sorted(have)})',
                          {'input': {'deck': text, 'args': args}},
                          found_input=True)
        if len(have) != len(comps) or {name_value(x) for x in have} \
                != {name_value(x) for x in comps}:
            good = False
            res.violation('impl-violation',
                          f'corpus deck {name} {args}: compositions {sorted(have)}, '
                          f'expected {sorted(comps)}',
                          {'input': {'deck': text}}, found_input=True)
        n_ok += good
    res.obligation(f'corpus ({len(c09_corpus.CORPUS)} hand-written decks, each '
                   f'in {len(c09_corpus.VARIANTS)} inlining modes: probe '
                   'points and composition sets)', n_ok == len(runs),
                   f'{n_ok} of {len(runs)} conversions as expected')


# ---------------------------------------------------------------------------
# sweep
# ---------------------------------------------------------------------------

def sweep_decks(res, tier, rng):
    n_decks = 90 if tier == 'quick' else 750
    n_points = 150 if tier == 'quick' else 400
    real = []
    totals = {}
    for i in range(n_decks):
        wild = i % 5 == 4
        deck = c09_gen.gen_deck(rng, wild=wild)
        text = deckmod.render(deck)
        args = deckmod.lattice_args(deck)
        if i % 7 == 3:
            args = args + ['--always-inline-filling']
        if i % 11 == 5:
            args = args + ['--skip-deduplication']
        conv, box = c09_oracle.capture_convert(text, args)
        res.seen(('deck', text), nontrivial=True)
        for feat in deck['features']:
            res.count('deck:' + feat)
        res.count('deck:wild' if wild else 'deck:in-guard')
        if not conv.ok:
            res.violation('impl-violation',
                          f'generated deck rejected: {conv.exc}: '
                          f'{conv.msg[:200]}',
                          {'input': {'deck': text, 'args': args}},
                          found_input=True)
            continue
        t4 = impl.T4File(conv.text)
        stats, failures = c09_oracle.check_file(deck, t4, rng, n_points)
        failures += c09_oracle.static_spelling_check(deck, t4)
        for key, val in stats.items():
            totals[key] = totals.get(key, 0) + val
        for f in failures:
            cls = None
            res.violation('impl-violation', f'{f["kind"]}: {f["why"]}',
                          {'input': {'deck': text, 'args': args,
                                     'point': f.get('point')},
                           'kind': f['kind']}, cls=cls, found_input=True)
        if 'vols' in box:
            real.append((text, box['vols'], box['cells'], t4, args))
        if i == 0:
            res.sample({'deck': text, 'geomcomp': t4.geomcomp,
                        'compositions': [c['name'] for c in t4.compositions]})
    for key, val in totals.items():
        res.count('sweep:' + key, val)
    res.evaluations += totals.get('joined', 0)
    res.obligation(f'sweep:decks ({n_decks} conversions, '
                   f'{totals.get("joined", 0)} points joined with GEOMCOMP, '
                   f'{totals.get("nested", 0)} in nested universes, '
                   f'{totals.get("lattice-own", 0)} in lattice elements of '
                   f'the lattice\'s own universe, {totals.get("like", 0)} in '
                   f'LIKE n BUT cells, {totals.get("like-chain", 0)} of them '
                   'LIKE a LIKE cell)',
                   totals.get('joined', 0) > 0 and totals.get('nested', 0) > 0
                   and totals.get('like-chain', 0) > 0,
                   'no point could be joined' if not totals.get('joined')
                   else '')
    return real


def _run(res, tier, seed, proofs_ok, cov):
    rng = random.Random(seed)
    res.rule = ('(1) every string of length <= 6/7 over 012.-+ed, doctests, '
                'structured spellings (sign, integer part, kept fraction, '
                'padding zeros, exponent with e/E/d/D/sign-only marker; a '
                'third with empty fraction or all-zero exponent) and random '
                'strings; (2) synthetic cell dictionaries (2-12 cells, 1-4 '
                'universes, acyclic fills, one in ten cyclic; material tokens '
                'with leading zero or sign; 27 density spellings); (3) '
                'generated decks: BSP partitions per universe, nesting depth '
                '<= 3, FILL with translations/rotations/TR cards, 1-3-D '
                'lattices naming their own universe, LIKE n BUT with '
                'MAT/RHO, 1-3 densities per material each under several '
                'spellings, one deck in five with out-of-guard spellings; '
                'non-trivial = string longer than one character, dictionary '
                'with at least one new cell or an error, any deck')
    with cov:
        witnesses(res)
        corpus(res)
    tie_norm(res, tier, rng)
    sweep_spellings(res, tier, rng)
    with cov:
        tie_material(res, tier, rng)
        tie_likebut(res, tier, rng)
        tie_likechain(res, tier, rng)
        tie_fill(res, tier, rng)
    real = sweep_decks(res, tier, rng)
    with cov:
        tie_geomcomp(res, tier, rng, [r[:4] for r in real])
        tie_comp(res, tier, rng, [r[:4] for r in real])
    tie_pipeline(res, tier, rng, real)
    with cov:
        tie_writecomp(res, tier, rng)
    # a tie that could not be evaluated (coqc error, empty sweep) must not pass
    # silently: the driver only counts violations
    if not res.violations or all(v.get('class') for v in res.violations):
        for name, ok, detail in res.obligations:
            if not ok and (name.startswith('tie:') or name.startswith('sweep:')):
                res.violation('correspondence',
                              f'{name} could not be discharged: {detail[:300]}',
                              {'theorem_or_correspondence': name,
                               'detail': detail[:1500]}, found_input=False)



def run(res, tier, seed, proofs_ok):
    '''Witnesses, corpus and function-level ties run under a line-coverage
    tracer restricted to the anchored functions: every line of them that is
    not listed as outside the material path must be executed.'''
    import c09_cov
    try:
        funcs, absent = c09_cov.anchored_functions()
        cov = c09_cov.LineCov(funcs)
    except Exception as exc:        # coverage is information only
        cov, absent = c09_cov.NoCov(), [f'coverage disabled: {exc!r}']
    _run(res, tier, seed, proofs_ok, cov)
    try:
        total, missing = cov.missing(c09_cov.UNREACHABLE)
    except Exception as exc:
        total, missing, absent = 0, [], absent + [f'coverage failed: {exc!r}']
    if absent:
        res.extra['coverage_functions_not_present'] = absent
    res.obligation('coverage: witnesses, corpus and function-level ties '
                   'execute every line of the anchored functions '
                   f'({total} lines of {len(cov.codes)} code objects: '
                   'normalize_float, parse_material, parse_one_cell, apply_but, '
                   'pot_fill, constructGeomCompT4, writeT4GeomComp, '
                   'constructCompositionT4, writeT4Composition)', not missing,
                   f'never executed: {missing[:6]}')
    res.extra['anchored_lines'] = total
    if missing:
        res.violation('harness-error',
                      'generated inputs no longer reach these lines of the '
                      f'anchored code: {missing[:8]}',
                      {'theorem_or_correspondence': 'coverage',
                       'input': {'lines': [list(m) for m in missing[:20]]}},
                      found_input=False)


def replay(path):
    '''Re-run the recorded input through the implementation, the model and
    the oracle.'''
    data = json.load(open(path))
    inp = data.get('input', {})
    rng = random.Random(data.get('seed', 0))
    if 'deck' in inp:
        conv = impl.convert(inp['deck'], inp.get('args') or [])
        print('conversion:', conv)
        if conv.text:
            t4 = impl.T4File(conv.text)
            print('GEOMCOMP:', t4.geomcomp)
            print('COMPOSITION:', [c['name'] for c in t4.compositions])
            if inp.get('point'):
                print('owners of the point:',
                      __import__('t4eval').Evaluator(t4).owners(inp['point']))
    for s in ([inp['spelling']] if 'spelling' in inp else []) \
            + inp.get('spellings', []):
        print(f'normalize_float({s!r}): implementation', impl_norm(s),
              'model', common.coq_eval(HEADER, f'norm_out {cstr(s)}')[0])
    if 'material' in inp:
        from t4_geom_convert.Kernel.FileHandlers.Parser.ParseMCNPCell import \
            ParseMCNPCell
        print('parse_material:', guarded(ParseMCNPCell.parse_material,
                                         inp['material']))
        if 'options' in inp:
            with impl.mip_parser(COMP_DECK) as parser:
                one_cell = getattr(make_worker(parser),
                                   'parse_one_cell_worker', None)
                cell = ('err', 'helper not present') if one_cell is None \
                    else guarded(one_cell, 0, None,
                                 (inp['material'], '-1', inp['options']))
            print('parse_one_cell_worker:', cell if cell[0] == 'err' else
                  (cell[1].materialID, cell[1].density))
    if 'cells' in inp and 'vols' not in inp and 'deck' not in inp:
        cells = OrderedDict((int(k), v) for k, v in inp['cells'].items())
        for c in cells.values():
            c['origin'] = [tuple(p) for p in c['origin']]
        print('pot_fill:', guarded(impl_treat_fill, cells))
        print('model:', common.coq_eval(
            HEADER, f'run_treat_fill {cdict(cells)} {cz(max(cells) + 1)}')[0])
    print('recorded:', data.get('what'))
    return 0
