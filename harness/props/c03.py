'''C03 — macrobodies: interior, exterior and numbered facets.

Theorems: coq/Properties/C03.v.  Ties (correspondence by execution):
  body    : MacroBodies.box/rpp/sph/rcc/rhp/rec/trc/ell/wed/arb on generated
            parameter vectors  vs  Model.body_parts at binary64 (type,
            parameters at 1e-9, side of every entry; exception class)
  macro   : ParseMCNPSurface.to_surfaces_macro (dispatch incl. HEX, number,
            order and side of the facets, type after conversion) vs the model
  facet   : MacroBodies.parse_facet vs Model.parse_facet
  number  : CollectionDict.number_items vs Model.number_items
  expand  : CellConversion.pot_expand_surfs on surface leaves (-b, +b, b.k,
            k = 0..9) vs Model.expand
Independent oracle (sweep): probe decks with cells -b, +b, -b.k, +b.k converted
end to end (impl.convert), membership in the written volumes (t4eval) against
mcnpref.macro_facets at random points and at points just inside / outside
every facet; about a third of the bodies carry a TR number on their surface
card (to_surfaces_macro hands the transformation to every facet).  A second
sweep moves cells that reference ONE body in several ways (-b.j b.k, -b and b.k
in sibling cells, ...) by TRCL (inline, by number, starred, translation only)
or places them as a universe by FILL with a transformation (pot_transform).'''
import json
import random

import numpy as np

import common
import impl
import t4eval
import c03_gen as G
from common import clist, cfloat, cpair, cn, cz, cnat, copt

# every theorem of coq/Properties/C03.v is a member of exactly one family; the
# families are conjunctions of the member theorems themselves, so one Print
# Assumptions per family audits all of them
THEOREMS = [
    'C03_family_facets',
    'C03_family_inside',
    'C03_family_written',
    'C03_family_references',
    'C03_family_linked',
]
MEMBERS = [
    'C03_box_facet_k',
    'C03_box_inside',
    'C03_box_general_inside',
    'C03_rpp_facet_k',
    'C03_rpp_inside',
    'C03_sph_facet_k',
    'C03_sph_inside',
    'C03_rcc_facet_k',
    'C03_rcc_inside',
    'C03_rhp15_facet_k',
    'C03_rhp15_inside',
    'C03_rhp9_facet_k',
    'C03_rhp9_inside',
    'C03_rhp9_regular',
    'C03_hex_is_rhp',
    'C03_rec12_facet_k',
    'C03_rec12_inside',
    'C03_rec10_facet_k',
    'C03_rec10_inside',
    'C03_rec12_solid',
    'C03_rec10_solid',
    'C03_trc_facet_k',
    'C03_trc_inside',
    'C03_trc_solid',
    'C03_ell_axis_facet_k',
    'C03_ell_axis_inside',
    'C03_ell_foci_facet_k',
    'C03_ell_foci_inside',
    'C03_wed_facet_k',
    'C03_wed_inside',
    'C03_arb_facet_k',
    'C03_arb_inside',
    'C03_arb_centroid_inside',
    'C03_parse_facet_digits',
    'C03_wrong_count_rejected',
    'C03_arb_wrong_descriptor_count',
    'C03_trc_equal_radii_error',
    'C03_sides_pm1',
    'C03_number_one',
    'C03_number_items_distinct',
    'C03_expand_macro_den',
    'C03_expand_facet_zero_is_last',
    'C03_convert_entry_sound',
    'C03_written_inside',
    'C03_box_written',
    'C03_rpp_written',
    'C03_sph_written',
    'C03_rcc_written',
    'C03_rhp15_written',
    'C03_rhp9_written',
    'C03_rec12_written',
    'C03_rec10_written',
    'C03_trc_written',
    'C03_ell_axis_written',
    'C03_ell_foci_written',
    'C03_wed_written',
    'C03_arb_written',
    'C03_box_written_solid',
    'C03_wed_written_solid',
    'C03_box_general_facet_k',
    'C03_box_general_written',
    'C03_para_facets_right',
    'C03_pot_transform_facet',
    'C03_pot_transform_whole',
    'C03_pot_transform_out_of_range',
    'C03_expand_macro_den_written',
    'C03_card_transformation_linked',
    'C03_written_linked',
    'C03_bodies_written_linked',
    'C03_abbreviated_card_linked',
    'C03_six_entry_card_linked',
    'C03_trcl_by_number_linked',
    'C03_expand_macro_den_written_linked',
    'C03_arb_tetra_hull',
    'C03_arb_tetra_solid',
    'C03_card_gives_canonical_linked',
    'C03_six_entry_cols_card_linked',
    'C03_three_entry_row_card_linked',
    'C03_three_entry_col_card_linked',
    'C03_five_entry_card_linked',
    'C03_fill_by_number_linked',
    'C03_starred_inline_linked',
    'C03_starred_abbreviated_card_linked',
    'C03_facet_survives_dedup_linked',
    'C03_facet_locus_survives_dedup_linked',
]
TRUSTED = [
    'hand-written model coq/C03/Vec.v + Model.v + Convert.v (modelled, tied by execution '
    'only); numpy matmul in transformation_quad modelled as a plain 4x4 '
    'product; x**2 modelled as x*x; math.cos/sin/sqrt vs the binary64 series '
    'of Base/Scalar.v absorbed by the 1e-9 tolerance',
    'Spec coq/C03/SpecT4.v: reading of the TRIPOLI-4 SURF types (DESIGN '
    'Appendix B) and of a transformation as p -> B (p - O); that the matrix '
    'the converter uses is orthogonal is no longer assumed for well-formed '
    'sources: it is derived from C04 (coq/C03/LinkC04.v: TR cards with 12/13/3 '
    'entries, plain or starred, abbreviated matrices with 6/5/3 entries, '
    'inline TRCL/FILL with 12 entries or by number) under C04\'s clip_ok_m '
    'hypothesis (no matrix entry strictly between 0 and 1e-10)',
    'C04 and C13 models (coq/C04/Model.v tr_card/parse_trcl/parse_fill_tr, '
    'coq/C13/Model.v remove_duplicate_surfaces) as tied by their own checks: '
    'used by the _linked theorems only',
    'Spec coq/C03/Spec.v: MCNP facet numbering and outward orientation as in '
    'DESIGN Appendix A; ELL with a positive last entry specified as MCNP '
    'behaves according to the source comment of MacroBodies.ell (b^2 = L^2 - '
    '(L-|f|)^2), not as the manual words it',
    'TRC facet 1 is specified as the quadric cone (both sheets); whether '
    'MCNP keeps only the sheet of the frustum for a bare b.1 reference is not '
    'settled by the manual: sweep points beyond the apex are skipped for '
    '+-b.1 probes (counted as trc_facet1_other_sheet)',
    'harness: generators, mcnpref/t4eval/geomcheck oracles (the lattice '
    'reference takes the lattice vectors from the generator), impl.T4File '
    'reader, PEG shim replacing TatSu',
]
ASSUMPTIONS = [
    'no class of C03 is open: the left-handed WED defect (DESIGN 8 #20) was '
    'repaired in /repo (15c826d), the model follows the repaired code and '
    'the theorems cover both handednesses',
    'degenerate inputs of the malformed stream whose sign tests are decided '
    'at rounding level (flat ARB with the centroid on a facet plane, ...) are '
    'left out of tie:body (skipped:ill-conditioned)',
    'ARB facet descriptors are non-negative integers (parse_facet loops for '
    'ever on a negative descriptor; fractional digits are truncated by the '
    'code, the model takes integers)',
    'facet-numbering theorems hold under MCNP\'s admissibility guards (WED '
    'edges mutually orthogonal with non-zero mixed product; regular RHP facet '
    'vector orthogonal to the axis; TRC radii different and height non-zero; '
    'ARB facets not (almost) collinear and the vertex centroid off every '
    'facet plane); BOX needs only a non-zero mixed product '
    '(C03_box_general_*), REC only non-zero axes; written-surface theorems '
    'additionally need non-zero RHP facet vectors',
]
HEADER = ('From Coq Require Import List NArith ZArith Bool PrimFloat.\n'
          'From T4V Require Import Base.Scalar C03.Vec C03.Model C03.Convert '
          'C03.Exec.\n')

EPS = 1e-7


def run_cases(res, name, case_type, check_fun, cases):
    '''common.run_case_files, retried once with fewer parallel jobs when coqc
    itself failed (machine load), and a failure that persists is reported.'''
    bad, errs = common.run_case_files(name, HEADER, case_type, check_fun, cases)
    if errs:
        res.count(f'coqc-retry:{name}')
        bad, errs = common.run_case_files(name, HEADER, case_type, check_fun,
                                          cases, jobs=4)
    if errs:
        res.violation('correspondence',
                      f'coqc failed on the generated case files of {name}: '
                      f'{errs[0][-300:]}',
                      {'input': {'tie': name},
                       'theorem_or_correspondence': 'tie:' + name},
                      found_input=False)
    return bad, errs


COV = None       # line-coverage tracer (c03_cov), active around the tied calls


class _NoCov:
    def __enter__(self):
        return self

    def __exit__(self, *exc):
        return False


def cov():
    return COV if COV is not None else _NoCov()


def helper_ok(res, name, probe):
    '''Probe of a helper-level tie on one fixed input.  False (recorded in the
    evidence) when the helper is gone, renamed or re-signed.'''
    try:
        good = bool(probe())
    except Exception:      # pylint: disable=broad-except
        good = False
    if not good:
        res.count(f'skipped: helper {name} not present')
        res.extra.setdefault('skipped_helpers', []).append(name)
    return good


def _repo_funcs():
    from t4_geom_convert.Kernel.Surface import MacroBodies as MB
    return {'box': MB.box, 'rpp': MB.rpp, 'sph': MB.sph, 'rcc': MB.rcc,
            'rhp': MB.rhp, 'hex': MB.rhp, 'rec': MB.rec, 'trc': MB.trc,
            'ell': MB.ell, 'wed': MB.wed, 'arb': MB.arb}


ERRMAP = {'MacroBodyError': 'EMacroBody', 'ZeroDivisionError': 'EZeroDiv',
          'ValueError': 'EValue', 'IndexError': 'EIndex',
          'TypeError': 'EType', 'CellConversionError': 'ECellConv'}
TYPEMAP = {'P': 'TP', 'S': 'TS', 'C': 'TC', 'K': 'TK', 'GQ': 'TGQ'}


# ---- implementation side ---------------------------------------------------

def _impl_body_raw(mn, prm):
    '''The body function of MacroBodies.py on a list of floats.'''
    fun = _repo_funcs()[mn]
    try:
        parts = fun([float(x) for x in prm])
    except Exception as exc:      # pylint: disable=broad-except
        return ('err', ERRMAP.get(type(exc).__name__,
                                  'EOther_' + type(exc).__name__))
    return ('ok', [(typ.name, [float(x) for x in params], int(side))
                   for typ, params, side in parts])


def coq_body_out(out):
    if out[0] == 'err':
        return f'(Err {out[1]})'
    entries = clist(cpair(TYPEMAP.get(t, 'T_' + t), clist(cfloat(x) for x in p),
                          cz(s)) for t, p, s in out[1])
    return f'(Ok {entries})'


def split_params(mn, prm):
    '''(parameters for the model, ARB descriptors as integers) or None when
    the input is outside the model (ARB descriptor not a natural number).'''
    if mn != 'arb':
        return list(prm), []
    descr = prm[24:]
    for d in descr:
        if d < 0 or d != int(d) or d > 10 ** 9:
            return None
    return list(prm[:24]), [int(d) for d in descr]


def coq_body_case(mn, prm, out):
    split = split_params(mn, prm)
    if split is None:
        return None
    p, d = split
    return cpair(mn.upper(), clist(cfloat(x) for x in p),
                 clist(cn(x) for x in d), coq_body_out(out))


def has_nan(out):
    return out[0] == 'ok' and any(x != x or abs(x) == float('inf')
                                  for _, p, _ in out[1] for x in p)


def ill_conditioned(mn, prm):
    '''True when a sign test of the body function is decided at rounding
    level on this input (degenerate bodies of the malformed stream): the
    orientation then depends on the order of the floating-point operations,
    which a behaviour-preserving rewrite may change.  Such inputs are left out
    of tie:body (counted as skipped:ill-conditioned).'''
    try:
        v = [float(x) for x in prm]
        if mn in ('box', 'wed') and len(v) == 12:
            a, b, c = (np.array(v[3 + 3 * i:6 + 3 * i]) for i in range(3))
            scale = max(1.0, np.linalg.norm(a) * np.linalg.norm(b)
                        * np.linalg.norm(c))
            if mn == 'box':
                return 0 < abs(G.det3(a, b, c)) < 1e-9 * scale
            val = float(a @ np.cross(a - b, c))
            return 0 < abs(val) < 1e-9 * scale * max(1.0, np.linalg.norm(a))
        if mn == 'ell' and len(v) == 7:
            if v[6] > 0:
                axis = (np.array(v[0:3]) - np.array(v[3:6])) / 2
            else:
                axis = np.array(v[3:6])
            norm = np.linalg.norm(axis)
            if norm == 0:
                return False
            return any(abs(abs(1 - abs(x / norm)) - 1e-3) < 1e-9 for x in axis)
        if mn == 'arb' and len(v) == 30:
            from t4_geom_convert.Kernel.Surface.MacroBodies import parse_facet
            facets = [f for f in (parse_facet(d) for d in v[24:]) if f]
            nvert = len({i for f in facets for i in f})
            if nvert == 0:
                return False
            verts = [np.array(v[3 * i:3 * i + 3]) for i in range(8)][:nvert]
            cen = sum(verts) / nvert
            size = max(1.0, max(np.linalg.norm(q) for q in verts))
            for f in facets:
                if len(f) < 3 or max(f[:3]) >= len(verts):
                    continue
                p1, p2, p3 = (verts[i] for i in f[:3])
                nrm = np.cross(p1 - p2, p1 - p3)
                len2 = float(nrm @ nrm)
                if abs(len2 - 1e-10) < 1e-13:
                    return True
                if len2 <= 1e-10:
                    continue
                if abs(float(nrm @ (cen - p1))) / np.sqrt(len2) < 1e-9 * size:
                    return True
    except (ValueError, OverflowError, ZeroDivisionError):
        return False
    return False


# ---- sweep: probe decks ----------------------------------------------------

def n_facets(mn, prm):
    if mn == 'arb':
        return sum(1 for d in prm[24:30] if d)
    return G.NFACETS[mn]


def num(x):
    x = float(x)
    return repr(int(x)) if x == int(x) and abs(x) < 1e12 else repr(x)


def wrap(card, width=76):
    words = card.split(' ')
    lines, cur = [], ''
    for word in words:
        if cur and len(cur) + 1 + len(word) > width:
            lines.append(cur)
            cur = '      ' + word
        else:
            cur = word if not cur else cur + ' ' + word
    lines.append(cur)
    return '\n'.join(lines)


TR_ROTATIONS = [
    (1, 0, 0, 0, 1, 0, 0, 0, 1),
    (0, 1, 0, -1, 0, 0, 0, 0, 1),
    (0, 0, 1, 1, 0, 0, 0, 1, 0),
    (-1, 0, 0, 0, 0, 1, 0, 1, 0),
    (0.6, 0.8, 0, -0.8, 0.6, 0, 0, 0, 1),
    (0.6, 0, -0.8, 0, 1, 0, 0.8, 0, 0.6),
    (0, 0.28, 0.96, 0, -0.96, 0.28, 1, 0, 0),
]


def gen_tr(rng):
    '''(origin, matrix): TRn O1 O2 O3 B1..B9, M = 1; rows of B = the auxiliary
    axes in main coordinates (DESIGN Appendix A).'''
    origin = [rng.choice([-2.0, -1.0, -0.5, 0.0, 0.0, 0.75, 1.5, 3.0])
              for _ in range(3)]
    return origin, list(rng.choice(TR_ROTATIONS))


def to_main(tr, p_aux):
    origin, mat = tr
    rot = np.array(mat, float).reshape(3, 3)
    return list(map(float, np.array(origin) + rot.T @ np.asarray(p_aux, float)))


def probe_deck(bodies, extra_facets=(), trs=None):
    '''bodies: [(surface id, mnemonic, params)]. Returns (text, probes) with
    probes = [(cell id, surface id, sign, facet or None)].  trs: {surface id:
    (origin, matrix)}: the surface card then carries a TR number.'''
    trs = trs or {}
    cells, probes = [], []
    cid = 0
    for sid, mn, prm in bodies:
        refs = [(-1, None), (1, None)]
        for k in range(1, n_facets(mn, prm) + 1):
            refs += [(-1, k), (1, k)]
        for k in extra_facets:
            refs += [(-1, k)]
        for sign, k in refs:
            cid += 1
            ref = f'{"-" if sign < 0 else ""}{sid}' + (f'.{k}' if k is not None
                                                       else '')
            cells.append(f'{cid} 0 {ref} imp:n=1')
            probes.append((cid, sid, sign, k))
    surfs = [wrap(f'{sid} {str(sid) + " " if sid in trs else ""}{mn} '
                  + ' '.join(num(x) for x in prm))
             for sid, mn, prm in bodies]
    data = [wrap(f'tr{sid} ' + ' '.join(num(x) for x in tr[0] + tr[1]))
            for sid, tr in trs.items()]
    text = ('C03 probe deck\n' + '\n'.join(cells) + '\n\n' + '\n'.join(surfs)
            + '\n\n' + '\n'.join(data) + ('\n' if data else ''))
    return text, probes


def expected_membership(vals, sign, k):
    '''None when the point is too close to a relevant facet.'''
    if k is not None:
        v = vals[k - 1]
        if abs(v) < EPS:
            return None
        return (v > 0) if sign > 0 else (v < 0)
    if any(abs(v) < EPS for v in vals):
        return None
    inside = all(v < 0 for v in vals)
    return (not inside) if sign > 0 else inside


def sweep_deck(bodies, rng, n_random, n_near, trs=None):
    '''Convert a probe deck and compare. Returns dict(conv=, failures=[...],
    checked=int, skipped_sheet=int). A failure: dict(surface, mn, params,
    probe=(sign,k), point, expected, observed | error).'''
    trs = trs or {}
    text, probes = probe_deck(bodies, trs=trs)
    conv = impl.convert(text)
    out = {'text': text, 'conv': conv, 'failures': [], 'checked': 0,
           'skipped_sheet': 0}
    if not conv.ok or conv.text is None:
        return out
    t4 = impl.T4File(conv.text)
    if t4.errors:
        out['failures'].append({'error': f'unreadable file: {t4.errors[:2]}'})
        return out
    ev = t4eval.Evaluator(t4, eps=EPS)
    by_sid = {sid: (mn, prm) for sid, mn, prm in bodies}
    for sid, (mn, prm) in by_sid.items():
        facets = G.ref_facets(mn, prm)
        pts = G.sample_points(rng, mn, prm, facets, n_random, n_near)
        mine = [pr for pr in probes if pr[1] == sid]
        for cid, _, sign, k in mine:
            if cid not in t4.volumes:
                out['failures'].append({
                    'surface': sid, 'mn': mn, 'params': prm,
                    'probe': [sign, k],
                    'error': f'cell {cid} has no volume in the written file'})
        mine = [pr for pr in mine if pr[0] in t4.volumes]
        for p_aux in pts:
            vals = [f(p_aux) for f in facets]
            # the card is given in the auxiliary frame of its TR
            p = to_main(trs[sid], p_aux) if sid in trs else p_aux
            cache = {}
            for cid, _, sign, k in mine:
                want = expected_membership(vals, sign, k)
                if want is None:
                    continue
                if mn == 'trc' and k == 1 and G.trc_other_sheet(prm, p_aux):
                    out['skipped_sheet'] += 1
                    continue
                try:
                    got = ev.inside(cid, p, cache)
                except t4eval.T4EvalError as exc:
                    if 'within eps' in str(exc):
                        continue
                    out['failures'].append({
                        'surface': sid, 'mn': mn, 'params': prm,
                        'probe': [sign, k], 'point': list(p),
                        'aux': list(p_aux), 'tr': trs.get(sid),
                        'error': f'T4 evaluation: {exc}'})
                    continue
                out['checked'] += 1
                if got != want:
                    out['failures'].append({
                        'surface': sid, 'mn': mn, 'params': prm,
                        'probe': [sign, k], 'point': list(p),
                        'aux': list(p_aux), 'tr': trs.get(sid),
                        'expected': want, 'observed': got})
    return out


# ---- sweep of TRANSFORMED cells: several references to one body -----------
#
# pot_transform moves every surface reference of a cell that carries a TRCL, or
# of a universe placed by FILL with a transformation.  The facet number of a
# reference b.k must survive that step, also when the same body is referenced
# in several ways under the same transformation (-b.1 b.3, -b and b.2 in sibling
# cells, ...).  Expressions are small trees over literals (sign, k or None).

PERMUTATIONS = TR_ROTATIONS[:4]          # entries 0, +-1: exact angles for *TRCL


def lit_text(sid, lit):
    sign, k = lit
    return ('-' if sign < 0 else '') + str(sid) + ('' if k is None else f'.{k}')


def expr_text(sid, expr, top=True):
    if expr[0] == 'lit':
        return lit_text(sid, expr[1])
    if expr[0] == 'not':           # complement of an expression: #( ... )
        return '#(' + expr_text(sid, expr[1], True) + ')'
    if expr[0] == 'cell':          # complement of a sibling cell: #n
        return f'#{expr[1] + 1}'
    parts = [expr_text(sid, e, False) for e in expr[1]]
    if expr[0] == 'and':
        return ' '.join(parts)
    text = ' : '.join(parts)
    return text if top else '(' + text + ')'


def expr_lits(expr):
    if expr[0] == 'lit':
        return [expr[1]]
    if expr[0] == 'not':
        return expr_lits(expr[1])
    if expr[0] == 'cell':
        return expr_lits(expr[2])
    return [l for e in expr[1] for l in expr_lits(e)]


def expr_value(expr, vals):
    if expr[0] == 'lit':
        sign, k = expr[1]
        if k is None:
            inside = all(v < 0 for v in vals)
            return inside if sign < 0 else not inside
        return vals[k - 1] * sign > 0
    if expr[0] == 'not':
        return not expr_value(expr[1], vals)
    if expr[0] == 'cell':
        return not expr_value(expr[2], vals)
    sub = [expr_value(e, vals) for e in expr[1]]
    return all(sub) if expr[0] == 'and' else any(sub)


def expr_ambiguous(expr, vals):
    for _, k in expr_lits(expr):
        if k is None:
            if any(abs(v) < EPS for v in vals):
                return True
        elif abs(vals[k - 1]) < EPS:
            return True
    return False


def gen_exprs(rng, nfac, complement_cells=False):
    '''Expressions that reference one body in several ways: single references
    for sibling cells and combinations inside one cell.'''
    def lit(sign, k):
        return ('lit', (sign, k))
    ks = list(range(1, nfac + 1))
    rng.shuffle(ks)
    j, k, m = (ks * 3)[:3]
    exprs = [lit(-1, None), lit(1, j), lit(-1, k), lit(1, None)]
    exprs.append(('and', [lit(1, None), lit(-1, j)]))
    exprs.append(('or', [lit(-1, None), lit(1, k)]))
    if nfac >= 2:
        exprs += [('and', [lit(-1, j), lit(1, k)]),
                  ('or', [lit(1, j), lit(1, k)]),
                  ('and', [lit(-1, k), lit(-1, j), lit(1, None)]),
                  ('and', [lit(-1, j), ('or', [lit(1, k), lit(-1, m)])])]
    # complements of facets and of expressions holding facets (De Morgan in
    # the parser: Surface.inverse must keep the facet number)
    exprs += [('not', lit(1, j)), ('not', lit(-1, k)),
              ('and', [lit(1, None), ('not', lit(1, j))]),
              ('not', ('and', [lit(-1, j), lit(1, k)]) if nfac >= 2
               else lit(-1, None)),
              ('or', [('not', ('or', [lit(1, j), lit(-1, m)])), lit(1, k)])]
    rng.shuffle(exprs)
    exprs = exprs[:rng.choice([4, 6, 8])]
    if complement_cells:
        # "#n": the complement of a sibling cell that is defined with facets
        for _ in range(2):
            j0 = rng.randrange(len(exprs))
            if exprs[j0][0] != 'cell':
                exprs.append(('cell', j0, exprs[j0]))
    return exprs


def tr_words(tr):
    return ' '.join(num(x) for x in tr[0] + tr[1])


def gen_placement(rng, kind=None):
    '''How the cells are moved: (kind, tr, cell keyword text, data cards).'''
    kind = kind or rng.choice(['trcl-inline', 'trcl-inline', 'trcl-shift',
                               'trcl-num', 'trcl-star', 'fill-inline',
                               'fill-inline', 'fill-num', 'fill-shift',
                               'plain', 'plain'])
    origin, mat = gen_tr(rng)
    if kind.endswith('shift'):
        mat = list(TR_ROTATIONS[0])
    if kind == 'plain':          # no transformation at all
        origin, mat = [0.0, 0.0, 0.0], list(TR_ROTATIONS[0])
    if kind == 'trcl-star':
        mat = list(rng.choice(PERMUTATIONS))
    tr = (origin, mat)
    data = []
    if kind == 'plain':
        key = ''
    elif kind == 'trcl-inline':
        key = f'trcl=({tr_words(tr)})'
    elif kind == 'trcl-shift':
        key = 'trcl=(' + ' '.join(num(x) for x in origin) + ')'
    elif kind == 'trcl-num':
        key = 'trcl=7'
        data = [wrap('tr7 ' + tr_words(tr))]
    elif kind == 'trcl-star':
        degrees = {1: 0, 0: 90, -1: 180}
        key = ('*trcl=(' + ' '.join(num(x) for x in origin) + ' '
               + ' '.join(str(degrees[int(x)]) for x in mat) + ')')
    elif kind == 'fill-inline':
        key = f'fill=1 ({tr_words(tr)})'
    elif kind == 'fill-shift':
        key = 'fill=1 (' + ' '.join(num(x) for x in origin) + ')'
    else:
        key = 'fill=1 (7)'
        data = [wrap('tr7 ' + tr_words(tr))]
    return kind, tr, key, data


def transformed_deck(body, exprs, placement):
    '''Returns (text, {expression index: how to find its volume}).'''
    sid, mn, prm = body
    kind, _tr, key, data = placement
    cells, where = [], {}
    if kind.startswith('trcl') or kind == 'plain':
        for i, expr in enumerate(exprs):
            cid = i + 1
            cells.append(wrap(f'{cid} 0 {expr_text(sid, expr)} {key} imp:n=1'))
            where[i] = ('id', cid)
    else:
        for i, expr in enumerate(exprs):
            cid = i + 1
            cells.append(wrap(f'{cid} 0 {expr_text(sid, expr)} u=1 imp:n=1'))
            where[i] = ('comment', f'({cid}, 90)')
        cells.append(wrap(f'90 0 -999 {key} imp:n=1'))
        cells.append('91 0 999 imp:n=0')
    surfs = [wrap(f'{sid} {mn} ' + ' '.join(num(x) for x in prm))]
    if kind.startswith('fill'):
        surfs.append('999 so 500')
    text = ('C03 transformed cells\n' + '\n'.join(cells) + '\n\n'
            + '\n'.join(surfs) + '\n\n' + '\n'.join(data)
            + ('\n' if data else ''))
    return text, where


def sweep_transformed(body, rng, n_random, n_near, kind=None):
    '''One deck of cells moved by one transformation, all referencing the
    body in different ways.  Same result layout as sweep_deck.'''
    sid, mn, prm = body
    placement = gen_placement(rng, kind)
    kind, tr = placement[0], placement[1]
    # "#n" needs the referenced cell in the same frame: plain cells or cells of
    # one universe (a cell with its own TRCL is moved separately)
    exprs = gen_exprs(rng, n_facets(mn, prm),
                      complement_cells=not kind.startswith('trcl'))
    text, where = transformed_deck(body, exprs, placement)
    conv = impl.convert(text)
    out = {'text': text, 'conv': conv, 'failures': [], 'checked': 0,
           'skipped_sheet': 0, 'kind': kind}
    if not conv.ok or conv.text is None:
        return out
    t4 = impl.T4File(conv.text)
    if t4.errors:
        out['failures'].append({'error': f'unreadable file: {t4.errors[:2]}'})
        return out
    ev = t4eval.Evaluator(t4, eps=EPS)
    vols = {}
    for i, (how, what) in where.items():
        if how == 'id':
            vols[i] = [what] if what in t4.volumes else []
        else:
            vols[i] = [vid for vid, vol in t4.volumes.items()
                       if vol.get('comment', '').strip() == what
                       and not vol.get('fictive')]
    facets = G.ref_facets(mn, prm)
    pts = G.sample_points(rng, mn, prm, facets, n_random, n_near)
    for p_aux in pts:
        vals = [f(p_aux) for f in facets]
        p = to_main(tr, p_aux)
        cache = {}
        for i, expr in enumerate(exprs):
            if expr_ambiguous(expr, vals):
                continue
            if mn == 'trc' and G.trc_other_sheet(prm, p_aux) \
                    and any(k == 1 for _, k in expr_lits(expr)):
                out['skipped_sheet'] += 1
                continue
            want = expr_value(expr, vals)
            try:
                got = any(ev.inside(vid, p, cache) for vid in vols[i])
            except t4eval.T4EvalError as exc:
                if 'within eps' in str(exc):
                    continue
                out['failures'].append({
                    'surface': sid, 'mn': mn, 'params': prm, 'tr': tr,
                    'expr': expr_text(sid, expr), 'placement': kind,
                    'point': list(p), 'aux': list(p_aux),
                    'error': f'T4 evaluation: {exc}'})
                continue
            out['checked'] += 1
            if got != want:
                out['failures'].append({
                    'surface': sid, 'mn': mn, 'params': prm, 'tr': tr,
                    'expr': expr_text(sid, expr), 'placement': kind,
                    'point': list(p), 'aux': list(p_aux),
                    'expected': want, 'observed': got,
                    'volumes': vols[i]})
    return out


def report_transformed(res, sweep, label):
    '''One violation per expression with the first failing point.'''
    seen = set()
    for fail in sweep['failures']:
        key = fail.get('expr')
        if key in seen:
            continue
        seen.add(key)
        if 'error' in fail:
            what = (f'{label}: {fail["error"]} ({fail.get("mn")} '
                    f'{fail.get("params")}, cell {fail.get("expr")})')
        else:
            what = (f'{label} ({fail["placement"]}, TR {fail["tr"]}): '
                    f'{fail["mn"].upper()} {fail["params"]}: cell '
                    f'"{fail["expr"]}" at point {fail["point"]}: MCNP '
                    f'semantics say {fail["expected"]}, the written volume(s) '
                    f'{fail["volumes"]} say {fail["observed"]}')
        res.violation('impl-violation', what,
                      {'input': {'deck': sweep['text'], 'failure': fail}},
                      cls=classify(fail), found_input=True)


def classify(failure):
    '''Known-finding class of a sweep failure (None: a fresh violation).
    No class of C03 is open: the left-handed WED defect (DESIGN §8 #20) was
    repaired in /repo (fix: 15c826d), its witness is replayed as a corpus
    case.'''
    del failure
    return None


def report_failures(res, sweep, label):
    '''One violation per (body, probe) with the first failing point.'''
    seen = set()
    for fail in sweep['failures']:
        key = (fail.get('surface'), tuple(fail.get('probe', ())))
        if key in seen:
            continue
        seen.add(key)
        cls = classify(fail)
        if 'error' in fail:
            what = f'{label}: {fail["error"]} ({fail.get("mn")} ' \
                   f'{fail.get("params")})'
        else:
            sign, k = fail['probe']
            ref = ('-' if sign < 0 else '+') + 'b' + (f'.{k}' if k else '')
            what = (f'{label}: {fail["mn"].upper()} {fail["params"]}'
                    + (f' with TR {fail["tr"]}' if fail.get('tr') else '')
                    + ': cell '
                    f'{ref} at point {fail["point"]}: MCNP semantics say '
                    f'{fail["expected"]}, the written volume says '
                    f'{fail["observed"]}')
        res.violation('impl-violation', what,
                      {'input': {'deck': sweep['text'], 'failure': fail}},
                      cls=cls, found_input=True)


# ---- the other ties --------------------------------------------------------

def _impl_macro_raw(mn, prm):
    '''to_surfaces_macro: [(type name after conversion, side)] or error.'''
    from t4_geom_convert.Kernel.FileHandlers.Parser.ParseMCNPSurface import \
        to_surfaces_mcnp
    try:
        surfs = to_surfaces_mcnp(7, ('', None, mn, [float(x) for x in prm]),
                                 {})
    except Exception as exc:      # pylint: disable=broad-except
        return ('err', type(exc).__name__)
    return ('ok', [(s.type_surface.name, int(side)) for s, side in surfs])


def _impl_expand_raw(new_key, n, sub, ids):
    from t4_geom_convert.Kernel.Volume.CellConversion import CellConversion
    from MIP.geom.semantics import Surface
    conv = CellConversion(new_key, 0, {}, {}, {}, {})
    leaf = Surface(n, sub)
    try:
        tree = conv.pot_expand_surfs(leaf, {abs(n): list(ids)})
    except Exception as exc:      # pylint: disable=broad-except
        return ('err', ERRMAP.get(type(exc).__name__,
                                  'EOther_' + type(exc).__name__))
    # the fresh-cell counter after the call is observed through the public
    # behaviour (the key given to the NEXT expanded collection), not by reading
    # an attribute of the converter object
    try:
        probe = conv.pot_expand_surfs(Surface(-7), {7: [7, 8]})
        counter = int(list(probe)[0]) - 1
    except Exception:      # pylint: disable=broad-except
        counter = None
    try:
        leaf_id = int(tree)
    except (TypeError, ValueError):
        leaf_id = None
    if leaf_id is not None:
        return ('ok', ('leaf', leaf_id),
                counter if counter is not None else new_key)
    key, oper, *args = list(tree)
    if counter is None:
        counter = int(key)
    return ('ok', ('node', int(key), str(oper), [int(a) for a in args]), counter)


def coq_expand_out(out):
    if out[0] == 'err':
        return f'(Err {out[1]})'
    tree = out[1]
    if tree[0] == 'leaf':
        term = f'(Leaf {cz(tree[1])})'
    else:
        oper = {'*': 'Inter', ':': 'Union'}[tree[2]]
        term = f'(Node {cz(tree[1])} {oper} {clist(cz(a) for a in tree[3])})'
    return f'(Ok ({term}, {cz(out[2])}))'


def _impl_number_raw(dic):
    '''dic: [(key, [sides])] -> matching as [(key, [ids])].'''
    from t4_geom_convert.Kernel.Surface.CollectionDict import CollectionDict
    coll = CollectionDict()
    for key, sides in dic:
        coll[key] = [(('surf', key, j), side) for j, side in enumerate(sides)]
    numbering, matching = coll.number_items()
    # the numbering must attach every id to the facet it was allocated for
    for key, sides in dic:
        for j, tid in enumerate(matching[key]):
            if numbering[abs(tid)] != ('surf', key, j):
                return None
    return [(key, [int(t) for t in matching[key]]) for key, _ in dic]


# ---- conversion of the entries to TRIPOLI-4 surfaces -------------------------

def tr12(tr):
    '''(origin, matrix) -> the normalised 12-number transformation.'''
    return [float(x) for x in tr[0]] + [float(x) for x in tr[1]]


def _t4_out(coll):
    return [(surf.type_surface.name, [float(x) for x in surf.param_surface],
             int(side)) for surf, side in coll.surfs]


def _impl_convert_entry_raw(typ, params, side, tr):
    '''to_surface_mcnp (with the TR of the surface card when tr is given) +
    conversion_surface_params + SurfaceCollection.join on one entry.'''
    from t4_geom_convert.Kernel.FileHandlers.Parser.ParseMCNPSurface import \
        to_surface_mcnp
    from t4_geom_convert.Kernel.Surface.ConversionSurfaceMCNPToT4 import \
        conversion_surface_params
    from t4_geom_convert.Kernel.Surface.SurfaceCollection import \
        SurfaceCollection
    from t4_geom_convert.Kernel.Surface.ESurfaceTypeMCNP import \
        ESurfaceTypeMCNP as MS
    try:
        surf = to_surface_mcnp(7, '', '5' if tr else None, MS[typ],
                               [float(x) for x in params],
                               {5: tr12(tr)} if tr else {})
        coll = conversion_surface_params(7, surf)
        joined = SurfaceCollection.join([(coll, side)])
    except Exception as exc:      # pylint: disable=broad-except
        return ('err', ERRMAP.get(type(exc).__name__,
                                  'EOther_' + type(exc).__name__))
    return ('ok', _t4_out(joined))


def _impl_pot_transform_raw(entries, sub, sign, tr, warm=()):
    '''CellConversion.pot_transform on the reference (+-9, sub) to a body
    whose entries are given; returns the new collection and the reference.'''
    from t4_geom_convert.Kernel.FileHandlers.Parser.ParseMCNPSurface import \
        to_surface_mcnp
    from t4_geom_convert.Kernel.Surface.CollectionDict import CollectionDict
    from t4_geom_convert.Kernel.Surface.ESurfaceTypeMCNP import \
        ESurfaceTypeMCNP as MS
    from t4_geom_convert.Kernel.Volume.CellConversion import CellConversion
    from MIP.geom.semantics import Surface
    try:
        dic_mcnp = CollectionDict()
        dic_mcnp[9] = [(to_surface_mcnp(9, '', None, MS[t], [float(x) for x in p],
                                        {}), s) for t, p, s in entries]
        dic_t4 = CollectionDict()
        conv = CellConversion(100, 200, {}, dic_t4, dic_mcnp, {})
        # the same converter object first moves OTHER references to the same
        # body by the same transformation: the result for (sign, sub) must not
        # depend on that history (the model is a function of the reference)
        for other in warm:
            try:
                conv.pot_transform(Surface(9 * other[0], other[1]), tr12(tr))
            except Exception:      # pylint: disable=broad-except
                pass
        ref = conv.pot_transform(Surface(9 * sign, sub), tr12(tr))
        coll = dic_t4[abs(ref)]
    except Exception as exc:      # pylint: disable=broad-except
        return ('err', ERRMAP.get(type(exc).__name__,
                                  'EOther_' + type(exc).__name__)), None
    return ('ok', _t4_out(coll)), (int(ref.surface), ref.sub)


def coq_fentry(ent):
    typ, params, side = ent
    return cpair(TYPEMAP.get(typ, 'T_' + typ), clist(cfloat(x) for x in params),
                 cz(side))


def coq_t4_out(out):
    if out[0] == 'err':
        return f'(Err {out[1]})'
    return '(Ok ' + clist(cpair(t, clist(cfloat(x) for x in prm), cz(side))
                          for t, prm, side in out[1]) + ')'


def impl_body(mn, prm):
    with cov():
        return _impl_body_raw(mn, prm)

def impl_macro(mn, prm):
    with cov():
        return _impl_macro_raw(mn, prm)

def impl_expand(new_key, n, sub, ids):
    with cov():
        return _impl_expand_raw(new_key, n, sub, ids)

def impl_number(dic):
    with cov():
        return _impl_number_raw(dic)

def impl_convert_entry(typ, params, side, tr):
    with cov():
        return _impl_convert_entry_raw(typ, params, side, tr)

def impl_pot_transform(entries, sub, sign, tr, warm=()):
    with cov():
        return _impl_pot_transform_raw(entries, sub, sign, tr, warm)


# ---- tie through the public entry point: the whole conversion -----------------

def impl_deck(mn, prm, tr):
    '''Deck with the body as surface 5 (TR 5 on the card when tr is given) and
    the cells "-5" / "5": the surfaces of the written volume of cell 1 as
    (type, parameters, +1 under MINUS / -1 under PLUS), or None.'''
    card = wrap(f'5 {"5 " if tr else ""}{mn} ' + ' '.join(num(x) for x in prm))
    data = wrap('tr5 ' + tr_words(tr)) + '\n' if tr else ''
    text = ('C03 deck tie\n1 0 -5 imp:n=1\n2 0 5 imp:n=0\n\n' + card + '\n\n'
            + data)
    conv = impl.convert(text)
    if not conv.ok or conv.text is None:
        return None, text
    t4 = impl.T4File(conv.text)
    vol = t4.volumes.get(1)
    if vol is None or t4.errors or vol.get('op'):
        return None, text
    out = []
    for sign, ids in ((1, vol['minus']), (-1, vol['plus'])):
        for sid in ids:
            typ, params, trans = t4.surfaces[sid]
            if trans is not None:
                return None, text
            out.append((typ, [float(x) for x in params], sign))
    return out, text


# ---- LAT=1 cells bounded by the FACETS of a macrobody --------------------------
#
# MCNP takes the lattice axes from the ORDER in which the bounding surfaces are
# listed on the cell card: element [1,0,0] lies beyond the first listed surface,
# [-1,0,0] beyond the second, [0,1,0] beyond the third ...  When the surfaces are
# facets b.k of an RPP / BOX, each reference must keep its facet number on the
# way to the lattice code (extract_surfaces), or the elements end up along the
# wrong directions.  Reference: mcnpref.Reference through geomcheck.compare
# (point -> chain of cells -> expected composition), the lattice vectors being
# the generator's ground truth.

RPP_OUTWARD = {1: (0, 1), 2: (0, -1), 3: (1, 1), 4: (1, -1), 5: (2, 1), 6: (2, -1)}


def gen_facet_lattice(rng):
    '''Abstract deck (harness/deck.py): an RPP whose six facets, listed pair by
    pair in a random order and with a random first member, bound a LAT=1 cell
    filled with a non-uniform array of two universes.'''
    centre = [rng.choice([-1.0, -0.5, 0.0, 0.25, 0.5]) for _ in range(3)]
    pitch = [rng.choice([1.0, 1.5, 2.0]) for _ in range(3)]
    prm = []
    for k in range(3):
        prm += [centre[k] - pitch[k] / 2, centre[k] + pitch[k] / 2]
    pairs = [(1, 2), (3, 4), (5, 6)]
    rng.shuffle(pairs)
    order, vectors = [], []
    for far, near in pairs:
        first, second = (far, near) if rng.random() < 0.5 else (near, far)
        order += [first, second]
        axis, sign = RPP_OUTWARD[first]
        vec = [0.0, 0.0, 0.0]
        vec[axis] = sign * pitch[axis]
        vectors.append(vec)
    ranges = [rng.choice([(0, 1), (-1, 0), (-1, 1), (0, 2), (0, 0)])
              for _ in range(3)]
    if all(lo == hi for lo, hi in ranges):
        ranges[0] = (0, 1)
    count = 1
    for lo, hi in ranges:
        count *= hi - lo + 1
    array = [rng.choice([2, 3, 2, 3, 0]) for _ in range(count)]
    if 2 not in array:
        array[0] = 2
    if 3 not in array:
        array[-1] = 3
    expr = ('*',) + tuple(('f', -21, k) for k in order)
    cells = [
        {'id': 1, 'mat': 0, 'rho': None, 'expr': ('s', -10), 'imp': {'n': 1},
         'u': 0, 'fill': {'u': 1, 'tr': None}},
        {'id': 2, 'mat': 0, 'rho': None, 'expr': ('s', 9), 'imp': {'n': 0},
         'u': 0},
        {'id': 3, 'mat': 3, 'rho': '-1.0', 'expr': ('*', ('s', 10), ('s', -9)),
         'imp': {'n': 1}, 'u': 0},
        {'id': 5, 'mat': 5, 'rho': '-1.0', 'expr': expr, 'imp': {'n': 1},
         'u': 1, 'lat': 1,
         'fill': {'ranges': ranges, 'array': array, 'tr': None},
         'trcl': None, 'lat_vectors': vectors, 'lat_centre': list(centre)},
        {'id': 11, 'mat': 11, 'rho': '-1.0', 'expr': ('s', -30),
         'imp': {'n': 1}, 'u': 2},
        {'id': 12, 'mat': 12, 'rho': '-2.0', 'expr': ('s', -30),
         'imp': {'n': 1}, 'u': 3},
    ]
    surfaces = [
        {'id': 21, 'mn': 'rpp', 'params': [float(v) for v in prm], 'tr': None,
         'bc': ''},
        {'id': 10, 'mn': 'so', 'params': [6.0], 'tr': None, 'bc': ''},
        {'id': 9, 'mn': 'so', 'params': [7.0], 'tr': None, 'bc': ''},
        {'id': 30, 'mn': 'so', 'params': [90.0], 'tr': None, 'bc': ''},
    ]
    materials = {m: ['1001', '1'] for m in (3, 5, 11, 12)}
    return {'title': 'C03 lattice bounded by macrobody facets', 'cells': cells,
            'surfaces': surfaces, 'transforms': {}, 'materials': materials,
            'data': []}, order


# ---- run ---------------------------------------------------------------------

def run(res, tier, seed, proofs_ok):
    '''Ties and sweeps; the tied calls run under a line-coverage tracer
    restricted to the anchored functions.  The coverage pass is information
    only: whatever goes wrong in it (a renamed private helper, a moved
    function) is recorded and never decides the verdict.'''
    global COV
    tracer = None
    try:
        import c03_cov
        tracer = COV = c03_cov.LineCov(c03_cov.anchored_functions())
    except Exception as exc:      # pylint: disable=broad-except
        COV = None
        res.extra.setdefault('line_coverage', []).append(
            {'name': 'coverage', 'detail': f'tracer not started: {exc!r}'})
    try:
        _run(res, tier, seed, proofs_ok)
    finally:
        COV = None
    if tracer is None:
        return
    try:
        import c03_cov
        total, missing = tracer.missing(c03_cov.UNREACHABLE)
        res.obligation('coverage: the tied calls execute every reachable line '
                       f'of the anchored functions ({total} lines of '
                       f'{len(tracer.codes)} code objects; names not found: '
                       f'{c03_cov.MISSING})', not missing,
                       f'never executed: {missing[:12]}')
    except Exception as exc:      # pylint: disable=broad-except
        res.extra.setdefault('line_coverage', []).append(
            {'name': 'coverage', 'detail': f'coverage pass failed: {exc!r}'})


def _run(res, tier, seed, proofs_ok):
    rng = random.Random(seed)
    quick = tier == 'quick'
    res.rule = ('macrobody parameter vectors over dyadic rationals: eleven '
                'mnemonics, every parameterisation (RHP 9/15, REC 10/12, ELL '
                'foci/axis, ARB with 4/5/6/8 vertices), orthogonal frames in '
                'random order and sign (both handednesses), plus a stream '
                'outside MCNP\'s guards (skew or zero vectors, wrong counts, '
                'equal TRC radii, degenerate ARB descriptors); non-trivial = '
                'every case (distinct by mnemonic and parameters); sweep '
                'points: random around the body and +-1e-2..1e-4 of the body '
                'size across every facet')

    # ---- 1. corpus of minimised past failures (run first) ----
    # left-handed WED (DESIGN §8 #20, repaired by fix: 15c826d), the three
    # other ways of making the triple left-handed, and a left-handed BOX
    corpus = [(1, 'wed', [0.0, 0, 0, 0, 2, 0, 1, 0, 0, 0, 0, 3]),
              (2, 'wed', [0.0, 0, 0, 1, 0, 0, 0, 2, 0, 0, 0, -3]),
              (3, 'wed', [1.0, 1, 1, -1, 0, 0, 0, 2, 0, 0, 0, 3]),
              (4, 'wed', [0.0, 0, 0, 1, 0, 0, 0, 2, 0, 0, 0, 3]),
              (5, 'box', [0.0, 0, 0, 0, 2, 0, 1, 0, 0, 0, 0, 3])]
    corpus += [(6, 'wed', [1.0, 0, 0, 0, 2, 0, 1, 0, 0, 0, 0, 3]),
               (7, 'rec', [0.0, 0, 0, 0, 0, 2, 1.5, 0, 0, 0.5]),
               (8, 'trc', [0.0, 0, 0, 0, 3, 0, 2, 1])]
    corpus_trs = {6: ([1.0, -2.0, 0.5], list(TR_ROTATIONS[4])),
                  7: ([0.0, 1.0, 0.0], list(TR_ROTATIONS[6])),
                  8: ([-1.0, 0.0, 2.0], list(TR_ROTATIONS[3]))}
    sw = sweep_deck(corpus, random.Random(1), 60, 6, trs=corpus_trs)
    if not sw['conv'].ok:
        res.violation('impl-violation', 'corpus deck rejected: '
                      f'{sw["conv"].exc}: {sw["conv"].msg[:200]}',
                      {'input': {'deck': sw['text']}}, found_input=True)
    report_failures(res, sw, 'corpus (left-handed WED / BOX)')
    res.count('corpus:membership-comparisons', sw['checked'])

    # ---- 2. ties ----
    n_ok = 1800 if quick else 12000
    n_odd = 800 if quick else 6000
    inputs = []
    # every body / parameterisation / handedness at least a fixed number
    forced = []
    for _ in range(12 if quick else 60):
        forced += [('box', G.gen_box(rng)), ('rpp', G.gen_rpp(rng)),
                   ('sph', G.gen_sph(rng)), ('rcc', G.gen_rcc(rng)),
                   ('rhp', G.gen_rhp(rng, True)), ('rhp', G.gen_rhp(rng, False)),
                   ('hex', G.gen_rhp(rng, False)),
                   ('rec', G.gen_rec(rng, True)), ('rec', G.gen_rec(rng, False)),
                   ('trc', G.gen_trc(rng)),
                   ('ell', G.gen_ell(rng, True)), ('ell', G.gen_ell(rng, False)),
                   ('wed', G.gen_wed(rng, 1)), ('wed', G.gen_wed(rng, -1))]
        forced += [('arb', G.gen_arb(rng, s)) for s in G.ARB_SHAPES]
        # axis-parallel cylinders and cones, both directions: every CYLX/Y/Z,
        # CONEX/Y/Z, PLANEX/Y/Z branch of the conversion in every run
        for axis in range(3):
            h = [0.0, 0.0, 0.0]
            h[axis] = rng.choice(G.SCALES) * rng.choice([1, -1])
            forced += [('rcc', G.flat(G.point(rng), h, rng.choice(G.SCALES))),
                       ('trc', G.flat(G.point(rng), h,
                                      *rng.sample([0.25, 0.5, 1.0, 1.5, 2.0], 2)))]
    for mn, prm in forced:
        inputs.append((mn, prm, None))
    while len(inputs) < n_ok:
        mn, prm = G.gen_body(rng)
        inputs.append((mn, prm, None))
    for _ in range(n_odd):
        inputs.append(G.gen_odd(rng))

    cases, meta = [], []
    for mn, prm, fault in inputs:
        out = impl_body(mn, prm)
        res.seen((mn, prm))
        res.count(f'body:{mn}')
        res.count('fault:' + str(fault))
        res.count('impl:' + (out[1] if out[0] == 'err' else 'ok'))
        if mn == 'box' and fault is None:
            res.count(f'box-hand:{G.box_hand(prm)}')
        if mn == 'wed' and fault is None:
            res.count(f'wed-hand:{G.wed_hand(prm)}')
        if fault is None and out[0] != 'ok':
            res.violation('impl-violation',
                          f'admissible {mn.upper()} {prm} rejected: {out[1]}',
                          {'input': {'body': mn, 'params': prm},
                           'observed': out}, found_input=True)
        if has_nan(out):
            res.count('skipped:nan-in-output')
            continue
        if fault is not None and ill_conditioned(mn, prm):
            res.count('skipped:ill-conditioned')
            continue
        case = coq_body_case(mn, prm, out)
        if case is None:
            res.count('skipped:outside-model')
            continue
        cases.append(case)
        meta.append((mn, prm, fault, out))
    res.sample({'body': meta[0][0], 'params': meta[0][1], 'impl': meta[0][3]})
    res.sample({'body': meta[-1][0], 'params': meta[-1][1],
                'fault': meta[-1][2], 'impl': meta[-1][3]})
    bad, errs = run_cases(res, 'c03_body', 'body_case',
                                      'check_body', cases)
    res.obligation(f'tie:body ({len(cases)} parameter vectors: model '
                   'body_parts at binary64 = MacroBodies.*)',
                   not bad and not errs, f'{len(bad)} disagreements {errs[:1]}')
    for idx in bad[:10]:
        mn, prm, fault, out = meta[idx]
        p, d = split_params(mn, prm)
        model, _ = common.coq_eval(
            HEADER, f'body_parts FS {mn.upper()} '
            f'{clist(cfloat(x) for x in p)} {clist(cn(x) for x in d)}')
        # look for a property failure near the disagreement
        found = False
        if out[0] == 'ok' and fault is None:
            sw = sweep_deck([(3, mn, prm)], random.Random(seed + idx), 150, 8)
            if sw['failures']:
                found = True
                report_failures(res, sw, 'near a model/implementation '
                                'disagreement')
        if not found:
            res.violation('correspondence',
                          f'model and implementation disagree on {mn.upper()} '
                          f'{prm}: impl={out} model={model}',
                          {'input': {'body': mn, 'params': prm},
                           'observed': out, 'model': model,
                           'theorem_or_correspondence': 'tie:body'},
                          found_input=False)

    # conversion of every entry to its TRIPOLI-4 surface (plain, and with the
    # TR of the surface card); pot_transform on facet references
    cv_cases, cv_meta = [], []
    pt_cases, pt_meta = [], []
    step = 1 if not quick else 2
    # helper-level ties call functions that are NOT named by the anchors of C03
    # (to_surface_mcnp, conversion_surface_params, SurfaceCollection.join,
    # CellConversion's constructor and pot_transform, CollectionDict): a
    # harmless rewrite may rename or re-sign them.  Each is probed on one
    # fixed input; when the probe does not answer, the helper tie is skipped
    # and recorded -- tie:deck below goes through the public entry point
    # (the whole conversion) and exercises the same code in every run.
    ident = ([0.0, 0.0, 0.0], list(TR_ROTATIONS[0]))
    rpp_entries = [('P', [1.0, 0.0, 0.0, 1.0], 1), ('P', [1.0, 0.0, 0.0, -1.0], -1)]
    cv_on = helper_ok(res, 'to_surface_mcnp/conversion_surface_params/'
                      'SurfaceCollection.join',
                      lambda: impl_convert_entry('P', [1.0, 0.0, 0.0, 2.0], 1, None)
                      == ('ok', [('PLANEX', [2.0], 1)]))
    pt_on = helper_ok(res, 'CellConversion.pot_transform',
                      lambda: impl_pot_transform(rpp_entries, 2, 1, ident)[0]
                      == ('ok', [('PLANEX', [-1.0], -1)]))
    for idx, (mn, prm, fault, out) in enumerate(meta):
        if out[0] != 'ok' or idx % step:
            continue
        tr = gen_tr(rng) if rng.random() < 0.6 else None
        for ent in (out[1] if cv_on else []):
            got = impl_convert_entry(ent[0], ent[1], ent[2], tr)
            res.count('convert:' + (got[1] if got[0] == 'err'
                                    else '+'.join(t for t, _, _ in got[1])))
            if has_nan(('ok', [(0, e[1], 0) for e in got[1]])
                       if got[0] == 'ok' else got):
                continue
            cv_cases.append(cpair(clist(cfloat(x) for x in (tr12(tr) if tr else [])),
                                  coq_fentry(ent), coq_t4_out(got)))
            cv_meta.append((mn, prm, ent, tr, got))
        if pt_on and fault is None and len(pt_cases) < (250 if quick else 2500):
            ptr = gen_tr(rng)
            nent = len(out[1])
            sub = rng.choice([None, None] + list(range(0, nent + 2)))
            sign = rng.choice([1, -1])
            warm = [(rng.choice([1, -1]),
                     rng.choice([None] + list(range(1, nent + 1))))
                    for _ in range(rng.choice([0, 1, 2]))]
            got, ref = impl_pot_transform(out[1], sub, sign, ptr, warm)
            res.count('pot_transform:' + ('err' if got[0] == 'err' else
                                          'whole' if sub is None else 'facet'))
            if got[0] == 'ok':
                # the new reference is a plain surface number carrying the
                # sign of the old one and no facet part
                if ref[1] is not None or (ref[0] > 0) != (sign > 0):
                    res.violation('impl-violation',
                                  f'pot_transform of {sign * 9}.{sub} returns '
                                  f'the reference {ref}',
                                  {'input': {'body': mn, 'params': prm,
                                             'sub': sub, 'tr': ptr}},
                                  found_input=True)
                want_len = nent if sub is None else 1
                if len(got[1]) != want_len:
                    res.violation('impl-violation',
                                  f'pot_transform of {mn}.{sub}: '
                                  f'{len(got[1])} surfaces, expected '
                                  f'{want_len}',
                                  {'input': {'body': mn, 'params': prm,
                                             'sub': sub, 'tr': ptr}},
                                  found_input=True)
            elif sub is not None and 1 <= sub <= nent:
                res.violation('impl-violation',
                              f'pot_transform rejects facet {sub} of {mn}: '
                              f'{got}', {'input': {'body': mn, 'params': prm,
                                                   'sub': sub, 'tr': ptr}},
                              found_input=True)
            if not (got[0] == 'ok' and any(x != x for _, pr, _ in got[1]
                                           for x in pr)):
                pt_cases.append(cpair(
                    clist(cfloat(x) for x in tr12(ptr)),
                    clist(coq_fentry(e) for e in out[1]),
                    copt(sub, cnat), coq_t4_out(got)))
                pt_meta.append((mn, prm, sub, ptr, got))
    for _ in range((12 if quick else 60) if cv_on else 0):
        pts9 = [rng.choice(G.COORDS) for _ in range(9)]
        for ent in (('P', pts9, rng.choice([1, -1])),
                    ('P', pts9[:5], 1), ('S', pts9[:3], 1), ('C', pts9[:6], 1),
                    ('K', pts9[:6], -1)):
            tr = gen_tr(rng) if rng.random() < 0.5 else None
            got = impl_convert_entry(ent[0], ent[1], ent[2], tr)
            res.count('convert-synthetic:' + (got[1] if got[0] == 'err' else
                                              '+'.join(t for t, _, _ in got[1])))
            if got[0] == 'ok' and any(x != x for _, pr, _ in got[1] for x in pr):
                continue
            cv_cases.append(cpair(clist(cfloat(x) for x in (tr12(tr) if tr else [])),
                                  coq_fentry(ent), coq_t4_out(got)))
            cv_meta.append(('synthetic', [], ent, tr, got))
    bad, errs = run_cases(res, 'c03_convert', 'convert_case', 'check_convert',
                          cv_cases) if cv_on else ([], [])
    res.obligation(('tie:convert SKIPPED (helper not present, see tie:deck) '
                    if not cv_on else '') +
                   f'tie:convert ({len(cv_cases)} entries: to_surface_mcnp + '
                   'transformation + conversion_surface_params + join = model '
                   'convert_entry at binary64)', not bad and not errs,
                   f'{len(bad)} disagreements {errs[:1]}')
    for idx in bad[:5]:
        mn, prm, ent, tr, got = cv_meta[idx]
        model, _ = common.coq_eval(
            HEADER, 'convert_entry FS (transf_of '
            f'{clist(cfloat(x) for x in (tr12(tr) if tr else []))}) '
            f'{coq_fentry(ent)}')
        res.violation('correspondence',
                      f'conversion of the entry {ent} of {mn.upper()} {prm} '
                      f'(TR {tr}): impl={got} model={model}',
                      {'input': {'entry': list(ent), 'tr': tr},
                       'observed': got, 'model': model,
                       'theorem_or_correspondence': 'tie:convert'},
                      found_input=False)
    bad, errs = run_cases(res, 'c03_ptransf', 'ptransf_case', 'check_ptransf',
                          pt_cases) if pt_on else ([], [])
    res.obligation(('tie:pot_transform SKIPPED (helper not present, see the '
                    'transformed-cell sweep) ' if not pt_on else '') +
                   f'tie:pot_transform ({len(pt_cases)} references n / n.k '
                   'under a transformation: new collection = model '
                   'pot_transform_ref)', not bad and not errs,
                   f'{len(bad)} disagreements {errs[:1]}')
    for idx in bad[:5]:
        mn, prm, sub, ptr, got = pt_meta[idx]
        res.violation('correspondence',
                      f'pot_transform of reference .{sub} to {mn.upper()} '
                      f'{prm} under {ptr}: impl={got} differs from the model',
                      {'input': {'body': mn, 'params': prm, 'sub': sub,
                                 'tr': ptr}, 'observed': got,
                       'theorem_or_correspondence': 'tie:pot_transform'},
                      found_input=False)

    # tie:deck -- public entry point: the written surfaces of the cell "-b"
    # against body_t4 (body function + conversion of every facet + numbering +
    # pot_expand_surfs + writer), any order, with and without a TR on the card
    dk_cases, dk_meta = [], []
    dk_pool = [(mn, prm) for mn, prm, fault, out in meta
               if fault is None and out[0] == 'ok'][:(130 if quick else 1500)]
    for mn, prm in dk_pool:
        split = split_params(mn, prm)
        if split is None:
            continue
        tr = gen_tr(rng) if rng.random() < 0.4 else None
        got, text = impl_deck(mn, prm, tr)
        res.count('deck:' + ('unreadable' if got is None else mn))
        if got is None:
            res.violation('impl-violation',
                          f'deck with the admissible {mn.upper()} {prm} and the '
                          'cell "-b" is not converted to one plain volume',
                          {'input': {'deck': text}}, found_input=True)
            continue
        dk_cases.append(cpair(
            clist(cfloat(x) for x in (tr12(tr) if tr else [])), mn.upper(),
            clist(cfloat(x) for x in split[0]), clist(cn(x) for x in split[1]),
            clist(cpair(t, clist(cfloat(x) for x in pr), cz(sd))
                  for t, pr, sd in got)))
        dk_meta.append((mn, prm, tr, got, text))
    bad, errs = run_cases(res, 'c03_deck', 'deck_case', 'check_deck', dk_cases)
    res.obligation(f'tie:deck ({len(dk_cases)} decks: written surfaces of the '
                   'cell -b = model body_t4 at binary64, through the whole '
                   'conversion)', not bad and not errs,
                   f'{len(bad)} disagreements {errs[:1]}')
    for idx in bad[:5]:
        mn, prm, tr, got, text = dk_meta[idx]
        found = False
        sw = sweep_deck([(5, mn, prm)], random.Random(seed + idx), 150, 8,
                        trs={5: tr} if tr else None)
        if sw['failures']:
            found = True
            report_failures(res, sw, 'written surfaces differ from the model')
        if not found:
            res.violation('correspondence',
                          f'written surfaces of the cell -b for {mn.upper()} '
                          f'{prm} (TR {tr}) differ from the model: {got}',
                          {'input': {'deck': text}, 'observed': got,
                           'theorem_or_correspondence': 'tie:deck'},
                          found_input=False)

    # to_surfaces_macro: dispatch, order, sides
    from t4_geom_convert.Kernel.Surface.ESurfaceTypeMCNP import \
        ESurfaceTypeMCNP as MS
    bad_macro = []
    n_macro = 0
    for mn, prm, fault, out in meta:
        if fault is not None or out[0] != 'ok':
            continue
        n_macro += 1
        got = impl_macro(mn, prm)
        want = [(t, s) for t, _, s in out[1]]
        if got[0] != 'ok' or len(got[1]) != len(want) or any(
                g[1] != w[1] or g[0] != w[0] for g, w in zip(got[1], want)):
            bad_macro.append((mn, prm, got, want))
    res.obligation(f'tie:macro ({n_macro} bodies: to_surfaces_macro keeps the '
                   'order, type and side of the body function\'s entries)',
                   not bad_macro, f'{len(bad_macro)} disagreements')
    for mn, prm, got, want in bad_macro[:5]:
        sw = sweep_deck([(3, mn, prm)], random.Random(seed), 150, 8)
        if sw['failures']:
            report_failures(res, sw, 'to_surfaces_macro differs from the body '
                            'function')
        else:
            res.violation('correspondence',
                          f'to_surfaces_macro({mn}) = {got}, body function '
                          f'gives {want}',
                          {'input': {'body': mn, 'params': prm},
                           'observed': got,
                           'theorem_or_correspondence': 'tie:macro'},
                          found_input=False)
    assert MS.P.name == 'P'

    # parse_facet
    from t4_geom_convert.Kernel.Surface.MacroBodies import parse_facet
    descr = list(range(0, 130)) + [1234, 4321, 5230, 7024, 1256, 8765, 1000,
                                   1001, 9, 90, 909, 12345678, 10 ** 9]
    descr += [rng.randrange(0, 10 ** rng.randint(1, 9)) for _ in range(200)]
    with cov():
        pf_cases = [cpair(cn(d), clist(cnat(i) for i in parse_facet(float(d))))
                    for d in descr]
    bad, errs = run_cases(res, 'c03_facet', 'N * list nat',
                                      'check_parse_facet', pf_cases)
    res.obligation(f'tie:facet ({len(pf_cases)} descriptors: parse_facet)',
                   not bad and not errs, f'bad={bad[:5]} {errs[:1]}')
    for idx in bad[:3]:
        res.violation('correspondence',
                      f'parse_facet({descr[idx]}) = '
                      f'{parse_facet(float(descr[idx]))} differs from the model',
                      {'input': {'descriptor': descr[idx]},
                       'theorem_or_correspondence': 'tie:facet'},
                      found_input=False)

    # number_items
    nb_cases, nb_meta = [], []
    nb_on = helper_ok(res, 'CollectionDict.number_items',
                      lambda: impl_number([(5, [1, -1])]) == [(5, [5, -6])])
    for _ in range((150 if quick else 1500) if nb_on else 0):
        keys = rng.sample(range(1, 60), rng.randint(1, 5))
        dic = [(k, [rng.choice([1, -1])
                    for _ in range(rng.choice([1, 1, 3, 5, 6, 8, 2]))])
               for k in keys]
        got = impl_number(dic)
        if got is None:
            res.violation('impl-violation',
                          f'number_items attaches an id to the wrong facet: '
                          f'{dic}', {'input': {'dic': dic}}, found_input=True)
            continue
        nb_cases.append(cpair(
            clist(cpair(cz(k), clist(cz(s) for s in sides))
                  for k, sides in dic),
            clist(cpair(cz(k), clist(cz(t) for t in ids))
                  for k, ids in got)))
        nb_meta.append((dic, got))
    bad, errs = run_cases(res, 'c03_number', 'list (Z * list Z) * list (Z * list Z)',
        'check_number', nb_cases)
    res.obligation(f'tie:number ({len(nb_cases)} collections dictionaries: '
                   'number_items)', not bad and not errs,
                   f'bad={bad[:5]} {errs[:1]}')
    for idx in bad[:3]:
        res.violation('correspondence',
                      f'number_items{nb_meta[idx][0]} = {nb_meta[idx][1]} '
                      'differs from the model',
                      {'input': {'dic': nb_meta[idx][0]},
                       'observed': nb_meta[idx][1],
                       'theorem_or_correspondence': 'tie:number'},
                      found_input=False)

    # pot_expand_surfs
    ex_cases, ex_meta = [], []
    for _ in range(400 if quick else 4000):
        nids = rng.choice([1, 1, 3, 5, 6, 8, 2, 4])
        key = rng.randint(1, 50)
        ids = [rng.choice([1, -1]) * t
               for t in [key] + rng.sample(range(60, 200), nids - 1)]
        n = key * rng.choice([1, -1])
        sub = None if rng.random() < 0.35 else rng.randint(0, 9)
        new_key = rng.randint(10, 500)
        out = impl_expand(new_key, n, sub, ids)
        res.count('expand:' + ('err' if out[0] == 'err' else out[1][0])
                  + ('' if sub is None else ':facet'
                     + (':in' if 1 <= sub <= nids else ':0' if sub == 0
                        else ':out')))
        ex_cases.append(cpair(cz(new_key), cz(n), copt(sub, cnat),
                              clist(cz(t) for t in ids), coq_expand_out(out)))
        ex_meta.append((new_key, n, sub, ids, out))
        # property level: an out-of-range facet number must be an error and an
        # in-range one must give that facet with the reference's sign
        if sub is not None and sub > nids and out[0] != 'err':
            res.violation('impl-violation',
                          f'facet {sub} of a body with {nids} facets accepted',
                          {'input': {'n': n, 'sub': sub, 'ids': ids},
                           'observed': out}, found_input=True)
        if sub is not None and 1 <= sub <= nids:
            want = ids[sub - 1] if n > 0 else -ids[sub - 1]
            if out[0] != 'ok' or out[1] != ('leaf', want):
                res.violation('impl-violation',
                              f'reference {n}.{sub} with facets {ids} gives '
                              f'{out}, expected literal {want}',
                              {'input': {'n': n, 'sub': sub, 'ids': ids},
                               'observed': out}, found_input=True)
        if sub is None and nids > 1:
            want = ('node', new_key + 1, '*' if n < 0 else ':',
                    [-t for t in ids] if n < 0 else ids)
            if out[0] != 'ok' or out[1] != want:
                res.violation('impl-violation',
                              f'reference {n} with facets {ids} gives {out}',
                              {'input': {'n': n, 'sub': sub, 'ids': ids},
                               'observed': out}, found_input=True)
    bad, errs = run_cases(res, 'c03_expand', 'expand_case',
                                      'check_expand', ex_cases)
    res.obligation(f'tie:expand ({len(ex_cases)} surface leaves: '
                   'pot_expand_surfs)', not bad and not errs,
                   f'bad={bad[:5]} {errs[:1]}')
    for idx in bad[:3]:
        res.violation('correspondence',
                      f'pot_expand_surfs{ex_meta[idx][:4]} = '
                      f'{ex_meta[idx][4]} differs from the model',
                      {'input': {'expand': ex_meta[idx][:4]},
                       'observed': ex_meta[idx][4],
                       'theorem_or_correspondence': 'tie:expand'},
                      found_input=False)

    # ---- 3. sweep with the independent oracle ----
    n_decks = 220 if quick else 2000
    n_random, n_near = (60, 4) if quick else (200, 8)
    pool = [(mn, prm) for mn, prm, fault in inputs if fault is None]
    rng.shuffle(pool)
    # the forced ones first so that every body kind is swept in every run
    pool = [(mn, prm) for mn, prm in forced[:len(forced) // (12 if quick else 60) * 3]] + pool
    odd_pool = [(mn, prm, fault) for mn, prm, fault in inputs
                if fault in ('skew', 'inverted')
                and mn in ('box', 'rpp', 'sph', 'rcc', 'trc', 'rhp', 'hex')
                # a flat "box" (coplanar edges) has no facets to speak of
                and not (mn == 'box' and abs(G.det3(prm[3:6], prm[6:9],
                                                    prm[9:12])) < 1e-6)]
    checked = 0
    skipped_sheet = 0
    k = 0
    for d in range(n_decks):
        nb = rng.choice([1, 1, 2, 3])
        sids = rng.sample(range(1, 90), nb)
        bodies = []
        guard = 'inside'
        for sid in sids:
            if odd_pool and rng.random() < 0.12:
                mn, prm, fault = odd_pool[rng.randrange(len(odd_pool))]
                if mn in ('rhp', 'hex') and len(prm) == 9:
                    continue
                guard = 'outside'
                res.count(f'sweep-outside-guard:{mn}:{fault}')
            else:
                mn, prm = pool[k % len(pool)]
                k += 1
            bodies.append((sid, mn, prm))
            res.count(f'sweep:{mn}')
        if not bodies:
            continue
        trs = {sid: gen_tr(rng) for sid, _, _ in bodies
               if rng.random() < 0.3}
        for sid, mn, _ in bodies:
            if sid in trs:
                res.count(f'sweep-with-tr:{mn}')
        sw = sweep_deck(bodies, rng, n_random, n_near, trs=trs)
        checked += sw['checked']
        skipped_sheet += sw['skipped_sheet']
        if not sw['conv'].ok:
            if guard == 'inside':
                res.violation('impl-violation',
                              'deck of admissible macrobodies rejected: '
                              f'{sw["conv"].exc}: {sw["conv"].msg[:200]}',
                              {'input': {'deck': sw['text']}},
                              found_input=True)
            else:
                res.count('sweep:rejected-outside-guard')
            continue
        if d == 0:
            res.sample({'deck': sw['text']})
        report_failures(res, sw, 'sweep')
    res.count('sweep:membership-comparisons', checked)
    res.count('sweep:trc_facet1_other_sheet', skipped_sheet)
    res.obligation(f'sweep: {checked} membership comparisons of probe cells '
                   '-b, +b, -b.k, +b.k against mcnpref.macro_facets',
                   checked > (80000 if quick else 1000000),
                   f'{checked} comparisons')

    # ---- 3b. transformed cells referencing one body in several ways ----
    n_tdecks = 80 if quick else 700
    tchecked = 0
    tpool = [b for b in pool if n_facets(*b) >= 1]
    # fixed cases first: the RPP of the seeded-change demo under every placement
    fixed = [('rpp', [-1.0, 1, -2, 2, -3, 3]), ('box', [0.0, 0, 0, 0, 2, 0, 1, 0, 0, 0, 0, 3]),
             ('rcc', [0.0, 0, 0, 0, 0, 2, 1]), ('wed', [0.0, 0, 0, 0, 2, 0, 1, 0, 0, 0, 0, 3])]
    # corpus: the RPP of the seeded change C03_B (memo in pot_transform keyed
    # without the facet number) under every kind of placement, then the rest
    kinds = ['fill-shift', 'fill-inline', 'fill-num', 'trcl-shift',
             'trcl-inline', 'trcl-num', 'trcl-star', 'plain', 'plain']
    for d in range(n_tdecks):
        kind = kinds[d] if d < len(kinds) else None
        mn, prm = fixed[0] if d < len(kinds) else (
            fixed[d - len(kinds)] if d - len(kinds) < len(fixed)
            else tpool[(k + d) % len(tpool)])
        sw = sweep_transformed((rng.randint(1, 89), mn, prm), rng,
                               *((40, 3) if quick else (120, 6)), kind=kind)
        res.count(f'transformed:{sw["kind"]}')
        res.count(f'transformed-body:{mn}')
        tchecked += sw['checked']
        if not sw['conv'].ok:
            res.violation('impl-violation',
                          'deck of transformed cells referencing an admissible '
                          f'macrobody rejected: {sw["conv"].exc}: '
                          f'{sw["conv"].msg[:200]}',
                          {'input': {'deck': sw['text']}}, found_input=True)
            continue
        if d == 0:
            res.sample({'deck': sw['text']})
        report_transformed(res, sw, 'transformed cells')
    res.count('transformed:membership-comparisons', tchecked)
    res.obligation(f'sweep-transformed: {tchecked} membership comparisons of '
                   'cells under TRCL / FILL transformations that reference one '
                   'macrobody in several ways',
                   tchecked > (15000 if quick else 300000),
                   f'{tchecked} comparisons')

    # ---- 3c. lattice cells bounded by facets listed in any order ----
    import deck as deckmod
    import geomcheck
    n_lat = 14 if quick else 150
    lchecked = 0
    for d in range(n_lat):
        ldeck, order = gen_facet_lattice(rng)
        res.count('facet-lattice:first-pair:' + 'xyz'[RPP_OUTWARD[order[0]][0]])
        try:
            conv, t4, nchk, fails = geomcheck.convert_and_compare(
                ldeck, rng, n_points=150 if quick else 300)
        except Exception as exc:      # pylint: disable=broad-except
            res.count(f'facet-lattice:oracle-error:{type(exc).__name__}')
            continue
        if not conv.ok or t4 is None:
            res.violation('impl-violation',
                          'lattice cell bounded by the facets '
                          f'{order} of an RPP is rejected: {conv.exc}: '
                          f'{(conv.msg or "")[:200]}',
                          {'input': {'deck': deckmod.render(ldeck)}},
                          found_input=True)
            continue
        lchecked += nchk
        if d == 0:
            res.sample({'deck': deckmod.render(ldeck)})
        for fail in fails[:2]:
            res.violation('impl-violation',
                          f'lattice bounded by RPP facets listed as {order}: '
                          f'point {fail["point"]}: {fail["why"]}',
                          {'input': {'deck': deckmod.render(ldeck),
                                     'failure': fail}},
                          cls=None, found_input=True)
    res.count('facet-lattice:membership-comparisons', lchecked)
    res.obligation(f'sweep-facet-lattice: {lchecked} points of {n_lat} LAT=1 '
                   'cells bounded by macrobody facets listed in any order, '
                   'against the MCNP reference (cell chain and composition)',
                   lchecked > (800 if quick else 15000), f'{lchecked} points')

    # facet numbers beyond the last facet must stop the conversion
    for mn, prm in [('box', G.gen_box(rng)), ('rcc', G.gen_rcc(rng)),
                    ('sph', G.gen_sph(rng)), ('wed', G.gen_wed(rng, 1)),
                    ('rhp', G.gen_rhp(rng, True))]:
        nf = n_facets(mn, prm)
        if nf >= 9:
            continue
        text = (f'C03 facet out of range\n1 0 -5.{nf + 1} imp:n=1\n\n'
                + wrap(f'5 {mn} ' + ' '.join(num(x) for x in prm)) + '\n\n')
        conv = impl.convert(text)
        res.count('out-of-range-facet:' + ('accepted' if conv.ok else
                                           str(conv.exc)))
        if conv.ok:
            res.violation('impl-violation',
                          f'facet {nf + 1} of a {mn.upper()} accepted',
                          {'input': {'deck': text}}, found_input=True)


def replay(path):
    '''Re-run the recorded input through implementation, model and oracle.'''
    data = json.load(open(path))
    inp = data.get('input', {})
    print('recorded:', data.get('what'))
    if 'deck' in inp:
        conv = impl.convert(inp['deck'])
        print('conversion:', conv)
        if conv.text:
            print(conv.text.split('GEOMETRY')[1].split('ENDG')[0])
        fail = inp.get('failure')
        if fail and 'point' in fail and conv.text:
            t4 = impl.T4File(conv.text)
            ev = t4eval.Evaluator(t4, eps=EPS)
            vals = [f(fail.get('aux', fail['point']))
                    for f in G.ref_facets(fail['mn'], fail['params'])]
            print('reference facet values at the point:', vals)
            text, probes = probe_deck([(fail['surface'], fail['mn'],
                                        fail['params'])])
            for cid, sid, sign, k in probes:
                if [sign, k] == list(fail['probe']) and cid in t4.volumes:
                    print('probe', sign, k, 'expected',
                          expected_membership(vals, sign, k))
            out = impl_body(fail['mn'], fail['params'])
            print('body function:', out)
    elif 'body' in inp:
        out = impl_body(inp['body'], inp['params'])
        print('implementation:', out)
        split = split_params(inp['body'], inp['params'])
        if split:
            p, d = split
            model, _ = common.coq_eval(
                HEADER, f'body_parts FS {inp["body"].upper()} '
                f'{clist(cfloat(x) for x in p)} {clist(cn(x) for x in d)}')
            print('model:', model)
    elif 'expand' in inp:
        print('implementation:', impl_expand(*inp['expand']))
    elif 'dic' in inp:
        print('implementation:', impl_number([tuple(x) for x in inp['dic']]))
    elif 'descriptor' in inp:
        from t4_geom_convert.Kernel.Surface.MacroBodies import parse_facet
        print('implementation:', parse_facet(float(inp['descriptor'])))
    return 0
