'''C17 -- unsupported or malformed input stops the run.

Theorems: coq/Properties/C17.v.  Ties (correspondence by execution, model at
binary64 inside coqc):
  int/float  : Python int() / float() acceptance vs Model.py_int / float_lit
  num        : MIP.mip.datacard.to_float acceptance vs Model.num_lit
  latopt     : main.parse_lattice on option strings vs Model.parse_lattice
  ranges     : Lattice.parse_ranges vs Model.parse_ranges
  surface    : to_surfaces_mcnp + convert_mcnp_surface (every mnemonic, every
               arity) vs Model.surface_check
  normtr     : Transformation.normalize_transform vs Model.norm_tr_len
  dims       : CellConversion.develop_lattice dimension checks vs
               Model.lattice_dims_check / square_nb
  facet      : CellConversion.pot_expand_surfs vs Model.facet_check
  cellopts   : ParseMCNPCell.parse_one_cell_worker on the option strings of
               generated (valid and faulted) cells vs Model.parse_cell
  impcards   : ParseMCNPCell.parse_importance_cards vs Model.imp_cards_check
  material   : compositionConversionMCNPToT4 (sign check) vs Model.material_check
  deck       : the whole conversion (exception class / normal finish) of valid
               and fault-injected decks vs Model.validate
Sweep oracle (independent of the model): a deck carrying an injected fault must
not finish normally; an un-faulted deck must convert.'''
import json
import random
import re
import warnings

import common
import impl
import c17_gen as G
from common import cz, cnat, cbool, cfloat, cstr, clist, copt, cpair

THEOREMS = [
    'C17_tr_card_m_rejected',
    'C17_tr_lengths_never_13',
    'C17_tr_arity_exact',
    'C17_tr_card_arity_rejected',
    'C17_inline_trcl_m_rejected',
    'C17_inline_fill_m_rejected',
    'C17_inline_m_rejected',
    'C17_unknown_mnemonic_rejected',
    'C17_flagged_macrobody_rejected',
    'C17_macro_arity_rejected',
    'C17_macro_arity_exact',
    'C17_surface_arity_rejected',
    'C17_surface_arity_exact',
    'C17_surplus_surface_params_refuted',
    'C17_gq_short_params_refuted',
    'C17_lattice_no_opt_rejected',
    'C17_lattice_no_opt_rejected_general',
    'C17_to_fillid_no_opt',
    'C17_lattice_dims_exact',
    'C17_lattice_dims_rejected',
    'C17_lattice_nsurf_exact',
    'C17_lattice_ranges_checked',
    'C17_facet_range_rejected',
    'C17_facet_check_exact',
    'C17_facet_zero_refuted',
    'C17_fill_array_short_rejected',
    'C17_fill_array_short_rejected_gen',
    'C17_fill_array_length_exact',
    'C17_fill_array_surplus_3_refuted',
    'C17_imp_unequal_rejected',
    'C17_mixed_fractions_rejected',
    'C17_latopt_exact',
    'C17_latopt_wellformed_accepted',
    'C17_latopt_malformed_rejected',
    'C17_keyword_loop_unfold',
    'C17_inline_trcl_m_rejected_any',
    'C17_inline_fill_m_rejected_any',
    'C17_fill_array_short_rejected_any',
    'C17_lattice_no_opt_rejected_any',
    'C17_arrives_options',
    'C17_arrives_options_more',
    'C17_arrives_options_arrays',
    'C17_fill_array_first_entry',
    'C17_surplus_surface_params_exact',
    'C17_fill_array_trailing_numbers',
    'C17_facet_skipped_cells_unchecked',
    'C17_surface_rejection_class',
    'C17_anonymous_surface_rejections',
    'C17_tr_arity_error_class',
    'C17_fill_transformation_length',
    'C17_lattice_transformation_length',
    'C17_reads_c06_ranges_linked',
    'C17_fill_array_surplus_linked',
    'C17_finished_run_is_clean',
]
TRUSTED = [
    'hand-written model coq/C17/Model.v (tied by execution only)',
    'card splitting of MIP (which text is the option part of a cell, the data '
    'tokens of IMP/M/TR cards), the cell-expression parser (PEG shim) and the '
    'literal/complement extraction: the harness hands the model the literals, '
    'complement references and option tokens it generated',
    'float(spelling) and int(float(spelling)) of numeric tokens are computed '
    'by the harness and handed to the model (tval/tint); for every token that '
    'Python\'s int() reads, the generated Coq files check that tint is the '
    'value the model\'s own reader (py_int) gives (Exec.tok_ok)',
    'harness: generators, fault injector, exception-class mapping',
]
ASSUMPTIONS = [
    'arity/structure level: surface parameters, transformation entries are '
    'geometrically sound (no zero normals, negative t^2, degenerate matrices); '
    'the values the model looks at are the 13th transformation entry, the '
    'nappe selector of cones and the point pairs of X/Y/Z surfaces',
    'ASCII input; numeric tokens without underscores, inf or nan; data cards '
    'use plain numbers, nR, nJ, and on cards read as floats (IMP) nI and xM; '
    'LOG, and nI / xM inside FILL arrays (dtype int: round()), are outside '
    'the model (executed, skipped by the tie)',
    'surface numbers below 1000 (no implicit TRCL surfaces); LIKE n BUT is '
    'expanded by the harness the way apply_but does (geometry and options of '
    'n followed by the BUT options; no chains generated); lattice cells have '
    'no complement operand; hexagonal lattices with 6 or 8 planes only',
]
HEADER = ('From Coq Require Import List NArith ZArith Bool String Ascii '
          'PrimFloat.\nFrom T4V Require Import Base.Str Base.Scalar '
          'C17.Model C17.Exec.\nOpen Scope string_scope.\n')

ALL_FEATURES = ['tr', 'surftr', 'fill', 'filltr', 'lat', 'latopt', 'trcl',
                'impcards', 'facets', 'compl', 'mats', 'like']

# ---------------------------------------------------------------------------
# known-finding classes: narrow predicates over (fault class, where, deck)
# ---------------------------------------------------------------------------
SURPLUS_MAX = {'px': 1, 'py': 1, 'pz': 1, 'so': 1, 'cx': 1, 'cy': 1, 'cz': 1,
               'sx': 2, 'sy': 2, 'sz': 2, 'c/x': 3, 'c/y': 3, 'c/z': 3,
               'k/x': 5, 'k/y': 5, 'k/z': 5, 'kx': 3, 'ky': 3, 'kz': 3,
               'sq': 10, 'gq': 10}


def classify(cls, where, deck):
    '''Known-finding class of an accepted faulted deck, or None.'''
    if cls == 'surface_arity':
        m = re.search(r'surface (\d+) (\S+) with (\d+) parameters', where)
        mn, n = m.group(2), int(m.group(3))
        if mn in SURPLUS_MAX and n > SURPLUS_MAX[mn]:
            return 'surplus_surface_params'
        if mn == 'gq' and n < 10:
            surf = [s for s in deck['surfs'] if s['id'] == int(m.group(1))][0]
            if surf['tr'] is None:
                return 'gq_short_params'
    if cls == 'fill_array_plus3' and where.endswith('+3'):
        return 'fill_array_surplus_3'
    if cls == 'fill_array_len' and where.endswith('+2'):
        cid = int(re.search(r'cell (\d+)', where).group(1))
        cell = [c for c in deck['cells'] if c['id'] == cid][0]
        m = re.search(r'fill=((?:-?\d+:-?\d+ )+)([-0-9r ]*?)( imp|$)', cell['opts'])
        array = m.group(2).split()
        if all(t == '0' for t in array[:-2]):
            return 'fill_array_surplus_2_void'
    if cls == 'fill_array_surplus_tr':
        return 'fill_array_surplus_tr'
    if cls == 'cone_selector':
        return 'cone_selector_not_unit'
    if cls == 'facet_range_skipped':
        return 'facet_unchecked_in_skipped_cell'
    if cls == 'facet_zero':
        return 'facet_zero_selects_last'
    if cls == 'hex_nonprism':
        # third outcome of six planes that are no hexagonal prism (besides the
        # endless walk and the anonymous ZeroDivisionError): hexSortSides happens
        # to accept six intersections that close a tour (C07_base_vectors_by_shape)
        # and the run finishes normally with a meaningless lattice
        return 'hex_lattice_nonprism_accepted'
    return None


WITNESSES = {
    'surplus_surface_params': (
        't\n1 0 -1 imp:n=1\n2 0 1 imp:n=0\n\n1 so 5 6\n\n', []),
    'gq_short_params': (
        't\n1 0 -1 imp:n=1\n2 0 1 imp:n=0\n\n1 gq 1 1 1 0 0 0 0 0 -4\n\n', []),
    'fill_array_surplus_3': (
        't\n1 0 -1 2 -3 4 u=1 lat=1 fill=0:1 0:1 0:0 2 2 2 2 7 8 9 imp:n=1\n'
        '2 0 -5 fill=1 imp:n=1\n3 0 -6 u=2 imp:n=1\n4 0 5 imp:n=0\n\n'
        '1 px 1\n2 px -1\n3 py 1\n4 py -1\n5 so 10\n6 so 0.5\n\n', []),
    'fill_array_surplus_tr': (
        't\n1 0 -1 2 -3 4 u=1 lat=1 fill=0:1 0:1 0:0 2 2 2 2 3 imp:n=1\n'
        '2 0 -5 fill=1 imp:n=1\n3 0 -6 u=2 imp:n=1\n4 0 5 imp:n=0\n\n'
        '1 px 1\n2 px -1\n3 py 1\n4 py -1\n5 so 10\n6 so 0.5\n\n'
        'tr3 0.25 0 0\n', []),
    'fill_array_surplus_2_void': (
        't\n1 0 -1 2 u=1 lat=1 fill=0:1 0:0 0:0 0 0 40 40 imp:n=1\n'
        '2 0 -5 6 fill=1 imp:n=1\n3 0 -6 imp:n=1\n4 0 5 imp:n=0\n\n'
        '1 px 1\n2 px -1\n5 so 10\n6 so 0.5\n\n', []),
    'cone_selector_not_unit': (
        't\n1 0 -1 imp:n=1\n2 0 1 imp:n=0\n\n1 kz 0 1 2\n\n', []),
    'hex_lattice_nonprism_hang': (
        't\n1 0 11 12 -13 14 15 16 u=1 lat=2 fill=0:1 0:1 0:0 2 2 2 2 imp:n=1\n'
        '2 0 -5 6 fill=1 imp:n=1\n3 0 -6 u=2 imp:n=1\n4 0 -6 imp:n=1\n'
        '5 0 5 imp:n=0\n\n11 p 0.5 0.5 -0.5 -2.0\n12 p 1.0 -0.5 -1.0 0.5\n'
        '13 p 0.0 2.0 -1.0 0.5\n14 p 1.0 -1.0 1.0 -0.5\n15 p 2.0 -0.5 0.0 1.0\n'
        '16 p 1.0 2.0 0.5 0.5\n5 so 10\n6 so 0.5\n\n', []),
    'hex_lattice_nonprism_accepted': (
        'c17 generated deck\n1 0 -13 -7 -8\n2 0 21 -22 -23 -24 25 -26 u=1 lat=2 fill=-1:0 -1:1 1 0 2 2 0 2\n3 0 -13 -8 fill=1\n6 0 13 8 u=2\n7 0 -8\n\n5 rec 0.5 -2 -2 0 0 1.7998046875 4.0244140625 0 0 0 1.251953125 0\n7 cx 2.0419921875\n8 cx 3.0537109375\n13 kx -2 0.267578125 -1\n21 p 2 -0.5 -1 0.5\n22 p 0.5 1 0.5 2\n23 p -0.5 -1 0 2\n24 p -1 0.5 2 1\n25 p 2 2 -1 -1\n26 p 0.5 0 0 2\n\nimp:n 1 1 1 1 0\n', ['--max-inline-score', '0.5']),
    'anonymous_error_surface_arity': (
        't\n1 0 -1 imp:n=1\n2 0 1 imp:n=0\n\n1 kz 1\n\n', []),
    'anonymous_error_tr_arity': (
        't\n1 0 -1 imp:n=1\n2 0 1 imp:n=0\n\n1 so 1\n\n'
        'tr4 0 0 0 1 0 0 0 1\n', []),
    'anonymous_error_fill_surplus': (
        't\n1 0 -1 2 -3 4 u=1 lat=1 fill=0:1 0:1 0:0 2 2 2 2 9 imp:n=1\n'
        '2 0 -5 fill=1 imp:n=1\n3 0 -6 u=2 imp:n=1\n4 0 5 imp:n=0\n\n'
        '1 px 1\n2 px -1\n3 py 1\n4 py -1\n5 so 10\n6 so 0.5\n\n', []),
    'anonymous_error_hex_planes': (
        't\n1 0 -11 12 -13 14 -15 16 -17 u=1 lat=2 fill=0:1 0:1 0:0 2 2 2 2 imp:n=1\n'
        '2 0 -5 6 fill=1 imp:n=1\n3 0 -6 u=2 imp:n=1\n4 0 -6 imp:n=1\n'
        '5 0 5 imp:n=0\n\n11 px 1\n12 px -1\n'
        '13 p 0.5 0.8660254037844386 0 1\n14 p 0.5 0.8660254037844386 0 -1\n'
        '15 p -0.5 0.8660254037844386 0 1\n16 p -0.5 0.8660254037844386 0 -1\n'
        '17 pz 2\n5 so 10\n6 so 0.5\n\n', []),
    'facet_unchecked_in_skipped_cell': (
        't\n1 0 -1 imp:n=1\n2 0 1 -2.9 imp:n=0\n3 0 2 imp:n=0\n\n'
        '1 so 1\n2 rcc 0 0 0 0 0 5 3\n\n', []),
    'facet_zero_selects_last': (
        't\n1 0 -1.0 imp:n=1\n2 0 1 imp:n=0\n\n1 rcc 0 0 0 0 0 2 1\n\n', []),
}


# minimised corpus: one small deck per rejected fault class, with the exception
# class the repaired code answers with (run on every check, whatever the seed)
_BASE = ('t\n1 0 -1 {c1} imp:n=1\n2 0 1 -2 imp:n=1\n3 0 2 imp:n=0\n{cells}\n'
         '1 so 1\n2 rcc 0 0 0 0 0 5 3\n{surfs}\n{data}\n')
_LAT = ('t\n1 0 -11 12 -13 14 u=1 lat=1 {fill} imp:n=1\n2 0 -5 6 fill=1 imp:n=1\n'
        '3 0 -6 u=2 imp:n=1\n4 0 -6 imp:n=1\n5 0 5 imp:n=0\n\n'
        '11 px 1\n12 px -1\n13 py 1\n14 py -1\n5 so 10\n6 so 0.5\n\n')


def _b(c1='', cells='', surfs='', data=''):
    return _BASE.format(c1=c1, cells=cells, surfs=surfs, data=data)


CORPUS = [
    ('control', _b(), [], None),
    ('control_lattice', _LAT.format(fill='fill=0:1 0:1 0:0 2 2 2 2'), [], None),
    ('control_latopt', _LAT.format(fill='fill=2'), ['--lattice', '1,0:1,0:1'],
     None),
    ('control_tr', _b(data='tr4 0 0 0 1 0 0 0 1 0 0 0 1'), [], None),
    ('tr_card_m', _b(data='tr4 0 0 0 1 0 0 0 1 0 0 0 1 -1'), [],
     'ETransformation'),
    ('tr_card_m_twin', _b(data='tr4 1 2 3 0 1 0 -1 0 0 0 0 1\ntr5 1 2 3 0 1 0 -1 0 0 0 0 1 -1'),
     [], 'ETransformation'),
    ('trcl_m_twin_of_card', _b(c1='trcl=(1 2 3 0 1 0 -1 0 0 0 0 1 -1)',
                                data='tr4 1 2 3 0 1 0 -1 0 0 0 0 1'), [],
     'ETransformation'),
    ('mixed_fractions_minus_first', _b(data='m2 1001 -2 8016 1'), [],
     'EMixedSigns'),
    ('mixed_fractions_minus_minus_plus', _b(data='m2 1001 -2 8016 -1 6000 1'),
     [], 'EMixedSigns'),
    ('facet_on_one_piece_surface', _b(c1='1.2'), [], 'ECellConversion'),
    ('star_tr_card_m', _b(data='*tr4 0 0 0 0 90 90 90 0 90 90 90 0 -1'), [],
     'ETransformation'),
    ('trcl_m', _b(c1='trcl=(0 0 0 1 0 0 0 1 0 0 0 1 -1)'), [],
     'ETransformation'),
    ('star_trcl_m', _b(c1='*trcl=(0 0 0 0 90 90 90 0 90 90 90 0 -1)'), [],
     'ETransformation'),
    ('like_trcl_m', _b(cells='4 like 1 but trcl=(0 0 9 1 0 0 0 1 0 0 0 1 -1)\n'),
     [], 'ETransformation'),
    ('control_like', _b(cells='4 like 1 but trcl=(0 0 9)\n'), [], None),
    ('fill_m', _b(c1='fill=3 (0 0 0 1 0 0 0 1 0 0 0 1 -1)',
                  cells='4 0 -1 u=3 imp:n=1\n'), [], 'ETransformation'),
    ('star_fill_m', _b(c1='*fill=3 (0 0 0 0 90 90 90 0 90 90 90 0 -1)',
                       cells='4 0 -1 u=3 imp:n=1\n'), [], 'ETransformation'),
    ('lattice_no_opt', _LAT.format(fill='fill=2'), [], 'EMissingLatticeOpt'),
    ('lattice_dims_few', _LAT.format(fill='fill=0:1 2 2'), [], 'ELattice'),
    ('lattice_dims_many', _LAT.format(fill='fill=0:1 0:1 0:1 2 7r'), [],
     'ELattice'),
    ('lattice_trailing', _LAT.format(fill='fill=0:0 0:1 0:1 2 3r'), [],
     'ELattice'),
    ('control_leading_onepoint', _LAT.format(fill='fill=0:0 0:1 0:0 2 2'), [],
     None),
    ('latopt_dims', _LAT.format(fill='fill=2'), ['--lattice', '1,0:1'],
     'ELattice'),
    ('latopt_malformed', _LAT.format(fill='fill=2'), ['--lattice', '1,0-1,0:1'],
     'ELatNeeds2'),
    ('latopt_four', _LAT.format(fill='fill=2'),
     ['--lattice', '1,0:1,0:1,0:0,0:0'], 'ELatTooMany'),
    ('p_arity', _b(surfs='3 p 1 0 0 1 2'), [], 'EValue'),
    ('s_arity', _b(surfs='3 s 1 0 0'), [], 'EType'),
    ('kz_arity', _b(surfs='3 kz 1'), [], 'EIndex'),
    ('tz_arity', _b(surfs='3 tz 0 0 0 5 1 1 1'), [], 'EValue'),
    ('x_arity', _b(surfs='3 x 1 2 3'), [], 'ENotImplemented'),
    ('rpp_arity', _b(surfs='3 rpp 0 1 0 1 0'), [], 'EMacroBody'),
    ('rhp_arity', _b(surfs='3 rhp 0 0 0 0 0 5 1 0 0 0 1 0'), [], 'EMacroBody'),
    ('unknown_mnemonic', _b(surfs='3 qx 1'), [], 'EValue'),
    ('flagged_macrobody', _b().replace('2 rcc', '*2 rcc'), [],
     'ENotImplemented'),
    ('flagged_macrobody_skip_geomcomp', _b().replace('2 rcc', '+2 rcc'),
     ['--skip-geomcomp'], 'ENotImplemented'),
    ('control_flagged_macrobody_skip_bc', _b().replace('2 rcc', '*2 rcc'),
     ['--skip-boundary-conditions'], None),
    ('control_flagged_sphere', _b().replace('1 so 1', '*1 so 1'),
     ['--skip-geomcomp'], None),
    ('latopt_float_cell', _LAT.format(fill='fill=2'),
     ['--lattice', '1.0,0:1,0:1'], 'ELatCellNotInt'),
    ('latopt_float_cell_truncated', _LAT.format(fill='fill=2'),
     ['--lattice', '1.7,0:1,0:1'], 'ELatCellNotInt'),
    ('t_mnemonic', _b(surfs='3 t 0 0 0 5 1 1'), [], 'EKey'),
    ('facet_range', _b(c1='2.4'), [], 'ECellConversion'),
    ('facet_range_trcl', _b(c1='2.4 trcl=(1 0 0)'), [], 'EIndex'),
    ('facet_zero_trcl', _b(c1='2.0 trcl=(1 0 0)'), [], 'EIndex'),
    ('fill_array_short', _LAT.format(fill='fill=0:1 0:1 0:0 2 2 2'), [],
     'EParseCell'),
    ('fill_array_plus1', _LAT.format(fill='fill=0:1 0:1 0:0 2 2 2 2 9'), [],
     'EKey'),
    ('fill_array_plus4', _LAT.format(fill='fill=0:1 0:1 0:0 2 2 2 2 0 0 0 1'),
     [], 'ETransformation'),
    ('imp_unequal', _b(data='imp:p 1 1 1\nimp:e 1 1'), [], 'EParseCell'),
    ('mixed_fractions', _b(data='m1 1001 0.5 8016 -0.5'), [], 'EMixedSigns'),
    ('lattice_three_planes', _LAT.format(fill='fill=0:1 2 2').replace(
        '-11 12 -13 14', '-11 12 -13'), [], 'ELattice'),
]


# ---------------------------------------------------------------------------
# implementation drivers of the individual functions
# ---------------------------------------------------------------------------

def impl_int(text):
    try:
        return int(text)
    except ValueError:
        return None


def impl_float_ok(text):
    try:
        float(text)
        return True
    except ValueError:
        return False


def impl_num_ok(text):
    from MIP.mip.datacard import to_float
    try:
        to_float(text)
        return True
    except ValueError:
        return False


def impl_latopt(opts):
    from t4_geom_convert.main import parse_lattice
    out = G.guarded(lambda: parse_lattice(list(opts)))
    if out[0] == 'ok':
        return ('ok', [(k, list(v.bounds)) for k, v in out[1].items()])
    return out


def impl_ranges(strs):
    from t4_geom_convert.Kernel.Volume.Lattice import parse_ranges
    out = G.guarded(lambda: parse_ranges(list(strs)))
    if out[0] == 'ok':
        return ('ok', list(out[1].bounds))
    return out


def impl_surface(mn, params):
    from t4_geom_convert.Kernel.FileHandlers.Parser.ParseMCNPSurface import \
        to_surfaces_mcnp
    from t4_geom_convert.Kernel.Surface.ConversionSurfaceMCNPToT4 import \
        convert_mcnp_surface

    def fun():
        msurfs = to_surfaces_mcnp(7, ('', None, mn, list(params)), {})
        t4 = convert_mcnp_surface(7, msurfs)
        return (len(msurfs), len(t4))
    import contextlib
    import io
    with contextlib.redirect_stdout(io.StringIO()):
        return G.guarded(fun)


def impl_normtr(entries):
    from t4_geom_convert.Kernel.Transformation.Transformation import \
        normalize_transform
    return G.guarded(lambda: len(normalize_transform(list(entries))))


def _conv_object(dic_surf_mcnp, dic_cell):
    from t4_geom_convert.Kernel.Volume.CellConversion import CellConversion
    return CellConversion(1000, 1000, {}, {}, dic_surf_mcnp, dic_cell)


def impl_dims(nsurf, bounds):
    '''develop_lattice on a synthetic LAT=1 cell bounded by nsurf planes whose
    FILL array is all zeros (so that only the checks run).'''
    from MIP.geom.parsegeom import get_ast
    from t4_geom_convert.Kernel.FileHandlers.Parser.ParseMCNPSurface import \
        to_surfaces_mcnp
    from t4_geom_convert.Kernel.Volume.CellMCNP import CellMCNP
    from t4_geom_convert.Kernel.Volume.Lattice import (LatticeBounds,
                                                       LatticeSpec)
    from t4_geom_convert.Kernel.Surface.CollectionDict import CollectionDict
    dic = CollectionDict()
    lits = []
    for k in range(nsurf):
        mn = ['px', 'py', 'pz'][(k // 2) % 3]
        val = (1.0 + k) if k % 2 == 0 else -(1.0 + k)
        dic[k + 1] = to_surfaces_mcnp(k + 1, ('', None, mn, [val]), {})
        lits.append(f'-{k + 1}' if k % 2 == 0 else f'{k + 1}')
    lb = LatticeBounds([tuple(b) for b in bounds])
    spec = LatticeSpec(lb, [0] * lb.size())
    cell = CellMCNP('0', None, get_ast(' '.join(lits)), 1.0, 1, spec, None, 1,
                    [])
    conv = _conv_object(dic, {5: cell})
    return G.guarded(lambda: conv.develop_lattice(5))


def impl_facet(nt4, k):
    from MIP.geom.semantics import Surface
    conv = _conv_object({}, {})
    matching = {3: list(range(101, 101 + nt4))}
    return G.guarded(lambda: conv.pot_expand_surfs(Surface(3, sub=k),
                                                   matching) and None)


def impl_cellopts(trs, imps, rank, lat_opt, option):
    from t4_geom_convert.Kernel.FileHandlers.Parser.ParseMCNPCell import \
        ParseMCNPCell
    from t4_geom_convert.Kernel.Volume.Lattice import (LatticeBounds,
                                                       LatticeSpec)
    warnings.simplefilter('ignore')
    pcell = object.__new__(ParseMCNPCell)
    pcell.transforms = {tid: [0.0] * k for tid, k in trs}
    pcell.importances = list(imps)
    pcell.lattice_params = {}
    lat = None if lat_opt is None else LatticeBounds([tuple(b) for b in lat_opt])

    def fun():
        cell = pcell.parse_one_cell_worker(rank, lat, ('0', '-1', option))
        fid = cell.fillid
        if isinstance(fid, LatticeSpec):
            fid = ('lat', list(fid.bounds.bounds), list(fid.spec))
        elif fid is not None:
            fid = ('univ', fid)
        trcl = cell.trcl
        assert len(trcl) <= 1
        return {'imp': cell.importance, 'u': cell.universe, 'fill': fid,
                'filltr': len(cell.filltr or ()), 'lat': cell.lattice,
                'trcl': len(trcl[0]) if trcl else None}
    return G.guarded(fun)


def ccellsum(val):
    fid = val['fill']
    if fid is None:
        cfid = 'None'
    elif fid[0] == 'univ':
        cfid = f'(Some (FUniv {cz(fid[1])}))'
    else:
        cfid = ('(Some (FLat ' + G.cbounds(fid[1]) + ' '
                + clist(copt(u, cz) for u in fid[2]) + '))')
    return (f'(mkCell {cfloat(val["imp"])} {cz(val["u"])} {cfid} '
            f'{cnat(val["filltr"])} {copt(val["lat"], cz)} '
            f'{copt(val["trcl"], cnat)})')


def impl_impcards(cards):
    from t4_geom_convert.Kernel.FileHandlers.Parser.ParseMCNPCell import \
        ParseMCNPCell
    text = ('t\n1 0 -1\n\n1 so 1\n\n'
            + '\n'.join(G.wrap(f'{name} ' + ' '.join(toks))
                        for name, toks in cards) + '\n')
    with impl.mip_parser(text) as parser:
        pcell = object.__new__(ParseMCNPCell)
        pcell.mcnp_parser = parser
        return G.guarded(lambda: list(pcell.parse_importance_cards()))


def impl_material(toks):
    from t4_geom_convert.Kernel.Composition.CompositionConversionMCNPToT4 \
        import compositionConversionMCNPToT4
    text = 't\n1 0 -1\n\n1 so 1\n\n' + G.wrap('m7 ' + ' '.join(toks)) + '\n'
    with impl.mip_parser(text) as parser:
        return G.guarded(lambda: compositionConversionMCNPToT4(parser)
                         and None)


class WatchdogTimeout(Exception):
    '''The conversion did not end within the allowed time.'''


def _alarm(_signum, _frame):
    raise WatchdogTimeout('conversion still running')


def convert_watchdog(text, args, secs=8.0):
    '''impl.convert under a wall-clock watchdog (a generated deck converts in
    ~10 ms; the hexVertices loop never ends on some malformed plane lists).
    impl.convert catches the exception: conv.exc == 'WatchdogTimeout'.'''
    import common
    old = common.arm_watchdog(_alarm, secs)   # CPU-time limit + wall-clock backstop
    try:
        try:
            with warnings.catch_warnings():
                warnings.simplefilter('ignore')
                return impl.convert(text, args, keep_stdout=False)
        finally:
            common.disarm_watchdog(old)
    except WatchdogTimeout:
        # the alarm went off outside the try block of impl.convert (clean-up
        # of the scratch directory): still a run that did not end in time
        conv = impl.ConvResult()
        conv.exc, conv.msg = 'WatchdogTimeout', 'conversion still running'
        return conv


OWN_EXCEPTIONS = {'TransformationError', 'LatticeError', 'MissingLatticeOptError',
                  'ParseMCNPCellError', 'MacroBodyError', 'CellConversionError',
                  'SurfaceConversionError', 'NotImplementedError'}
NAMING_MESSAGES = ('Planes "P" expect', 'The type of this surface does not exist',
                   'same sign', 'no ranges specified', 'too many ranges',
                   'is not an integer', 'needs exactly 2', 'out of range subsurface',
                   'Unexpected number of parameters')


def names_problem(exc, msg):
    '''Does the error of a rejected run say what is wrong?  The converter's own
    exception classes and its worded ValueErrors/IndexErrors do; an exception
    raised by Python itself (IndexError: list index out of range, TypeError:
    _sphere() missing ..., KeyError: 't', StopIteration, AssertionError,
    ZeroDivisionError, unpacking ValueErrors) does not.'''
    if exc in OWN_EXCEPTIONS:
        return True
    return any(text in msg for text in NAMING_MESSAGES)


ANONYMOUS_CLASS = {'surface_arity': 'anonymous_error_surface_arity',
                   'tr_card_arity': 'anonymous_error_tr_arity',
                   'fill_array_len': 'anonymous_error_fill_surplus',
                   'fill_array_surplus_tr': 'anonymous_error_fill_surplus',
                   'lattice_nsurf': 'anonymous_error_hex_planes',
                   'hex_nonprism': 'anonymous_error_hex_planes',
                   'cone_selector': 'cone_selector_not_unit'}


def impl_deck(deck):
    conv = convert_watchdog(G.render(deck), G.cli_args(deck))
    if conv.ok:
        return ('ok', None), conv
    return ('err', G.err_of(conv.exc, conv.msg), conv.exc, conv.msg[:200]), conv


# ---------------------------------------------------------------------------
# generators of the function-level streams
# ---------------------------------------------------------------------------

def gen_int_strings(rng, n):
    out = ['', '0', '12', '-3', '+4', ' 5 ', '1_0', '_1', '1_', '1__0', '--1',
           '+-1', '1.0', '1e3', 'a', '- 1', '00', '-0', ' +7', '9 9', '+', '-',
           ' ', '٣'.encode('ascii', 'ignore').decode(), '0_0', '6.022e23']
    alpha = '0123456789+-_ .e'
    while len(out) < n:
        out.append(''.join(rng.choice(alpha)
                           for _ in range(rng.randint(0, 5))))
    return out


def gen_float_strings(rng, n):
    out = ['', '0', '1.5', '-2.', '.5', '.', '1e5', '1e', 'e5', '1.5e-3',
           '1.5E+3', '+.5e1', '1..2', '1e5.0', '--1', ' 2.5 ', '1 2', '-',
           '1e+', '5.e2', '1.0+0', '1d3', '0x10', '1e-', '.e1', '+.']
    alpha = '0123456789+-. eE'
    while len(out) < n:
        out.append(''.join(rng.choice(alpha)
                           for _ in range(rng.randint(0, 6))))
    return out


def gen_num_strings(rng, n):
    '''Spellings for to_float: Python floats and the Fortran forms.'''
    out = ['5.0+0', '5.0d0', '6.40875-2', '1.5d3', '1.5+3', '1-2', '1d', 'd3',
           '1.5D-3', '+1.-2', '.5+1', '.+1', '1.5e3+2', '1dd2', '1d+2', '1+',
           '1.5.3', '12', '1e5', '', '-', '+-1', '1.d0', '1.5d+', '1.5-+2',
           '-.5d-1', '1_0+2', '1e+', '10.0-1', '-1+0', '2.5d0', '1 +2']
    alpha = '0123456789+-.dDeE'
    while len(out) < n:
        out.append(''.join(rng.choice(alpha)
                           for _ in range(rng.randint(0, 7))))
    return out


def gen_range_string(rng, bad=False):
    def intsp():
        val = rng.choice([0, 0, 1, 2, 4, 5, -1, -3, 10, 12])
        txt = str(val)
        how = rng.random()
        if how < 0.08:
            txt = '+' + txt if val >= 0 else txt
        elif how < 0.12:
            txt = ' ' + txt
        elif how < 0.15 and abs(val) >= 10:
            txt = txt[:-1] + '_' + txt[-1]
        return txt
    txt = intsp() + ':' + intsp()
    if bad:
        how = rng.choice(['colon', 'nocolon', 'float', 'alpha', 'empty',
                          'half', 'us'])
        txt = {'colon': txt + ':' + intsp(), 'nocolon': txt.replace(':', '-'),
               'float': txt + '.5', 'alpha': 'a' + txt, 'empty': '',
               'half': txt.split(':')[0] + ':', 'us': txt + '_'}[how]
    return txt


def gen_latopt(rng, bad=False):
    cell = rng.choice(['1', '10', '200', '5902', ' 7', '+3', '1_0', '-4'])
    ranges = [gen_range_string(rng) for _ in range(rng.choice([1, 2, 3, 3]))]
    opt = ','.join([cell] + ranges)
    if bad:
        how = rng.choice(['noranges', 'many', 'cell', 'range', 'sep', 'trail',
                          'empty', 'mutate'])
        if how == 'noranges':
            opt = cell
        elif how == 'many':
            opt = ','.join([cell] + [gen_range_string(rng) for _ in range(
                rng.choice([4, 5]))])
        elif how == 'cell':
            opt = ','.join([rng.choice(['three', '1.0', '', 'x1', '1e1'])]
                           + ranges)
        elif how == 'range':
            ranges[rng.randrange(len(ranges))] = gen_range_string(rng, True)
            opt = ','.join([cell] + ranges)
        elif how == 'sep':
            opt = opt.replace(',', rng.choice([';', ' ', ',,']), 1)
        elif how == 'trail':
            opt += ','
        elif how == 'empty':
            opt = ''
        else:
            pos = rng.randrange(len(opt) + 1)
            opt = opt[:pos] + rng.choice(',:-+ _.e0a') + opt[pos + rng.choice(
                [0, 1]):]
    return opt


def rotation_entries(rng):
    '''Origin + a rotation matrix none of whose rows is a coordinate axis.'''
    import deck as D
    mat = D.matmul(D.rotation(0, rng.choice([30, 60, 120])),
                   D.matmul(D.rotation(1, rng.choice([45, 30, 150])),
                            D.rotation(2, rng.choice([60, 15, 210]))))
    tr = D.make_tr([rng.choice([0, 1, -2.5]) for _ in range(3)], mat)
    return [float(v) for v in tr['print']]


def gen_normtr(rng):
    n = rng.choice(list(range(0, 17)) + [13, 13, 13, 12, 12, 12, 12, 3, 9, 6])
    full = rotation_entries(rng) + [1.0, 2.0, 0.5, 1.5]
    entries = full[:n]
    if n == 13:
        entries[-1] = rng.choice([1.0, 1.0, -1.0, 0.0, 2.0, -1.0,
                                  1.0000000000000002])
    return entries


def gen_surface_case(rng, mn=None, n=None):
    mns = G.ELEMENTARY + G.MACROS + ['foo', 'pw', 'boxx']
    if mn is None:
        mn = rng.choice(mns)
    ok = G.MCNP_ARITY.get(mn, [rng.randint(1, 6)])
    if mn in ('c', 'k', 't'):
        ok = {'c': [7], 'k': [7, 8, 9], 't': [6]}[mn]
    arity = rng.choice(ok)
    if arity == 6 and mn in ('x', 'y', 'z'):
        arity = 4
    try:
        params = G.valid_params(mn, rng, arity)
    except ValueError:
        params = G.filler_params(arity, rng)
    if n is None:
        n = len(params) if rng.random() < 0.4 else rng.choice(
            [len(params) - 1, len(params) + 1, len(params) + 2,
             rng.randint(1, 16), 30, 31])
        n = max(1, n)
    if n in ok and not (n == 6 and mn in ('x', 'y', 'z')) and n != len(params):
        try:
            params = G.valid_params(mn, rng, n)
        except ValueError:
            pass
    if n < len(params):
        params = params[:n]
    else:
        params = params + G.filler_params(n - len(params), rng)
    # nappe selector equal to zero: counts as "no nappe" in convert_cone
    if mn in ('k/x', 'k/y', 'k/z') and len(params) == 5 and rng.random() < 0.2:
        params[4] = 0.0
    if mn in ('kx', 'ky', 'kz') and len(params) == 3 and rng.random() < 0.2:
        params[2] = 0.0
    if mn == 'k' and len(params) >= 8 and rng.random() < 0.3:
        params[7] = 0.0
    return mn, params


def gen_cell_option(rng):
    '''Free-standing option strings (beyond those of the generated decks).'''
    parts = []
    pool = ['imp', 'fill', 'fillarr', 'lat', 'trcl', 'u', 'rho', 'junk',
            'starfill', 'startrcl', 'imp2', 'imp3', 'imp4']
    for kind in rng.sample(pool, rng.randint(1, 4)):
        if kind == 'imp':
            parts.append(f'imp:n={rng.choice(["1", "0", "2.5", "1e1", "x", "1+0", "2.5d0", "1d"])}')
        elif kind == 'imp2':
            parts.append(f'imp:n,p={rng.choice(["1", "4"])}')
        elif kind == 'imp3':
            # a second entry for the same particle replaces the first
            parts.append(f'imp:n={rng.choice(["0", "3", "0.5"])}')
        elif kind == 'imp4':
            parts.append(f'imp:p,e={rng.choice(["2", "0"])}')
        elif kind == 'fill':
            k = rng.choice([0, 0, 1, 2, 3, 4, 5, 6, 9, 12, 13, 14])
            tr = G.filler_params(k, rng)
            if k == 1:
                tr = [rng.choice([1, 2, 3, 4])]
            if k == 13:
                tr[-1] = rng.choice([1.0, -1.0])
            parts.append(f'fill={rng.choice(["3", "5", "0", "x"])}'
                         + (' (' + ' '.join(G.num(v) for v in tr) + ')'
                            if k else ''))
        elif kind == 'starfill':
            k = rng.choice([3, 6, 9, 12, 13, 2, 5])
            tr = [30.0 * i for i in range(k)]
            if k == 13:
                tr[-1] = rng.choice([1.0, -1.0])
            if rng.random() < 0.15:
                tr = []          # *FILL=n () : no transformation
            parts.append('*fill=4 (' + ' '.join(
                G.fortran_num(v, rng.randrange(8)) for v in tr) + ')')
        elif kind == 'fillarr':
            nr = rng.choice([1, 2, 3])
            ranges = [(rng.choice([-1, 0]), rng.choice([0, 1]))
                      for _ in range(nr)]
            size = 1
            for lo, hi in ranges:
                size *= hi - lo + 1
            size = max(size + rng.choice([0, 0, 0, -1, 1, 2, 3]), 1)
            arr = [str(rng.choice([0, 1, 2])) for _ in range(size)]
            if rng.random() < 0.3 and size > 1:
                arr = [arr[0], f'{size - 1}r']
            if rng.random() < 0.1:
                arr[rng.randrange(len(arr))] = rng.choice(['j', '2j', 'x'])
            parts.append('fill=' + ' '.join(f'{lo}:{hi}' for lo, hi in ranges)
                         + ' ' + ' '.join(arr))
        elif kind == 'lat':
            parts.append(f'lat={rng.choice(["1", "1", "2", "3", "1.0", "a"])}')
        elif kind == 'trcl':
            k = rng.choice([0, 1, 2, 3, 4, 6, 9, 12, 13, 14])
            tr = G.filler_params(k, rng)
            if k == 1:
                tr = [rng.choice([1, 2, 3, 4])]
            if k == 13:
                tr[-1] = rng.choice([1.0, -1.0])
            parts.append('trcl=' + ('(' + ' '.join(
                G.fortran_num(v, rng.randrange(8)) for v in tr) + ')'
                                    if k != 1 else str(tr[0])))
        elif kind == 'startrcl':
            k = rng.choice([3, 6, 9, 12, 13, 4])
            tr = [30.0 * i for i in range(k)]
            if k == 13:
                tr[-1] = rng.choice([1.0, -1.0])
            if rng.random() < 0.15:
                tr = []          # *TRCL=() : the identity
            parts.append('*trcl=(' + ' '.join(
                G.fortran_num(v, rng.randrange(8)) for v in tr) + ')')
        elif kind == 'u':
            parts.append(f'u={rng.choice(["1", "7", "-2", "2.0"])}')
        elif kind == 'rho':
            parts.append(f'rho=-1.5 mat={rng.choice([1, 2])}')
        else:
            parts.append(rng.choice(['vol=1', 'tmp=2.5e-8', 'nonu']))
    return ' '.join(parts)


# ---------------------------------------------------------------------------
# the check
# ---------------------------------------------------------------------------

# The generated Coq files of the ties are evaluated in the background while
# the implementation side of the next ties runs; _flush_ties collects them in
# order (obligations, disagreements) at the end of the run.
_POOL = None
_PENDING = []


def _submit(name, case_type, check_fun, cases):
    global _POOL
    if _POOL is None:
        from concurrent.futures import ThreadPoolExecutor
        _POOL = ThreadPoolExecutor(max_workers=6)
    return _POOL.submit(common.run_case_files, 'c17_' + name, HEADER,
                        case_type, check_fun, list(cases))


UNAVAILABLE = {}     # tie name -> why its implementation-side driver cannot run


def _probe(res, name, fun, mandatory):
    '''Can the implementation-side driver of a function-level tie run on this
    tree?  A rewrite of the code may rename or remove what the driver reaches
    for (private attributes, helper methods, constructor signatures).  Then the
    helper-level tie is skipped and recorded; the same code is still exercised
    through the public entry point by the deck tie, the corpus and the sweep.
    If the function is one the property's anchors name, the obligation is
    reported as undischarged instead (no failing input).'''
    try:
        out = fun()
        gone = out[0] == 'err' and out[2] in ('AttributeError', 'ImportError',
                                              'ModuleNotFoundError', 'NameError')
        why = f'{out[2]}: {out[3]}' if gone else ''
    except (AttributeError, ImportError, NameError, TypeError) as exc:
        gone, why = True, f'{type(exc).__name__}: {exc}'
    if not gone:
        return True
    UNAVAILABLE[name] = why
    res.extra.setdefault('skipped', []).append(
        f'skipped: helper of tie:{name} not present ({why[:120]})')
    res.count(f'skipped:tie:{name}')
    if mandatory:
        res.obligation(f'tie:{name} (function named by the anchors)', False,
                       f'cannot be called on this tree: {why[:200]}')
        res.violation('correspondence',
                      f'tie:{name}: the anchored function cannot be called on '
                      f'this tree: {why[:200]}',
                      {'theorem_or_correspondence': 'tie:' + name},
                      found_input=False)
    return False


def _tie(res, name, case_type, check_fun, cases, metas, describe):
    if name in UNAVAILABLE:
        return
    fut = _submit(name, case_type, check_fun, cases)
    _PENDING.append(('tie', name, fut, len(cases), list(metas), describe))


def _count_outside(res, name, label, case_type, check_fun, cases, limit=None):
    fut = _submit(name, case_type, check_fun, cases)
    _PENDING.append(('outside', label, fut, len(cases), limit, None))


def _flush_ties(res):
    pending, _PENDING[:] = list(_PENDING), []
    for kind, name, fut, ncases, metas, describe in pending:
        bad, errs = fut.result()
        if kind == 'outside':
            res.count(f'{name}:outside-the-model', len(bad))
            if metas is not None:
                res.obligation(f'tie:{name} coverage (at most 10% of the cases '
                               'fall outside the model)',
                               len(bad) * 10 <= ncases and not errs,
                               f'{len(bad)} of {ncases}')
            continue
        res.obligation(f'tie:{name} ({ncases} cases)', not bad and not errs,
                       f'{len(bad)} disagreements {errs[:1]}')
        for idx in bad[:8]:
            what, payload = describe(metas[idx])
            payload['theorem_or_correspondence'] = 'tie:' + name
            res.violation('correspondence', f'tie:{name}: model and '
                          f'implementation disagree: {what}', payload,
                          found_input=False)
        if errs and not bad:
            res.violation('correspondence', f'tie:{name}: generated Coq file '
                          f'did not evaluate: {errs[0][-300:]}',
                          {'theorem_or_correspondence': 'tie:' + name},
                          found_input=False)


ANCHORED = [
    ('t4_geom_convert.main', ['parse_lattice']),
    ('t4_geom_convert.Kernel.Volume.Lattice',
     ['parse_ranges', 'LatticeBounds.size', 'squareLatticeReciprocalVecs']),
    ('t4_geom_convert.Kernel.Transformation.Transformation',
     ['normalize_transform', 'normalize_matrix', 'get_mcnp_transforms']),
    ('t4_geom_convert.Kernel.FileHandlers.Parser.ParseMCNPCell',
     ['ParseMCNPCell.__init__', 'ParseMCNPCell.parse_importance_cards',
      'ParseMCNPCell.parse_one_cell_worker', 'ParseMCNPCell.to_fillid',
      'ParseMCNPCell.parse_keywords', 'ParseMCNPCell.parse_fill_kw',
      'ParseMCNPCell.parse_lat_kw', 'ParseMCNPCell.parse_trcl_kw']),
    ('MIP.mip.datacard', ['expand_data_card', 'to_float']),
    ('t4_geom_convert.Kernel.FileHandlers.Parser.ParseMCNPSurface',
     ['normalize_surface', 'to_surface_mcnp', 'to_surfaces_macro',
      'to_surfaces_mcnp']),
    ('t4_geom_convert.Kernel.Surface.MacroBodies', ['check_params_length']),
    ('t4_geom_convert.Kernel.Surface.ESurfaceTypeMCNP', ['string_to_enum']),
    ('t4_geom_convert.Kernel.Volume.CellConversion',
     ['CellConversion.pot_expand_surfs', 'CellConversion.develop_lattice']),
    ('t4_geom_convert.Kernel.Composition.CompositionConversionMCNPToT4',
     ['compositionConversionMCNPToT4']),
]


def anchored_functions():
    '''The validation code of the property's anchors, resolved tolerantly: a
    name that a rewrite of the code removed or renamed is skipped and reported
    (coverage is information, never a verdict).  Returns (functions, missing).'''
    import importlib
    funcs, missing = [], []
    for modname, names in ANCHORED:
        try:
            mod = importlib.import_module(modname)
        except Exception:       # pylint: disable=broad-except
            missing.extend(f'{modname}.{n}' for n in names)
            continue
        for name in names:
            obj = mod
            for part in name.split('.'):
                obj = getattr(obj, part, None)
                if obj is None:
                    break
            if obj is None or not hasattr(getattr(obj, '__func__', obj),
                                          '__code__'):
                missing.append(f'{modname}.{name}')
            else:
                funcs.append(obj)
    return funcs, missing


# lines of the anchored functions that no deck of this property can reach, by
# their source text
UNREACHABLE = [
    # proved unreachable: normalised transformations never have 13 entries
    # (C17_tr_lengths_never_13)
    "raise NotImplementedError('affine transformations with m!=1 '",
    # normalize_matrix: a matrix given by columns needs nJ entries in a TR card
    # (outside the model, see ASSUMPTIONS)
    'return transpose(normalize_matrix3(transpose(matrix9)))',
    'return transpose(normalize_matrix6(transpose(matrix9)))',
    # expand_data_card is only called with dtype 'int' or 'float'
    "raise ValueError('unrecognized dtype: {}'.format(dtype))",
    # to_surface_mcnp: the cone tuple of every mcnp2cad entry has 3 entries
    'compl_params = (*compl_params, None)',
    "msg = f'Unexpected number of parameters for cone: {compl_params}'",
    'raise ValueError(msg)',
    # to_surfaces_macro: every macrobody of the enum has a branch
    "raise NotImplementedError(f'Macrobody {enum_surface} is not '",
    # develop_lattice is only called on lattice cells
    'return',
]


def run(res, tier, seed, proofs_ok):
    '''Everything below runs under a line tracer restricted to the anchored
    functions (information only: the tracer must never stop the check).'''
    cov = None
    try:
        import c02_cov
        funcs, gone = anchored_functions()
        cov = c02_cov.LineCov(funcs)
        if gone:
            res.extra.setdefault('line_coverage', []).append(
                {'skipped: not present in this tree': gone})
        cov.__enter__()
    except Exception as exc:    # pylint: disable=broad-except
        cov = None
        res.extra.setdefault('line_coverage', []).append(
            {'coverage tracer not started': repr(exc)})
    try:
        _run(res, tier, seed, proofs_ok)
    finally:
        if cov is not None:
            try:
                cov.__exit__(None, None, None)
            except Exception:   # pylint: disable=broad-except
                pass
    if cov is None:
        return
    try:
        total, missing = cov.missing(UNREACHABLE)
        res.obligation(f'coverage: the generated inputs execute every '
                       f'reachable line of the anchored validation code '
                       f'({total} lines of {len(cov.codes)} code objects)',
                       not missing, f'never executed: {missing[:8]}')
        res.extra['anchored_lines'] = total
    except Exception as exc:    # pylint: disable=broad-except
        res.extra.setdefault('line_coverage', []).append(
            {'coverage report failed': repr(exc)})


def _run(res, tier, seed, proofs_ok):
    rng = random.Random(seed)
    quick = tier == 'quick'
    UNAVAILABLE.clear()
    ok_num = _probe(res, 'num', lambda: ('ok', impl_num_ok('1.5')), False)
    ok_latopt = _probe(res, 'latopt', lambda: impl_latopt(['1,0:1']), True)
    ok_ranges = _probe(res, 'ranges', lambda: impl_ranges(['0:1']), True)
    ok_surface = _probe(res, 'surface', lambda: impl_surface('so', [1.0]), False)
    ok_normtr = _probe(res, 'normtr', lambda: impl_normtr([0.0, 0.0, 0.0]), True)
    ok_dims = _probe(res, 'dims', lambda: impl_dims(2, [(0, 1)]), False)
    ok_facet = _probe(res, 'facet', lambda: impl_facet(2, 1), False)
    ok_cell = _probe(res, 'cellopts', lambda: impl_cellopts(
        [], [1.0], 0, None, 'imp:n=1'), False)
    ok_imp = _probe(res, 'impcards', lambda: impl_impcards(
        [['imp:n', ['1']]]), False)
    ok_mat = _probe(res, 'material', lambda: impl_material(['1001', '1']), True)
    res.rule = ('valid decks drawn from 11 features (TR cards, surface TR, '
                'FILL, FILL transformation, rectangular lattices with array or '
                '--lattice, TRCL, IMP cards, facets, complements, materials) '
                'over every supported mnemonic; 21 fault classes injected at '
                'up to 3 applicable cards each; function-level streams '
                '(strings, arities 1..16/30/31 of every mnemonic, '
                'transformation lengths 0..16); non-trivial = a faulted deck '
                'or a function-level case; distinct by rendered input')

    # ---- 1. known-finding witnesses --------------------------------------
    for cls, (text, args) in WITNESSES.items():
        conv = convert_watchdog(text, args, 3.0 if "hang" in cls else 8.0)
        still = conv.ok
        if cls.startswith('anonymous_error'):
            still = (not conv.ok) and not names_problem(conv.exc, conv.msg)
        elif 'hang' in cls:
            still = conv.exc == 'WatchdogTimeout'
        res.count('witness:' + cls + (':still-fails' if still else ':repaired'))
        if still:
            res.violation('impl-violation',
                          f'witness of {cls}: ' + (
                              'converted normally' if conv.ok else
                              f'{conv.exc}: {conv.msg[:80]}'),
                          {'input': {'deck_text': text, 'args': args}},
                          cls=cls, found_input=True)

    bad_corpus = []
    for name, text, args, expected in CORPUS:
        conv = convert_watchdog(text, args)
        got = None if conv.ok else G.err_of(conv.exc, conv.msg)
        res.seen(('corpus', name))
        res.count('corpus:' + name + ':' + (got or 'ok'))
        if got != expected:
            bad_corpus.append(name)
            if expected is None:
                what = (f'corpus deck {name} (valid) rejected: {conv.exc}: '
                        f'{conv.msg[:150]}')
            elif got is None:
                what = (f'corpus deck {name} (fault: must be rejected with '
                        f'{expected}) converted normally')
            else:
                what = None     # still rejected, by another exception class
            if what:
                res.violation('impl-violation', what,
                              {'input': {'deck_text': text, 'args': args},
                               'expected': expected}, found_input=True)
            else:
                res.violation('correspondence',
                              f'corpus deck {name}: rejected with {got} '
                              f'instead of {expected}',
                              {'input': {'deck_text': text, 'args': args},
                               'expected': expected,
                               'theorem_or_correspondence': 'corpus'},
                              found_input=False)
    res.obligation(f'corpus ({len(CORPUS)} minimised decks: expected outcome)',
                   not bad_corpus, ', '.join(bad_corpus))

    # ---- 2a. strings ------------------------------------------------------
    ints = gen_int_strings(rng, 300 if quick else 3000)
    _tie(res, 'int', 'string * option Z', 'check_int',
         [cpair(cstr(s), copt(impl_int(s), cz)) for s in ints], ints,
         lambda s: (f'int({s!r})', {'input': {'int': s}}))
    floats = gen_float_strings(rng, 300 if quick else 3000)
    _tie(res, 'float', 'string * bool', 'check_float_lit',
         [cpair(cstr(s), cbool(impl_float_ok(s))) for s in floats], floats,
         lambda s: (f'float({s!r})', {'input': {'float': s}}))
    nums = gen_num_strings(rng, 400 if quick else 4000) if ok_num else []
    _tie(res, 'num', 'string * bool', 'check_num_lit',
         [cpair(cstr(s), cbool(impl_num_ok(s))) for s in nums], nums,
         lambda s: (f'to_float({s!r})', {'input': {'num': s}}))
    for s in ints + floats + nums:
        res.seen(('str', s))
    n_opt = 250 if quick else 2500
    opts = [['200,2:5,0:4', '5902,0:5,0:5,0:5', '10,-4:4'], ['malformed'],
            ['three,-1:5'], ['100,'], ['100,0:4,0:4,0:4,0:4'],
            ['100,0:6.022e23'], ['100,-6.022e23:0'], [], ['1,0:1', '1,0:2']]
    while len(opts) < n_opt:
        k = rng.choice([1, 1, 1, 2, 3])
        bad_at = rng.randrange(k) if rng.random() < 0.6 else -1
        opts.append([gen_latopt(rng, bad=(i == bad_at)) for i in range(k)])
    cases, metas = [], []
    for olist in (opts if ok_latopt else []):
        out = impl_latopt(olist)
        cases.append(cpair(clist(cstr(o) for o in olist), G.cres(
            out, lambda v: clist(cpair(cz(k), G.cbounds(b)) for k, b in v))))
        metas.append((olist, out))
        res.seen(('latopt', olist))
        res.count('latopt:' + (out[1] if out[0] == 'err' else 'ok'))
        # sweep oracle: a malformed --lattice argument must be rejected
        indep = all(re.fullmatch(
            r'\s*[-+]?\d+(_\d+)*\s*(,\s*[-+]?\d+(_\d+)*\s*:\s*[-+]?\d+(_\d+)*'
            r'\s*){1,3}', o) for o in olist)
        if out[0] == 'ok' and not indep:
            res.violation('impl-violation',
                          f'malformed --lattice argument accepted: {olist}',
                          {'input': {'latopt': olist}}, found_input=True)
        if out[0] == 'err' and indep:
            res.violation('impl-violation',
                          f'well-formed --lattice argument rejected: {olist} '
                          f'{out}', {'input': {'latopt': olist}},
                          found_input=True)
    _tie(res, 'latopt', 'list string * res (list (Z * bounds))',
         'check_lattice_opt', cases, metas,
         lambda m: (f'{m[0]} -> {m[1]}', {'input': {'latopt': m[0]}}))
    rlists = [['0:4', '0:4', '0:4'], ['1:2', '3:4', '5:6', '7:8'], [],
              ['0::5']]
    while len(rlists) < n_opt:
        k = rng.choice([0, 1, 2, 3, 4])
        bad_at = rng.randrange(k) if k and rng.random() < 0.5 else -1
        rlists.append([gen_range_string(rng, bad=(i == bad_at))
                       for i in range(k)])
    cases, metas = [], []
    for rl in (rlists if ok_ranges else []):
        out = impl_ranges(rl)
        cases.append(cpair(clist(cstr(o) for o in rl),
                           G.cres(out, G.cbounds)))
        metas.append((rl, out))
        res.seen(('ranges', rl))
    _tie(res, 'ranges', 'list string * res bounds', 'check_ranges', cases,
         metas, lambda m: (f'{m[0]} -> {m[1]}', {'input': {'ranges': m[0]}}))

    # ---- 2b. surfaces: every mnemonic x every arity, then random ---------
    scases = []
    for mn in G.ELEMENTARY + G.MACROS + ['foo']:
        for n in list(range(1, 17)) + [30, 31]:
            scases.append(gen_surface_case(rng, mn, n))
    for _ in range(300 if quick else 4000):
        scases.append(gen_surface_case(rng))
    cases, metas = [], []
    for mn, params in (scases if ok_surface else []):
        out = impl_surface(mn, params)
        cases.append(cpair(cpair(cstr(mn), clist(cfloat(v) for v in params)),
                           G.cres(out, lambda v: cpair(cnat(v[0]), cnat(v[1])))))
        metas.append((mn, params, out))
        res.seen(('surf', mn, params))
        res.count(f'surface:{"ok" if out[0] == "ok" else out[1]}')
        # sweep oracle: an arity MCNP does not define must be rejected
        n = len(params)
        if mn in G.MCNP_ARITY:
            legal = n in G.MCNP_ARITY[mn] and not (
                n == 6 and mn in ('x', 'y', 'z'))
            if out[0] == 'ok' and not legal:
                cls = None
                if mn in SURPLUS_MAX and n > SURPLUS_MAX[mn]:
                    cls = 'surplus_surface_params'
                elif mn == 'gq' and n < 10:
                    cls = 'gq_short_params'
                res.violation('impl-violation',
                              f'{mn.upper()} card with {n} parameters is '
                              f'converted ({out[1]})',
                              {'input': {'surface': [mn, params]}}, cls=cls,
                              found_input=True)
            if out[0] == 'err' and legal:
                res.violation('impl-violation',
                              f'valid {mn.upper()} card with {n} parameters '
                              f'rejected: {out}',
                              {'input': {'surface': [mn, params]}},
                              found_input=True)
        elif mn not in ('c', 'k', 't') and out[0] == 'ok':
            res.violation('impl-violation',
                          f'unknown mnemonic {mn} accepted',
                          {'input': {'surface': [mn, params]}},
                          found_input=True)
    _tie(res, 'surface', '(string * list float) * res (nat * nat)',
         'check_surface', cases, metas,
         lambda m: (f'{m[0]} {m[1]} -> {m[2]}',
                    {'input': {'surface': [m[0], m[1]]}}))

    # ---- 2c. normalize_transform -----------------------------------------
    cases, metas = [], []
    twins = []
    for _ in range((300 if quick else 3000) if ok_normtr else 0):
        if twins:
            entries = twins.pop()
        else:
            entries = gen_normtr(rng)
            if len(entries) == 12 and rng.random() < 0.7:
                # the same twelve entries again, with a 13th entry m != 1
                twins.append(entries + [rng.choice([-1.0, 0.0, 2.0])])
        with warnings.catch_warnings():
            warnings.simplefilter('ignore')
            out = impl_normtr(entries)
        cases.append(cpair(clist(cfloat(v) for v in entries),
                           G.cres(out, cnat)))
        metas.append((entries, out))
        res.seen(('normtr', entries))
        res.count(f'normtr:{len(entries)}:{"ok" if out[0] == "ok" else out[1]}')
        if len(entries) == 13 and entries[-1] != 1.0 and out[0] == 'ok':
            res.violation('impl-violation',
                          f'transformation with m={entries[-1]} accepted',
                          {'input': {'normtr': entries}}, found_input=True)
    _tie(res, 'normtr', 'list float * res nat', 'check_normtr', cases, metas,
         lambda m: (f'{m[0]} -> {m[1]}', {'input': {'normtr': m[0]}}))

    # ---- 2d. develop_lattice dimension checks, facet check ----------------
    cases, metas = [], []
    dims_inputs = []
    for nsurf in (1, 2, 3, 4, 5, 6, 7, 8):
        for _ in range(12 if quick else 80):
            k = rng.choice([0, 1, 2, 3, 3, 4])
            bounds = []
            for _ in range(k):
                lo = rng.choice([-1, 0, 0, 2])
                bounds.append((lo, lo + rng.choice([0, 0, 1, 2])))
            dims_inputs.append((nsurf, bounds))
    for nsurf, bounds in (dims_inputs if ok_dims else []):
        out = impl_dims(nsurf, bounds)
        cases.append(cpair(cpair(cnat(nsurf), G.cbounds(bounds)),
                           G.cres(out, lambda _v: 'tt')))
        metas.append((nsurf, bounds, out))
        res.seen(('dims', nsurf, bounds))
        res.count(f'dims:{"ok" if out[0] == "ok" else out[1]}')
    _tie(res, 'dims', '(nat * bounds) * res unit', 'check_dims_surfs', cases,
         metas, lambda m: (f'{m[0]} planes, ranges {m[1]} -> {m[2]}',
                           {'input': {'dims': [m[0], m[1]]}}))
    cases, metas = [], []
    for nt4 in (range(1, 9) if ok_facet else []):
        for k in range(0, 10):
            out = impl_facet(nt4, k)
            cases.append(cpair(cpair(cnat(nt4), cnat(k)),
                               G.cres(out, lambda _v: 'tt')))
            metas.append((nt4, k, out))
            res.seen(('facet', nt4, k))
            if k > nt4 and out[0] == 'ok':
                res.violation('impl-violation',
                              f'facet {k} of a surface with {nt4} facets '
                              'accepted', {'input': {'facet': [nt4, k]}},
                              found_input=True)
    _tie(res, 'facet', '(nat * nat) * res unit', 'check_facet', cases, metas,
         lambda m: (f'facet {m[1]} of {m[0]} -> {m[2]}',
                    {'input': {'facet': [m[0], m[1]]}}))

    # ---- 2e. IMP cards, material cards -----------------------------------
    cases, metas = [], []
    # abbreviations outside the model (skipped by the tie, executed for coverage)
    fixed_imp = [[['imp:n', ['1', '2ilog', '8']]], [['imp:n', ['1', '2i', '4']]],
                 [['imp:n', ['1', '3m', '2.0+0m']]], [['imp:n', ['1', 'm']]],
                 [['imp:n', ['1', 'log', '4']]]]
    for _ in range((60 if quick else 600) if ok_imp else 0):
        ncards = rng.choice([0, 1, 1, 2, 2, 3])
        n = rng.randint(1, 6)
        cards = []
        if fixed_imp:
            cards = fixed_imp.pop()
            ncards = 0
        names = rng.sample(['imp:n', 'imp:p', 'imp:e', 'imp:n,p'], ncards)
        for name in names:
            m = n if rng.random() < 0.7 else max(1, n + rng.choice([-1, 1, 2]))
            toks = [rng.choice(['1', '0', '2', '4.5', '1e1', '1+0', '2.5d0',
                               '40-1']) for _ in range(m)]
            how = rng.random()
            if how < 0.2 and m > 2:
                toks = toks[:1] + [f'{m - 1}r']
            elif how < 0.3 and m > 1:
                toks[-1] = 'r'
            elif how < 0.36 and m > 1:
                toks[rng.randrange(1, m)] = rng.choice(['j', '2j'])
            elif how < 0.6 and m > 2:
                # nI and xM (modelled on float cards), LOG (outside the model)
                toks[rng.randrange(1, m - 1)] = rng.choice(
                    ['2m', '1.5+0m', 'm', 'i', '2i', '3i', 'ilog', '2log',
                     '0.5m', 'xm', '0i'])
            elif how < 0.4 and m > 1:
                # (a first token that is not a number is taken into the card
                # name by MIP's card splitting: outside the model)
                toks[rng.randrange(1, m)] = rng.choice(['x', '1..', 'r1'])
            cards.append([name, toks])
        out = impl_impcards(cards)
        cases.append(cpair(clist(clist(G.ctok(t) for t in toks)
                                 for _, toks in cards),
                           G.cres(out, lambda v: clist(copt(x, cfloat)
                                                       for x in v))))
        metas.append((cards, out))
        res.seen(('imp', cards))
        res.count(f'impcards:{"ok" if out[0] == "ok" else out[1]}')
    _tie(res, 'impcards', 'list (list ftok) * res (list (option float))',
         'check_impcards', cases, metas,
         lambda m: (f'{m[0]} -> {m[1]}', {'input': {'impcards': m[0]}}))
    cases, metas = [], []
    for _ in range((60 if quick else 600) if ok_mat else 0):
        toks = G.gen_material(rng)
        how = rng.random()
        if how < 0.4:
            idx = [i for i, t in enumerate(toks) if '=' not in t][1::2]
            j = rng.choice(idx)
            toks[j] = toks[j][1:] if toks[j].startswith('-') else '-' + toks[j]
        elif how < 0.5:
            toks = toks[:-1]
        out = impl_material(toks)
        cases.append(cpair(clist(cstr(t) for t in toks),
                           G.cres(out, lambda _v: 'tt')))
        metas.append((toks, out))
        res.seen(('mat', toks))
        fr = [t for t in toks if '=' not in t][1::2]
        mixed = len({t.startswith('-') for t in fr}) > 1
        if mixed and out[0] == 'ok':
            res.violation('impl-violation', f'mixed-sign card accepted {toks}',
                          {'input': {'material': toks}}, found_input=True)
    _tie(res, 'material', 'list string * res unit', 'check_material', cases,
         metas, lambda m: (f'{m[0]} -> {m[1]}', {'input': {'material': m[0]}}))

    # ---- 3. decks: control stream, fault injection, sweep -----------------
    n_valid = 60 if quick else 1000
    per_class = 12 if quick else 200
    decks = []      # (deck, fault class or None, where)
    for _ in range(n_valid):
        decks.append((G.gen_valid_deck(rng), None, ''))
    for cls, (fun, feats) in G.FAULTS.items():
        made = 0
        tries = 0
        while made < per_class and tries < per_class * 6:
            tries += 1
            feat = set(feats) | {f for f in ALL_FEATURES if rng.random() < 0.3}
            if cls == 'lattice_no_opt' and rng.random() < 0.6:
                feat.add('latopt')
            base = G.gen_valid_deck(rng, feat)
            faulted_list = fun(base, rng)
            if faulted_list and cls in G.AFTER_VALID:
                decks.append((base, None, f'before {cls}'))
            for faulted, where in faulted_list:
                decks.append((faulted, cls, where))
                made += 1
    deck_cases, deck_metas = [], []
    cell_cases, cell_metas = [], []
    seen_cells = set()
    for deck, cls, where in decks:
        out, conv = impl_deck(deck)
        text = G.render(deck)
        res.seen((text, G.cli_args(deck)), nontrivial=cls is not None)
        res.count(f'deck:{cls or "valid"}:{"ok" if out[0] == "ok" else out[1]}')
        payload = {'input': {'deck': deck, 'deck_text': text,
                             'args': G.cli_args(deck)},
                   'fault': cls, 'where': where, 'observed': list(out)}
        if cls is None and out[0] != 'ok':
            res.violation('impl-violation',
                          f'valid deck rejected: {out[2]}: {out[3]}', payload,
                          found_input=True)
        if cls is not None and cls not in G.NEUTRAL and out[0] == 'ok':
            res.violation('impl-violation',
                          f'faulted deck ({cls}: {where}) converted normally',
                          payload, cls=classify(cls, where, deck),
                          found_input=True)
        if out[0] == 'err' and out[2] == 'WatchdogTimeout':
            res.count(f'hang:{cls or "valid"}')
            res.violation('impl-violation',
                          f'the conversion does not end ({cls}: {where})',
                          payload, cls=('hex_lattice_nonprism_hang'
                                        if cls == 'hex_nonprism' else None),
                          found_input=True)
        elif cls is not None and cls not in G.NEUTRAL and out[0] == 'err' \
                and not names_problem(out[2], out[3]):
            res.count(f'anonymous:{cls}:{out[2]}')
            res.violation('impl-violation',
                          f'faulted deck ({cls}: {where}) is rejected by an '
                          f'error that does not name the problem: {out[2]}: '
                          f'{out[3][:80]}', payload,
                          cls=ANONYMOUS_CLASS.get(cls), found_input=True)
        if cls in G.SWEEP_ONLY:
            continue
        deck_cases.append(cpair(G.cdeck(deck), G.cres(out, lambda _v: 'tt')))
        deck_metas.append((deck, cls, where, out))
        if len(res.samples) < 3 and cls is not None:
            res.sample({'fault': cls, 'where': where, 'deck': text,
                        'outcome': out[1] if out[0] == 'err' else 'ok'})
        # the option strings of the cells feed the cell-level tie
        for rank, cell in enumerate(deck['cells']):
            key = cell['opts']
            if key in seen_cells or len(cell_cases) > (400 if quick else 4000):
                continue
            seen_cells.add(key)
            trs = [(t['id'], 12) for t in deck['trs']]
            lat = None
            for opt in deck['latopts']:
                m = re.fullmatch(rf'{cell["id"]},([-0-9:,]+)', opt)
                if m and re.fullmatch(r'-?\d+:-?\d+(,-?\d+:-?\d+)*', m.group(1)):
                    lat = [tuple(int(x) for x in r.split(':'))
                           for r in m.group(1).split(',')]
            imps = [1.0] * len(deck['cells'])
            cell_metas.append((trs, imps, rank, lat, cell['opts']))
    for _ in range(150 if quick else 2000):
        trs = [(tid, rng.choice([12, 12, 12, 10, 11]))
               for tid in rng.sample([1, 2, 3, 4], rng.randint(0, 3))]
        imps = [rng.choice([1.0, 0.0, 2.0]) for _ in range(rng.randint(0, 3))]
        lat = None
        if rng.random() < 0.4:
            lat = [(0, rng.choice([0, 1, 2])) for _ in range(rng.randint(1, 3))]
        cell_metas.append((trs, imps, rng.randint(0, 3), lat,
                           gen_cell_option(rng)))
    for trs, imps, rank, lat, option in (cell_metas if ok_cell else []):
        out = impl_cellopts(trs, imps, rank, lat, option)
        case = ('(mkCellCase ' + clist(cpair(cz(t), cnat(k)) for t, k in trs)
                + ' ' + clist(f'(Some {cfloat(v)})' for v in imps)
                + f' {cnat(rank)} {copt(lat, G.cbounds)} '
                + clist(G.ctok(t) for t in G.opt_tokens(option)) + ')')
        cell_cases.append(cpair(case, G.cres(out, ccellsum)))
        res.seen(('cell', trs, imps, rank, lat, option))
        res.count(f'cellopts:{"ok" if out[0] == "ok" else out[1]}')
    metas2 = [m + (None,) for m in cell_metas]
    _tie(res, 'cellopts', 'cellcase * res (cellsum (T:=float))',
         'check_cellopts', cell_cases, metas2,
         lambda m: (f'options {m[4]!r} trs={m[0]} imps={m[1]} rank={m[2]} '
                    f'lat={m[3]}', {'input': {'cellopts': list(m[:5])}}))
    _count_outside(res, 'cellmod', 'cellopts',
                   'cellcase * res (cellsum (T:=float))', 'cell_modelled',
                   cell_cases)
    _tie(res, 'deck', 'fdeck * res unit', 'check_deck', deck_cases,
         deck_metas,
         lambda m: (f'{m[1] or "valid"} {m[2]}: implementation {m[3]}',
                    {'input': {'deck': m[0], 'deck_text': G.render(m[0]),
                               'args': G.cli_args(m[0])},
                     'fault': m[1], 'where': m[2]}))
    _count_outside(res, 'deckmod', 'deck', 'fdeck * res unit', 'deck_modelled',
                   deck_cases, limit=10)
    _flush_ties(res)
    res.extra['fault_classes'] = sorted(G.FAULTS)


def replay(path):
    '''Re-run the recorded input through the implementation and the model.'''
    data = json.load(open(path))
    inp = data.get('input', {})
    if 'deck' in inp:
        out, conv = impl_deck(inp['deck'])
        print(G.render(inp['deck']))
        print('arguments:', G.cli_args(inp['deck']))
        print('implementation:', out, conv)
        model, _ = common.coq_eval(HEADER + 'Import ListNotations.\n', 'validate FS ' + G.cdeck(inp['deck']))
        print('model:', model)
    elif 'deck_text' in inp:
        conv = impl.convert(inp['deck_text'], inp.get('args', []))
        print(inp['deck_text'])
        print('implementation:', conv)
    elif 'surface' in inp:
        mn, params = inp['surface']
        print('implementation:', impl_surface(mn, params))
        model, _ = common.coq_eval(HEADER + 'Import ListNotations.\n', f'surface_check FS {cstr(mn)} '
                                   + clist(cfloat(v) for v in params))
        print('model:', model)
    elif 'latopt' in inp:
        print('implementation:', impl_latopt(inp['latopt']))
        model, _ = common.coq_eval(HEADER + 'Import ListNotations.\n', 'parse_lattice '
                                   + clist(cstr(o) for o in inp['latopt']))
        print('model:', model)
    elif 'ranges' in inp:
        print('implementation:', impl_ranges(inp['ranges']))
        model, _ = common.coq_eval(HEADER + 'Import ListNotations.\n', 'parse_ranges '
                                   + clist(cstr(o) for o in inp['ranges']))
        print('model:', model)
    elif 'normtr' in inp:
        print('implementation:', impl_normtr(inp['normtr']))
        model, _ = common.coq_eval(HEADER + 'Import ListNotations.\n', 'norm_tr_len FS '
                                   + clist(cfloat(v) for v in inp['normtr']))
        print('model:', model)
    elif 'cellopts' in inp:
        trs, imps, rank, lat, option = inp['cellopts']
        print('implementation:', impl_cellopts([tuple(t) for t in trs], imps,
                                               rank, lat, option))
        term = ('parse_cell FS ' + clist(cpair(cz(t), cnat(k)) for t, k in trs)
                + ' ' + clist(f'(Some {cfloat(v)})' for v in imps)
                + f' {cnat(rank)} {copt(lat, G.cbounds)} '
                + clist(G.ctok(t) for t in G.opt_tokens(option)))
        model, _ = common.coq_eval(HEADER + 'Import ListNotations.\n', term)
        print('model:', model)
    elif 'impcards' in inp:
        print('implementation:', impl_impcards(inp['impcards']))
    elif 'material' in inp:
        print('implementation:', impl_material(inp['material']))
    elif 'dims' in inp:
        print('implementation:', impl_dims(*inp['dims']))
    elif 'facet' in inp:
        print('implementation:', impl_facet(*inp['facet']))
    elif 'int' in inp:
        print('implementation:', impl_int(inp['int']))
    elif 'num' in inp:
        print('implementation:', impl_num_ok(inp['num']))
    elif 'float' in inp:
        print('implementation:', impl_float_ok(inp['float']))
    print('recorded:', data.get('what'))
    return 0
