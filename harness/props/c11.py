'''C11 — cell expressions denote the Boolean function MCNP assigns to them.

Theorems: coq/Properties/C11.v.  Ties (implementation vs coq/C11/Model.v):
  parse/exhaustive : get_ast (normalize + PEG + GeomSemantics, through the
               shim) vs Model.get_ast on EVERY string up to a length over the
               alphabet "12-#(): ." — by bucketed fingerprints (number of
               accepted strings and a weighted hash of the results per
               two-character prefix, computed on both sides; a bucket that
               differs is re-run case by case)
  parse/corpus, soups, layouts, random, malformed : explicit cases
               (text, result) checked by Exec.check_parse
  complement : CellConversion.pot_complement on generated cell tables vs
               Model.pot_complement
  split      : cellcard.split on cell cards carrying the expression
Sweep (independent oracle): whole decks through impl.convert, membership in
the written volumes (t4eval) against the independent reading of the cards;
truth tables of the implementation's trees (after
parsing, and after complement elimination incl. the sequential loop of
ConstructVolumeT4) against harness/mcnpref.py's evaluator of the abstract
MCNP expression, for all sense assignments; invariance of the tree under all
layouts of the layout family.'''
import itertools
import json
import os
import random
import time

import c11_refparse
import common
import mcnpref
from common import cstr, clist, cpair, cz, cn, copt, cbool

THEOREMS = ['C11_inverse_den', 'C11_inverse_complcell_rejects',
            'C11_pot_complement_den', 'C11_eliminate_all_den',
            'C11_pot_complement_lattice_empty',
            'C11_parse_print_tokens', 'C11_lex_render',
            'C11_parse_print_canonical', 'C11_parse_print',
            'C11_layout_exists', 'C11_pipeline',
            'C11_parse_psem', 'C11_accepted_iff',
            'C11_nested_rejected', 'C11_psem_is_sem',
            'C11_parse_sound', 'C11_lex_sound', 'C11_get_ast_sound',
            'C11_split_card', 'C11_card_geometry', 'C11_split_full',
            'C11_split_full_like_linked',
            'C11_get_ast_accepts_iff',
            'C11_handover_no_complement', 'C11_handover_loop',
            'C11_deck_end_to_end',
            'C11_written_dichotomy', 'C11_rejected_iff_nested',
            'C11_get_ast2_eq_bounded', 'C11_get_ast2_eq_bounded6',
            'C11_normalize2_normal_form', 'C11_peg_normal_form',
            'C11_get_ast2_eq_written', 'C11_get_ast2_eq_accepted',
            'C11_peg_any_tokens', 'C11_get_ast2_eq_lexable',
            'C11_get_ast2_private_syntax_refuted',
            'C11_get_ast2_layout_partial',
            'C11_nested_refuted']
TRUSTED = [
    'two hand-written models of get_ast: coq/C11/Model.v (lexer + pushdown '
    'automaton, used by the theorems) and coq/C11/Regex.v (one rewriting '
    'function per re.sub of normalize() + character-level PEG, shaped like '
    'the code). Trusted: each regex = its rewriting function and the PEG = '
    'peg_start beyond the enumerated lengths (tied step by step on all short '
    'strings). Proved: the two models agree on every string the lexer can '
    'tokenize (any length, accepted or rejected) and on all strings of '
    'length <= 6; not proved: strings longer than 6 that contain a lexical '
    'error (both models reject them in the thorough computation)',
    'harness PEG shim replacing TatSu (reads geom.ebnf and GeomSemantics from '
    'the repository)',
    'fingerprints of the exhaustive tie: equality of (accepted count, weighted '
    'sum mod 2^31-1 of result hashes) per bucket stands for equality of all '
    'results in the bucket',
    'harness/mcnpref.py expression evaluator (sweep oracle), generators',
]
ASSUMPTIONS = [
    'alphabet of cell expressions: digits + - . # ( ) : and blanks; the '
    "implementation's private characters _ ^ * and the word LIKE never occur "
    'in input',
    'surface numbers are non-zero; facet suffix is one digit',
    'layout family of C11_parse_print: any blanks before/after tokens (none '
    'needed between : and #, /repo d73f13e) and '
    'after #, any digit spelling, optional +, redundant parentheses as '
    'MParen nodes of the expression',
    'complement of a lattice cell: the code returns an empty intersection; '
    'tied and proved empty, not compared with MCNP',
    'cell cards (split): LIKE n BUT cards through C15.Model.split_like '
    '(linked); material field read as a decimal number without exponent '
    '(float() of 1e3, inf, nan, 1_0 is outside the model); in the theorem '
    'the density consists of digits, signs and "." (no E exponent letter) and '
    'the expression is separated from it by a blank; the regexes of '
    'cellcard.py are read as greedy scans',
]
HEADER = ('From Coq Require Import List NArith ZArith Bool String Ascii.\n'
          'From T4V Require Import Base.Str C11.Model C11.Exec.\n'
          'Open Scope string_scope.\n')

CLS_NESTED = 'nested_complement_of_cellref'
ALPHABET = '12-#(): .'
ALPHABET3 = '123-#(): .'
FP_P = 2147483647


# ---- implementation side --------------------------------------------------

def impl_get_ast(text):
    '''('ok', tree) | ('err', 'EParse'|'EAttribute')'''
    import MIP.geom.parsegeom as pg
    import tatsu.exceptions
    try:
        return ('ok', canon(pg.get_ast(text)))
    except tatsu.exceptions.ParseException:
        return ('err', 'EParse')
    except AttributeError:
        return ('err', 'EAttribute')


def canon(ast):
    '''Python AST -> nested tuples ('s', z, sub) | ('*', l, r) | (':', l, r) |
    ('^', n) | ('*raw', l, r)'''
    from MIP.geom.semantics import Surface
    if isinstance(ast, Surface):
        return ('s', ast.surface, ast.sub)
    if isinstance(ast, list) and ast[0] == '*' and len(ast) == 3:
        return ('*raw', canon(ast[1]), canon(ast[2]))
    if isinstance(ast, (tuple, list)):
        if ast[0] == '^' and len(ast) == 2:
            return ('^', int(ast[1]))
        if ast[0] in ('*', ':') and len(ast) == 3:
            return (ast[0], canon(ast[1]), canon(ast[2]))
    raise ValueError(f'unexpected AST node {ast!r} ({type(ast).__name__})')


def coq_ast(tree):
    if tree[0] == 's':
        return f'(ASurf {cz(tree[1])} {copt(tree[2], cn)})'
    if tree[0] == '^':
        return f'(ACompl {cn(tree[1])})'
    ctor = {'*': 'AAnd', ':': 'AOr', '*raw': 'ARawAnd'}[tree[0]]
    return f'({ctor} {coq_ast(tree[1])} {coq_ast(tree[2])})'


def coq_res(out):
    return f'(Ok {coq_ast(out[1])})' if out[0] == 'ok' else f'(Err {out[1]})'


# ---- fingerprints (same functions as coq/C11/Exec.v) ----------------------

def h_ast(tree):
    tag = tree[0]
    if tag == 's':
        sub = 0 if tree[2] is None else tree[2] + 1
        return (1 + 3 * (tree[1] % FP_P) + 7 * sub) % FP_P
    if tag == '^':
        return (17 + 47 * tree[1]) % FP_P
    a, b, c = {'*': (11, 31, 37), ':': (13, 41, 43),
               '*raw': (19, 53, 59)}[tag]
    return (a + b * h_ast(tree[1]) + c * h_ast(tree[2])) % FP_P


ERR_CODE = {'EParse': 1, 'EAttribute': 2, 'EKey': 3, 'EFuel': 4, 'EAssert': 5}


def h_res(out):
    if out[0] == 'ok':
        return (1000 + h_ast(out[1])) % FP_P
    return ERR_CODE[out[1]]


def h_str(text, seed=7):
    acc = seed
    for ch in text:
        acc = (acc * 131 + ord(ch)) % FP_P
    return acc


def strings_upto(prefix, n):
    for k in range(n + 1):
        for tup in itertools.product(ALPHABET, repeat=k):
            yield prefix + ''.join(tup)


# ---- abstract MCNP expressions (the spec side of the sweep) ---------------
# E ::= ('s', z, sub) | ('*', a, b) | (':', a, b) | ('#', e) | ('#c', n)
#     | ('p', e)          redundant parentheses

def to_ref(e):
    '''abstract expression -> harness/mcnpref.py expression'''
    tag = e[0]
    if tag == 's':
        return ('s', e[1]) if e[2] is None else ('f', e[1], e[2])
    if tag in ('*', ':'):
        return (tag, to_ref(e[1]), to_ref(e[2]))
    if tag == '#':
        return ('#', to_ref(e[1]))
    if tag == 'p':
        return to_ref(e[1])
    if tag == '#c':
        return e
    raise ValueError(e)


class BoolRef(mcnpref.Reference):
    '''mcnpref's expression semantics over sense assignments instead of
    points: the "point" is a dict (surface, facet) -> positive sense.'''

    def __init__(self, cell_exprs):
        self.cells = {cid: {'id': cid, 'expr': to_ref(e)}
                      for cid, e in cell_exprs.items()}
        self.surfs, self.trs, self.eps = {}, {}, 0.0

    def sense(self, sid, p, facet=None):
        return p[(sid, facet)]

    def holds(self, e, sigma):
        return self.eval_expr(to_ref(e), sigma, sigma)


OPAQUE = (7, 18, 209)   # cells referenced by #n in the parse sweep


CELLBASE = 1000000


class OpaqueRef(BoolRef):
    '''every cell n is a free Boolean variable (CELLBASE + n, None)'''

    def __init__(self):
        super().__init__({})

    def in_cell(self, cid, p):
        return p[(CELLBASE + cid, None)]


def opaque_ref():
    return OpaqueRef()


def cellrefs(e, out):
    if e[0] == '#c':
        out.add(e[1])
    elif e[0] in ('*', ':'):
        cellrefs(e[1], out)
        cellrefs(e[2], out)
    elif e[0] in ('#', 'p'):
        cellrefs(e[1], out)
    return out


def tree_eval(tree, sigma, cellval=None):
    '''implementation tree under a sense assignment'''
    tag = tree[0]
    if tag == 's':
        val = sigma[(abs(tree[1]), tree[2])]
        return val if tree[1] > 0 else not val
    if tag in ('*', '*raw'):
        return (tree_eval(tree[1], sigma, cellval)
                and tree_eval(tree[2], sigma, cellval))
    if tag == ':':
        return (tree_eval(tree[1], sigma, cellval)
                or tree_eval(tree[2], sigma, cellval))
    if tag == '^' and cellval is not None:
        return not cellval(tree[1], sigma)
    raise ValueError(f'complement left in tree: {tree!r}')


def atoms(e, out):
    if e[0] == 's':
        out.add((abs(e[1]), e[2]))
    elif e[0] in ('*', ':'):
        atoms(e[1], out)
        atoms(e[2], out)
    elif e[0] in ('#', 'p'):
        atoms(e[1], out)
    return out


def strip_p(e):
    while e[0] == 'p':
        e = e[1]
    return e


def has_cell_under_not(e, under=False):
    if e[0] == '#c':
        return under
    if e[0] == '#':
        return has_cell_under_not(e[1], True)
    if e[0] == 'p':
        return has_cell_under_not(e[1], under)
    if e[0] in ('*', ':'):
        return (has_cell_under_not(e[1], under)
                or has_cell_under_not(e[2], under))
    return False


# ---- layouts --------------------------------------------------------------
# a layout gives the number of blanks per KIND of gap:
#   op  between two operands of an intersection (1 is added where MCNP needs a
#       blank: between two literals, between #n and an unsigned literal)
#   col around ':'      po after '(' / before ')'     ha after '#'
#   out at both ends of the text                      plus: write '+'

CANON = {'op': 1, 'col': 1, 'po': 0, 'ha': 0, 'out': 0, 'plus': False}


def all_layouts():
    for op, col, po, ha, out, plus in itertools.product(
            (0, 1), (0, 2), (0, 1), (0, 2), (0, 1), (False, True)):
        yield {'op': op, 'col': col, 'po': po, 'ha': ha, 'out': out,
               'plus': plus}


def random_layout(rng):
    return {'op': rng.choice((0, 0, 1, 3)), 'col': rng.choice((0, 1, 2)),
            'po': rng.choice((0, 0, 1, 2)), 'ha': rng.choice((0, 0, 1, 2)),
            'out': rng.choice((0, 1)), 'plus': rng.random() < 0.3,
            'rng': rng}


def render(e, lay, level=0, top=True):
    '''Text of e. level: 0 union, 1 intersection, 2 operand. With lay['rng']
    every gap is drawn separately (>= the layout's minimum).'''
    rng = lay.get('rng')

    def sp(kind, need=0):
        n = max(lay[kind], need)
        if rng is not None and rng.random() < 0.3:
            n += rng.randint(0, 2)
        return ' ' * n

    tag = e[0]
    if tag == 's':
        sign = '-' if e[1] < 0 else ('+' if lay['plus'] else '')
        txt = f'{sign}{abs(e[1])}'
        if lay.get('zeros') and rng is not None and rng.random() < 0.2:
            txt = f'{sign}0{abs(e[1])}'
        if e[2] is not None:
            txt += f'.{e[2]}'
    elif tag == '#c':
        txt = '#' + sp('ha') + str(e[1])
    elif tag == '#':
        txt = ('#' + sp('ha') + '(' + sp('po') + render(e[1], lay, 0, False)
               + sp('po') + ')')
    elif tag == 'p':
        txt = '(' + sp('po') + render(e[1], lay, 0, False) + sp('po') + ')'
    elif tag == '*':
        left = render(e[1], lay, 1, False)
        right = render(e[2], lay, 2, False)
        # where MCNP itself needs a blank: digit followed by digit or sign
        # (two literals), #n followed by an unsigned literal
        need = 0
        if left[-1].isdigit() and (right[0].isdigit() or right[0] in '+-'):
            need = 1
            if right[0] in '+-' and ends_with_cellref(e[1]):
                need = 0
        txt = left + sp('op', need) + right
        if level > 1:
            txt = '(' + sp('po') + txt + sp('po') + ')'
    elif tag == ':':
        txt = (render(e[1], lay, 0, False) + sp('col') + ':' + sp('col')
               + render(e[2], lay, 1, False))
        if level > 0:
            txt = '(' + sp('po') + txt + sp('po') + ')'
    else:
        raise ValueError(e)
    if top:
        txt = sp('out') + txt + sp('out')
    return txt


def ends_with_cellref(e):
    '''the last token of e (as a left operand of an intersection) is #n'''
    tag = e[0]
    if tag == '#c':
        return True
    if tag == '*':
        return ends_with_cellref(e[2]) if e[2][0] != '*' else False
    return False


# ---- generators -----------------------------------------------------------

def gen_expr(rng, depth, n_surf, cells):
    r = rng.random()
    if depth <= 0 or r < 0.3:
        if cells and rng.random() < 0.2:
            return ('#c', rng.choice(cells))
        z = rng.randint(1, n_surf) * rng.choice([1, -1])
        if rng.random() < 0.05:
            z *= rng.choice([10, 100, 12345])
        sub = rng.randint(1, 8) if rng.random() < 0.1 else None
        return ('s', z, sub)
    if r < 0.58:
        return ('*', gen_expr(rng, depth - 1, n_surf, cells),
                gen_expr(rng, depth - 1, n_surf, cells))
    if r < 0.80:
        return (':', gen_expr(rng, depth - 1, n_surf, cells),
                gen_expr(rng, depth - 1, n_surf, cells))
    if r < 0.93:
        return ('#', gen_expr(rng, depth - 1, n_surf, cells))
    return ('p', gen_expr(rng, depth - 1, n_surf, cells))


def small_exprs(k):
    '''every expression with exactly k operands: all binary shapes, both
    operators at every node, '#( )' around any subset of nodes, operand i is
    the literal +-i (sign by parity) or, for one operand at a time, #7.'''
    def shapes(lo, hi):
        if hi - lo == 1:
            yield ('leaf', lo)
            return
        for mid in range(lo + 1, hi):
            for left in shapes(lo, mid):
                for right in shapes(mid, hi):
                    for op in '*:':
                        yield (op, left, right)

    def decorate(shape, cellpos):
        '''all ways of wrapping nodes in '#( )' '''
        if shape[0] == 'leaf':
            i = shape[1]
            base = ('#c', 7) if i == cellpos else \
                ('s', (i + 1) * (1 if i % 2 == 0 else -1), None)
            yield base
            yield ('#', base)
            return
        for left in decorate(shape[1], cellpos):
            for right in decorate(shape[2], cellpos):
                node = (shape[0], left, right)
                yield node
                yield ('#', node)

    for shape in shapes(0, k):
        for cellpos in [None] + list(range(k)):
            yield from decorate(shape, cellpos)


# ---- hand-written corpus: text -> tree MCNP's reading gives (or None when the
# text is not an expression). Written from the MCNP manual, not from the code.
L = lambda z, sub=None: ('s', z, sub)          # noqa: E731
CORPUS = [
    ('1', L(1)), ('-1', L(-1)), ('+1', L(1)), ('12', L(12)), ('1.2', L(1, 2)),
    ('-12.3', L(-12, 3)), ('1 2', ('*', L(1), L(2))),
    ('1  -2', ('*', L(1), L(-2))), ('1:2', (':', L(1), L(2))),
    ('1 : 2', (':', L(1), L(2))),
    ('1 2:3', (':', ('*', L(1), L(2)), L(3))),
    ('1:2 3', (':', L(1), ('*', L(2), L(3)))),
    ('1:2:3', (':', (':', L(1), L(2)), L(3))),
    ('1 2 3', ('*', ('*', L(1), L(2)), L(3))),
    ('1 (2:3)', ('*', L(1), (':', L(2), L(3)))),
    ('(1:2) 3', ('*', (':', L(1), L(2)), L(3))),
    ('(1:2)(3:4)', ('*', (':', L(1), L(2)), (':', L(3), L(4)))),
    ('1(2:3)', ('*', L(1), (':', L(2), L(3)))),
    ('(2:3)1', ('*', (':', L(2), L(3)), L(1))),
    ('( 1 )', L(1)), ('((1))', L(1)), ('( 1 2 )', ('*', L(1), L(2))),
    ('#5', ('^', 5)), ('# 5', ('^', 5)), ('#5 1', ('*', ('^', 5), L(1))),
    ('1 #5', ('*', L(1), ('^', 5))), ('1#5', ('*', L(1), ('^', 5))),
    ('#5#6', ('*', ('^', 5), ('^', 6))),
    ('#5:1', (':', ('^', 5), L(1))),
    ('#(1)', L(-1)), ('#(-1)', L(1)), ('# ( 1 )', L(-1)),
    ('#(1 2)', (':', L(-1), L(-2))), ('#(1:2)', ('*', L(-1), L(-2))),
    ('#(1 2:3)', ('*', (':', L(-1), L(-2)), L(-3))),
    ('#(#(1 2))', ('*', L(1), L(2))),
    ('#(1.2)', L(-1, 2)),
    ('1 #(2 3) 4', ('*', ('*', L(1), (':', L(-2), L(-3))), L(4))),
    ('1#(2)3', ('*', ('*', L(1), L(-2)), L(3))),
    ('(1:2)#(3)', ('*', (':', L(1), L(2)), L(-3))),
    ('#(1)(2)', ('*', L(-1), L(2))),
    ('#5-1', ('*', ('^', 5), L(-1))), ('#12', ('^', 12)),
    ('#105 1', ('*', ('^', 105), L(1))), ('# 0012', ('^', 12)),
    ('1:(#5)', (':', L(1), ('^', 5))),
    # a complement directly after the colon (rejected before /repo d73f13e)
    ('1:#2', (':', L(1), ('^', 2))), ('1 : #2', (':', L(1), ('^', 2))),
    ('1:#(2)', (':', L(1), L(-2))), ('(1):#2', (':', L(1), ('^', 2))),
    ('1 2:#(3 4)', (':', ('*', L(1), L(2)), (':', L(-3), L(-4)))),
    ('#1:#2', (':', ('^', 1), ('^', 2))), ('1:# 2 3', (':', L(1), ('*', ('^', 2), L(3)))),
    # not expressions
    ('', None), (' ', None), ('1 :', None), (': 1', None), ('1 : : 2', None),
    ('()', None), ('(1', None), ('1)', None), ('#', None), ('# #5', None),
    ('- 1', None), ('1 - 2', None), ('1.', None), ('.1', None),
    ('1.2.3', None), ('1-2', None), ('1+2', None), ('#(1', None),
    ('#()', None), ('1 # 2)', None), ('1.23', None), ('--1', None),
]
CORPUS_KNOWN = [       # well-formed, rejected by the code (the known class)
    ('#(-2 #1)', CLS_NESTED), ('#(#1)', CLS_NESTED), ('#(1:(#2) 3)', CLS_NESTED),
    ('#(1:#2 3)', CLS_NESTED),
]


# ---- pot_complement on the implementation ---------------------------------

def make_cells(table_texts, lattice_ids):
    import MIP.geom.parsegeom as pg
    from t4_geom_convert.Kernel.Volume.CellMCNP import CellMCNP
    cells = {}
    for cid, text in table_texts.items():
        cells[cid] = CellMCNP('0', None, pg.get_ast(text), 1.0, 0, None, (),
                              1 if cid in lattice_ids else None, [])
    return cells


def guarded(fun):
    try:
        return ('ok', canon(fun()))
    except AttributeError:
        return ('err', 'EAttribute')
    except KeyError:
        return ('err', 'EKey')
    except RecursionError:
        return ('err', 'EFuel')
    except AssertionError:
        return ('err', 'EAssert')


def impl_complement(table_texts, lattice_ids, target):
    '''canonical outcome of pot_complement on the geometry of `target` in a
    freshly parsed table'''
    from t4_geom_convert.Kernel.Volume.CellConversion import CellConversion
    cells = make_cells(table_texts, lattice_ids)
    conv = CellConversion(1000, 1000, {}, {}, {}, cells)
    return guarded(lambda: conv.pot_complement(cells[target].geometry))


def impl_complement_loop(table_texts):
    '''the loop of ConstructVolumeT4.construct_volume: every cell in
    dictionary order, geometry replaced in place. {cell: outcome}'''
    from t4_geom_convert.Kernel.Volume.CellConversion import CellConversion
    cells = make_cells(table_texts, ())
    conv = CellConversion(1000, 1000, {}, {}, {}, cells)
    outs = {}
    for key in cells:
        try:
            new_geom = conv.pot_complement(cells[key].geometry)
        except (AttributeError, KeyError, RecursionError) as exc:
            outs[key] = ('err', type(exc).__name__)
            continue
        cells[key].geometry = new_geom
        outs[key] = ('ok', canon(new_geom))
    return outs


def impl_loop_abort(table_texts, lattice_ids):
    '''the same loop as the converter runs it: the first exception aborts.
    ('ok', [(cell, tree) in dictionary order]) | ('err', kind)'''
    from t4_geom_convert.Kernel.Volume.CellConversion import CellConversion
    cells = make_cells(table_texts, lattice_ids)
    conv = CellConversion(1000, 1000, {}, {}, {}, cells)
    try:
        for key in cells:
            new_geom = conv.pot_complement(cells[key].geometry)
            cells[key].geometry = new_geom
    except AttributeError:
        return ('err', 'EAttribute')
    except KeyError:
        return ('err', 'EKey')
    except RecursionError:
        return ('err', 'EFuel')
    except AssertionError:
        return ('err', 'EAssert')
    return ('ok', [(key, canon(cells[key].geometry)) for key in cells])


# ---- the run ---------------------------------------------------------------

class Cases:
    '''explicit (text, result) cases for Exec.check_parse'''

    def __init__(self):
        self.cases, self.meta, self.known = [], [], set()

    def add(self, text, out, origin):
        if text in self.known:
            return
        self.known.add(text)
        self.cases.append(cpair(cstr(text), coq_res(out)))
        self.meta.append((text, out, origin))


def classify(e, out):
    '''narrow known-finding class of a rejected well-formed expression'''
    if out == ('err', 'EAttribute') and has_cell_under_not(e):
        return CLS_NESTED
    return None


def sweep_expr(res, ref, e, text, out, origin):
    '''property-level check of one well-formed expression: accepted, and the
    tree denotes the MCNP meaning for all sense assignments. Returns True when
    the expression was accepted.'''
    if out[0] == 'err':
        cls = classify(e, out)
        res.count(f'{origin}:rejected:{cls or "UNEXPECTED"}')
        res.violation('impl-violation',
                      f'well-formed expression {text!r} rejected: {out[1]}',
                      {'input': {'text': text, 'expr': e}, 'observed': out},
                      cls=cls)
        return False
    at = sorted(atoms(e, set()), key=str)
    if (0, None) in at or any(a[0] == 0 for a in at):
        return True             # surface 0: outside the property
    cell_atoms = [(CELLBASE + n, None) for n in sorted(cellrefs(e, set()))]
    n_at = len(at) + len(cell_atoms)
    if n_at <= 10:
        assignments = itertools.product([False, True], repeat=n_at)
    else:               # too many variables: 1024 assignments drawn from text
        local = random.Random(len(text) * 1009 + n_at)
        assignments = [[local.random() < 0.5 for _ in range(n_at)]
                       for _ in range(1024)]
    for bits in assignments:
        sigma = dict(zip(at + cell_atoms, bits))
        want = ref.holds(e, sigma)
        try:
            got = tree_eval(out[1], sigma,
                            lambda n, s: s[(CELLBASE + n, None)])
        except KeyError as exc:     # a surface/facet the expression lacks
            got = f'undefined (tree refers to {exc})'
        if want != got:
            res.count(f'{origin}:sweep-FAIL')
            shown = {f'{k[0]}' + (f'.{k[1]}' if k[1] else ''): v
                     for k, v in sigma.items()}
            res.violation('impl-violation',
                          f'{text!r}: the parsed tree is {got} where the MCNP '
                          f'expression is {want}, senses {shown}',
                          {'input': {'text': text, 'expr': e},
                           'sigma': shown, 'observed': out},
                          found_input=True)
            return True
    res.count(f'{origin}:sweep-ok')
    return True


# ---- the code-shaped model (coq/C11/Regex.v), step by step -----------------
ALPHA_X = '12-#(): .^_*'       # MCNP alphabet + the private characters
ALPHA_XQ = '1-#(): ^_*'        # quick tier: without the passive '2' and '.'
ALPHA_P = '12-+.():*^_'        # what normalize() hands to the PEG


REGEX_HELPERS = [      # (index in Exec.regex_step, module-level name, replacement)
    (1, 're_compl_cell', r' ^(\1)'), (2, 're_compl_surf', r' _('),
    (3, 're_union', ':'), (4, 're_pareno', '('), (5, 're_parenc', ')'),
    (6, 're_pareno_before', r'\1 ('), (7, 're_parenc_after', r') \1'),
    (8, 're_spaces', '*'),
]


def regex_steps():
    '''[(index in Exec.regex_step, name, function)] — the module-level regex
    objects of parsegeom.py are helpers, not anchored functions: one that a
    rewrite has renamed or removed is skipped (the public normalize() and the
    whole get_ast are tied anyway); missing names are returned too'''
    import MIP.geom.parsegeom as pg
    steps = [(0, 'strip', lambda t: t.strip())]
    missing = []
    for idx, name, repl in REGEX_HELPERS:
        rex = getattr(pg, name, None)
        if rex is None or not hasattr(rex, 'sub'):
            missing.append(name)
            continue
        steps.append((idx, name, (lambda t, rex=rex, repl=repl:
                                  rex.sub(repl, t))))
    steps.append((9, 'normalize', pg.normalize))
    return steps, missing


def step_job(job):
    '''fingerprints of the ten string functions on prefix + s, |s| <= n'''
    prefix, n, alphabet = job
    steps, _missing = regex_steps()
    sums = [0] * len(steps)
    for k in range(n + 1):
        for tup in itertools.product(alphabet, repeat=k):
            text = prefix + ''.join(tup)
            hin = h_str(text)
            for i, (_idx, _name, fun) in enumerate(steps):
                sums[i] = (sums[i] + hin * h_str(fun(text), 11)) % FP_P
    return sums


def impl_peg(text):
    '''the PEG of geom.ebnf + GeomSemantics on an already normalized text'''
    import MIP.geom.parsegeom as pg
    import tatsu.exceptions
    from MIP.geom.semantics import GeomSemantics
    try:
        return ('ok', canon(pg.parser.parse(text, semantics=GeomSemantics())))
    except tatsu.exceptions.ParseException:
        return ('err', 'EParse')
    except AttributeError:
        return ('err', 'EAttribute')


def peg_job(job):
    import re
    prefix, n = job
    cell = re.compile(r'_\d')
    total = count = 0
    for k in range(n + 1):
        for tup in itertools.product(ALPHA_P, repeat=k):
            text = prefix + ''.join(tup)
            if cell.search(text):
                continue
            out = impl_peg(text)
            count += out[0] == 'ok'
            total = (total + h_str(text) * h_res(out)) % FP_P
    return total, count


def run_regex_tie(res, quick, pool):
    '''each re.sub of normalize() and the PEG against their explicit models
    of coq/C11/Regex.v, on every short string incl. the private characters'''
    n = 3 if quick else 4
    alpha = ALPHA_XQ if quick else ALPHA_X
    jobs = [(a, n, alpha) for a in alpha]
    sums = pool.map(step_job, jobs)
    steps, missing = regex_steps()
    names = [name for _, name, _ in steps]
    if missing:
        res.extra['skipped'] = [f'helper parsegeom.{m} not present (its step '
                                'tie is skipped; normalize() and get_ast are '
                                'tied)' for m in missing]
    cases = [cpair(common.cnat(steps[k][0]), cstr(pre), cn(sums[j][k]))
             for j, (pre, _, _) in enumerate(jobs) for k in range(len(names))]
    check = (f'(fun c : nat * string * N => let \'(k, p, h) := c in '
             f'N.eqb (step_fp_on {"alphaXq" if quick else "alphaX"} k p {n}) h)')
    bad, errs = common.run_case_files('c11_steps', HEADER, 'nat * string * N',
                                      check, cases,
                                      chunk=40 if quick else 10)
    n_str = sum(len(alpha) ** k for k in range(1, n + 2))
    res.obligation(f'tie:regex steps (strip, the eight re.sub of normalize() '
                   f'and normalize itself vs Regex.v on all {n_str} non-empty '
                   f'strings of length <= {n + 1} over {alpha!r})',
                   not bad and not errs,
                   f'differing: {[(names[i % len(names)], jobs[i // len(names)][0]) for i in bad][:6]} {errs[:1]}')
    for idx in bad[:4]:
        name = names[idx % len(names)]
        res.violation('correspondence',
                      f'regex step {name}: model and implementation differ '
                      f'on strings starting with {jobs[idx // len(names)][0]!r}',
                      {'theorem_or_correspondence': 'tie:regex steps',
                       'input': {'step': name,
                                 'prefix': jobs[idx // len(names)][0]}},
                      found_input=False)
    res.evaluations += n_str * len(names)
    m = 3 if quick else 5
    pjobs = [(a, m) for a in ALPHA_P]
    psums = pool.map(peg_job, pjobs)
    pcases = [cpair(cstr(pre), cn(tot)) for (pre, _), (tot, _) in
              zip(pjobs, psums)]
    pcheck = (f'(fun c : string * N => N.eqb (peg_fp (fst c) {m}) (snd c))')
    bad, errs = common.run_case_files('c11_peg', HEADER, 'string * N', pcheck,
                                      pcases, chunk=1 if not quick else 4)
    p_str = sum(len(ALPHA_P) ** k for k in range(1, m + 2))
    res.obligation(f'tie:peg (geom.ebnf + GeomSemantics vs Regex.peg_start on '
                   f'all {p_str} non-empty strings of length <= {m + 1} over '
                   f'{ALPHA_P!r}, {sum(c for _, c in psums)} accepted)',
                   not bad and not errs,
                   f'buckets differing: {[pjobs[i][0] for i in bad]} {errs[:1]}')
    for idx in bad[:4]:
        res.violation('correspondence',
                      'PEG: model peg_start and the grammar differ on strings '
                      f'starting with {pjobs[idx][0]!r}',
                      {'theorem_or_correspondence': 'tie:peg',
                       'input': {'prefix': pjobs[idx][0]}}, found_input=False)
    res.evaluations += p_str


class Rec:
    '''picklable stand-in for common.Result inside worker processes'''

    def __init__(self):
        self.counts, self.violations, self.extra = {}, [], {}

    def count(self, key, n=1):
        self.counts[key] = self.counts.get(key, 0) + n

    def violation(self, *args, **kwargs):
        if len(self.violations) < 200:
            self.violations.append((args, kwargs))


def exhaustive_job(job):
    '''one bucket of the exhaustive tie: implementation results of
    prefix + s for every s over `alphabet` with len(s) in `lens`'''
    alphabet, prefix, lens, _dom = job
    rec, ref = Rec(), opaque_ref()
    acc = total = n = 0
    nontrivial = []
    for k in lens:
        for tup in itertools.product(alphabet, repeat=k):
            text = prefix + ''.join(tup)
            out = impl_get_ast(text)
            n += 1
            if out[0] == 'ok':
                acc += 1
            if out[0] == 'ok' or out[1] == 'EAttribute':
                nontrivial.append(text)
            rec.count('exhaustive:' + (out[0] if out[0] == 'ok' else out[1]))
            total = (total + h_str(text) * h_res(out)) % FP_P
            wellformed(rec, ref, text, out, 'exhaustive')
    return {'fp': (acc, total), 'n': n, 'nontrivial': nontrivial,
            'counts': rec.counts, 'violations': rec.violations,
            'samples': rec.extra.get('accepted_not_wellformed_samples', [])}


COVERAGE_CARDS = [
    '1 0 -1 2', '12 3 -2.7 #5 (1:-2)imp:n=1 u=2', '7 4 1.0E-3(1:2) 3 u=2',
    '5 0 #(1) *fill=4 (1 0 0)', '5 0', '5a 0 1', '9 2 (1 2)', '  3 00  -1  ',
]


def coverage_phase(res):
    '''the hand-written corpora (expressions, known-finding texts, cell
    tables incl. lattice cells, cell cards) under a line tracer restricted to
    the anchored functions: every line inside the property's input language
    must be executed'''
    try:
        _coverage_phase(res)
    except Exception as exc:            # information only: never fails a check
        res.extra['line_coverage_error'] = f'{type(exc).__name__}: {exc}'[:300]


def _coverage_phase(res):
    import c11_cov
    funcs, missing = c11_cov.anchored_functions()
    if missing:
        res.extra['line_coverage_missing_names'] = missing
    cov = c11_cov.LineCov(funcs)
    with cov:
        for text, _ in CORPUS + CORPUS_KNOWN:
            impl_get_ast(text)
        import tatsu.exceptions
        for texts, lat, target, _ in TABLE_CORPUS:
            try:
                impl_complement(texts, set(lat), target)
                impl_loop_abort(texts, set(lat))
            except tatsu.exceptions.ParseException:
                pass        # reported by the table corpus check
        impl_complement({1: '1', 2: '#9'}, set(), 2)          # KeyError
        for card in COVERAGE_CARDS:
            impl_split(card)
    total, missing = cov.missing(c11_cov.UNREACHABLE)
    res.obligation(f'coverage: the corpora execute every line of the anchored '
                   f'functions inside the input language ({total} lines of '
                   f'{len(cov.codes)} code objects)', not missing,
                   f'never executed: {missing[:6]}')
    res.extra['anchored_lines'] = total
    if missing:
        res.violation('harness-error',
                      'the corpora no longer reach these lines of the '
                      f'anchored code: {missing[:8]}',
                      {'theorem_or_correspondence': 'coverage',
                       'input': {'lines': [list(m) for m in missing[:20]]}},
                      found_input=False)


def wellformed(res, ref, text, out, origin):
    '''arbitrary text: when the independent reader (c11_refparse, written
    from the manual) finds an expression, the property is checked on it; a
    text it does not read but the implementation accepts is only counted.'''
    e = c11_refparse.parse(text)
    if e is not None:
        sweep_expr(res, ref, e, text, out, origin + '-wellformed')
    elif out[0] == 'ok':
        res.count(origin + ':accepted-though-not-read-by-the-reference')
        extra = res.extra.setdefault('accepted_not_wellformed_samples', [])
        if len(extra) < 12:
            extra.append(text)


def run(res, tier, seed, proofs_ok):
    rng = random.Random(seed)
    quick = tier == 'quick'
    timings = {}
    t0 = time.time()
    res.rule = ('exhaustive: every string of length <= L over "123-#(): ." '
                '(L=5 quick, 6 thorough) and, thorough, every string of '
                'length 7 over "12-#(): .", by fingerprints; explicit cases: '
                'hand-written corpus, token soups (with +, two-digit numbers, '
                'facets), every expression with <= 3 (quick) / 4 (thorough) '
                'operands in 64 layouts (a sample of 16 / 8 of them for the largest size of the tier), random expressions (depth <= 5, '
                'redundant parentheses, leading zeros) in random layouts, '
                'their character mutations; cell tables (2-5 cells, acyclic, '
                'lattice cells, dangling and cyclic references); cell cards. '
                'non-trivial = accepted by the implementation or raising '
                'AttributeError; distinct by text.')
    ref = opaque_ref()
    explicit = Cases()

    # ---- 1. known-finding witnesses and corpus --------------------------
    for text, cls in CORPUS_KNOWN:
        out = impl_get_ast(text)
        explicit.add(text, out, 'corpus')
        res.seen(text)
        if out[0] == 'err':
            want = 'EAttribute'
            res.violation('impl-violation',
                          f'well-formed MCNP expression {text!r} is rejected '
                          f'({out[1]})',
                          {'input': {'text': text}, 'observed': out},
                          cls=cls if out[1] == want else None)
    for text, want in CORPUS:
        out = impl_get_ast(text)
        explicit.add(text, out, 'corpus')
        res.seen(text, nontrivial=want is not None)
        res.count('corpus:' + ('expr' if want is not None else 'malformed'))
        if want is not None and out != ('ok', want):
            res.violation('impl-violation',
                          f'{text!r} should read {want}, implementation '
                          f'gives {out}',
                          {'input': {'text': text}, 'expected': want,
                           'observed': out}, found_input=True)
        if want is None and out[0] == 'ok':
            res.violation('impl-violation',
                          f'{text!r} is not an expression but is accepted as '
                          f'{out[1]}',
                          {'input': {'text': text}, 'observed': out},
                          found_input=True)
    coverage_phase(res)
    timings['corpus'] = time.time() - t0

    # ---- 2. exhaustive parse tie by fingerprints -------------------------
    # domain A: every string of length <= 5 (quick) / 6 (thorough) over
    #   "123-#(): ." (10 characters), buckets = 2-character prefixes;
    # domain B (thorough): every string of length exactly 7 over "12-#(): ."
    #   (9 characters), buckets = 3-character prefixes.
    # The implementation side is sharded over worker processes (fork).
    t0 = time.time()
    max_len = 5 if quick else 6
    short = [''] + list(ALPHABET3)
    for text in short:
        out = impl_get_ast(text)
        explicit.add(text, out, 'exhaustive-short')
        res.seen(text, nontrivial=out[0] == 'ok')
    jobs = [(ALPHABET3, a + b, list(range(max_len - 1)), 'A')
            for a in ALPHABET3 for b in ALPHABET3]
    if not quick:
        jobs += [(ALPHABET, a + b + c, [4], 'B')
                 for a in ALPHABET for b in ALPHABET for c in ALPHABET]
    import multiprocessing
    procs = max(1, min(8, (os.cpu_count() or 2) - 1))
    with multiprocessing.get_context('fork').Pool(procs) as pool:
        results = pool.map(exhaustive_job, jobs, chunksize=2)
        t1 = time.time()
        run_regex_tie(res, quick, pool)
        timings['regex-steps+peg'] = time.time() - t1
    n_exh = {'A': len(short), 'B': 0}
    n_acc = {'A': 0, 'B': 0}
    for job, r in zip(jobs, results):
        dom = job[3]
        n_exh[dom] += r['n']
        n_acc[dom] += r['fp'][0]
        res.evaluations += r['n'] - len(r['nontrivial'])
        for text in r['nontrivial']:
            res.seen(text)
        for key, val in r['counts'].items():
            res.count(key, val)
        for args, kwargs in r['violations']:
            res.violation(*args, **kwargs)
        extra = res.extra.setdefault('accepted_not_wellformed_samples', [])
        extra.extend(r['samples'][:max(0, 12 - len(extra))])
    timings['exhaustive-impl'] = time.time() - t0 - timings['regex-steps+peg']
    t0 = time.time()
    for dom, what in (('A', f'length <= {max_len} over {ALPHABET3!r}'),
                      ('B', f'length 7 over {ALPHABET!r}')):
        djobs = [(job, r) for job, r in zip(jobs, results) if job[3] == dom]
        if not djobs:
            continue
        fp_cases = [cpair(cstr(job[1]), cn(r['fp'][0]), cn(r['fp'][1]))
                    for job, r in djobs]
        model_fp = (f'bucket_fp alpha3 p {max_len - 2}' if dom == 'A'
                    else 'bucket_fp_exact alpha p 4')
        check = (f'(fun c : string * N * N => let \'(p, a, h) := c in '
                 f'let r := {model_fp} in '
                 f'N.eqb (fst r) a && N.eqb (snd r) h)')
        bad, errs = common.run_case_files(
            f'c11_fp{dom}', HEADER, 'string * N * N', check, fp_cases,
            chunk=7 if dom == 'A' else 12)
        res.obligation(f'tie:parse exhaustive {dom} ({n_exh[dom]} strings of '
                       f'{what}, {n_acc[dom]} accepted; {len(djobs)} buckets, '
                       'accepted count and result fingerprint equal)',
                       not bad and not errs,
                       f'buckets differing: {[djobs[i][0][1] for i in bad]} '
                       f'{errs[:1]}')
        for idx in bad[:3]:            # re-run the bucket case by case
            alphabet, pre, lens, _ = djobs[idx][0]
            for k in lens:
                for tup in itertools.product(alphabet, repeat=k):
                    text = pre + ''.join(tup)
                    explicit.add(text, impl_get_ast(text),
                                 'exhaustive-bucket')
    if not quick:
        # the two models on the whole thorough domain (RegexProofs.v proves
        # their equality for length <= 5; here by computation per bucket)
        for dom, expr in (('A', f'models_agree_upto alpha3 p {max_len - 2}'),
                          ('B', 'models_agree_exact alpha p 4')):
            prefixes = [job[1] for job in jobs if job[3] == dom]
            bad, errs = common.run_case_files(
                f'c11_agree{dom}', HEADER, 'string', f'(fun p : string => {expr})',
                [cstr(pre) for pre in prefixes], chunk=7 if dom == 'A' else 12)
            res.obligation(f'models: get_ast2 (regex steps + PEG) = get_ast '
                           f'(lexer + automaton) on every string of domain '
                           f'{dom} ({n_exh[dom]} strings)', not bad and not errs,
                           f'buckets differing: {[prefixes[i] for i in bad]} '
                           f'{errs[:1]}')
            for idx in bad[:3]:
                res.violation('proof-obligation',
                              'the two models of get_ast differ on strings '
                              f'starting with {prefixes[idx]!r}',
                              {'theorem_or_correspondence': 'models agree',
                               'input': {'prefix': prefixes[idx]}},
                              found_input=False)
    res.extra['exhaustive'] = True
    res.extra['exhaustive_domain'] = (
        f'all {n_exh["A"]} strings of length <= {max_len} over {ALPHABET3!r}'
        + ('' if quick else f' and all {n_exh["B"]} strings of length 7 over '
                            f'{ALPHABET!r}'))
    timings['exhaustive-coq'] = time.time() - t0

    # ---- 3. token soups ---------------------------------------------------
    t0 = time.time()
    soup = ['1', '2', '12', '-1', '+2', '1.1', '-2.3', '#', '# ', '(', ')',
            ':', ' ', '  ', '#(', '#1', '# 2', ' : ', '.', '-', '+', '1.23',
            '007', '+', '#3', '3 ', ' 4', '+5.6']
    for _ in range(3000 if quick else 40000):
        text = ''.join(rng.choice(soup) for _ in range(rng.randint(2, 9)))
        out = impl_get_ast(text)
        explicit.add(text, out, 'soup')
        wellformed(res, ref, text, out, 'soup')
        res.seen(text, nontrivial=out[0] == 'ok' or out[1] == 'EAttribute')
        res.count('soup:' + (out[0] if out[0] == 'ok' else out[1]))
    timings['soups'] = time.time() - t0

    # ---- 4. every small expression in every layout -----------------------
    t0 = time.time()
    layouts = list(all_layouts())
    n_small = 0
    for k in range(1, (3 if quick else 4) + 1):
        for e in small_exprs(k):
            n_small += 1
            text0 = render(e, CANON)
            out0 = impl_get_ast(text0)
            explicit.add(text0, out0, 'small')
            res.seen(text0)
            sweep_expr(res, ref, e, text0, out0, f'small{k}')
            # all 64 layouts for <= 2 (quick) / <= 3 (thorough) operands, a
            # sample of 16 / 8 of them for the largest size of the tier
            if k < (3 if quick else 4):
                some = layouts
            else:
                some = rng.sample(layouts, 16 if quick else 8)
            pick = rng.randrange(len(some))
            for j, lay in enumerate(some):
                text = render(e, lay)
                out = impl_get_ast(text)
                res.seen(text)
                if j == pick:
                    explicit.add(text, out, 'small-layout')
                if out != out0:
                    res.violation(
                        'impl-violation',
                        f'layout changes the reading: {text0!r} -> {out0}, '
                        f'{text!r} -> {out}',
                        {'input': {'text': text, 'canonical': text0,
                                   'expr': e}, 'observed': out,
                         'expected': out0},
                        cls=classify(e, out) if out[0] == 'err' else None,
                        found_input=True)
    res.count('small-expressions', n_small)
    timings['small'] = time.time() - t0

    # ---- 5. random larger expressions, random layouts, mutations ---------
    t0 = time.time()
    generated = []
    for _ in range(1200 if quick else 12000):
        n_surf = rng.randint(1, 4)
        e = gen_expr(rng, rng.randint(1, 5), n_surf,
                     cells=list(OPAQUE) if rng.random() < 0.4 else [])
        lay = random_layout(rng)
        lay['zeros'] = True
        text = render(e, lay)
        out = impl_get_ast(text)
        explicit.add(text, out, 'random')
        generated.append(text)
        res.seen(text)
        accepted = sweep_expr(res, ref, e, text, out, 'random')
        if accepted:
            text2 = render(e, CANON)
            out2 = impl_get_ast(text2)
            if out2 != out:
                res.violation('impl-violation',
                              f'layout changes the reading: {text2!r} -> '
                              f'{out2}, {text!r} -> {out}',
                              {'input': {'text': text, 'canonical': text2,
                                         'expr': e}, 'observed': out},
                              found_input=True)
    for text in generated[:600 if quick else 6000]:
        chars = list(text)
        for _ in range(rng.randint(1, 2)):
            pos = rng.randrange(len(chars) + 1)
            op = rng.random()
            if op < 0.4 and chars:
                del chars[min(pos, len(chars) - 1)]
            elif op < 0.8:
                chars.insert(pos, rng.choice('()#:.-+ 12'))
            elif chars:
                chars[min(pos, len(chars) - 1)] = rng.choice('()#:.-+ 12')
        mtext = ''.join(chars)
        out = impl_get_ast(mtext)
        explicit.add(mtext, out, 'mutated')
        wellformed(res, ref, mtext, out, 'mutated')
        res.seen(mtext, nontrivial=out[0] == 'ok')
        res.count('mutated:' + (out[0] if out[0] == 'ok' else out[1]))
    timings['random'] = time.time() - t0

    # ---- explicit cases through the model --------------------------------
    t0 = time.time()
    res.sample({'text': '#(1:2) 3 #5', 'impl': impl_get_ast('#(1:2) 3 #5')})
    res.sample({'text': explicit.meta[-1][0], 'impl': explicit.meta[-1][1]})
    bad, errs = common.run_case_files('c11_parse', HEADER, 'string * res ast',
                                      'check_parse', explicit.cases,
                                      chunk=1500)
    origins = {}
    for _, _, origin in explicit.meta:
        origins[origin] = origins.get(origin, 0) + 1
    res.obligation(f'tie:parse explicit ({len(explicit.cases)} texts: '
                   f'{origins})', not bad and not errs,
                   f'{len(bad)} disagreements {errs[:1]}')
    for idx in bad[:8]:
        text, out, origin = explicit.meta[idx]
        model, _ = common.coq_eval(HEADER, f'get_ast {cstr(text)}')
        res.violation('correspondence',
                      f'get_ast({text!r}) [{origin}]: implementation {out}, '
                      f'model {model}',
                      {'input': {'text': text}, 'observed': out,
                       'model': model,
                       'theorem_or_correspondence': 'tie:parse'},
                      found_input=False)
    timings['explicit-coq'] = time.time() - t0

    # ---- 6. pot_complement: tie + sweep ----------------------------------
    t0 = time.time()
    run_complement(res, rng, 400 if quick else 3000)
    timings['complement'] = time.time() - t0

    # ---- 7. cellcard.split -------------------------------------------------
    t0 = time.time()
    run_split(res, rng, generated[:300 if quick else 3000])
    timings['split'] = time.time() - t0
    # ---- 8. whole decks ----------------------------------------------------
    t0 = time.time()
    run_decks(res, rng, 150 if quick else 1500)
    timings['decks'] = time.time() - t0
    res.extra['timings_s'] = {k: round(v, 1) for k, v in timings.items()}


def has_compl(tree):
    if tree[0] == '^':
        return True
    if tree[0] == 's':
        return False
    return has_compl(tree[1]) or has_compl(tree[2])


# (cells in dictionary order, lattice cells, target, the complement-free tree
# MCNP's reading gives for the target — hand-written)
TABLE_CORPUS = [
    ({1: '-1.2 +3', 2: '#1'}, (), 2, (':', L(1, 2), L(-3))),
    ({1: '+1.1:-2.3', 2: '#1 +4.5'}, (), 2,
     ('*', ('*', L(-1, 1), L(2, 3)), L(4, 5))),
    ({1: '1.1 -2', 2: '#1 : +3.4', 3: '#2 #1'}, (), 3,
     ('*', ('*', ('*', L(1, 1), L(-2)), L(-3, 4)), (':', L(-1, 1), L(2)))),
    ({3: '#2 #1', 2: '#1 : +3.4', 1: '1.1 -2'}, (), 3,
     ('*', ('*', ('*', L(1, 1), L(-2)), L(-3, 4)), (':', L(-1, 1), L(2)))),
    ({1: '+007.1 -08', 2: '# 1:#(+007.1)'}, (), 2,
     (':', (':', L(-7, 1), L(8)), L(-7, 1))),
    # complement of a lattice cell: first surface of the cell and its opposite,
    # facet kept
    ({5: '-7.1 +7.2 -8', 6: '#5 9'}, (5,), 6,
     ('*', ('*raw', L(-7, 1), L(7, 1)), L(9))),
    ({5: '(+4.3:1) -8', 6: '1:#5'}, (5,), 6,
     (':', L(1), ('*raw', L(4, 3), L(-4, 3)))),
    # a lattice cell that is a single surface; one that complements a cell
    ({5: '7.2', 6: '#5 1'}, (5,), 6, ('*', ('*raw', L(7, 2), L(-7, 2)), L(1))),
    ({3: '1', 5: '-2 #3', 6: '#5'}, (5,), 6, ('*raw', L(-2), L(2))),
]


# (cells, lattice cells): AssertionError (lattice cell without a surface),
# RecursionError (cycles), KeyError (unknown cell), AttributeError (complement
# of a complement of a lattice cell)
FAULT_TABLES = [
    ({3: '1', 5: '#3', 6: '#5'}, (5,)),
    ({1: '#2', 2: '#1 3'}, ()),
    ({1: '1 #1', 2: '#1'}, ()),
    ({1: '#9 2', 2: '#1'}, ()),
    ({5: '1.1 2', 6: '#5', 7: '#6 3'}, (5,)),
    ({5: '1 2', 6: '4 #5', 7: '#6'}, (5,)),
]


def gen_table(rng, facets=False):
    '''acyclic table: cell k may reference cells listed before it'''
    n_cells = rng.randint(2, 5)
    ids = list(dict.fromkeys(rng.randint(1, 40) for _ in range(n_cells)))
    if len(ids) < 2:
        ids.append(ids[0] + 1)
    exprs = {}
    for k, cid in enumerate(ids):
        earlier = ids[:k]
        for _ in range(30):
            e = gen_expr(rng, rng.randint(1, 3), 3, cells=earlier)
            if not has_cell_under_not(e):
                break
        else:
            e = ('s', 1, None)
        exprs[cid] = add_facets(rng, e) if facets else e
    return ids, exprs


def add_facets(rng, e):
    '''give half of the literals a facet suffix'''
    if e[0] == 's':
        return ('s', e[1], rng.randint(1, 6)) if rng.random() < 0.5 else e
    if e[0] in ('*', ':'):
        return (e[0], add_facets(rng, e[1]), add_facets(rng, e[2]))
    if e[0] in ('#', 'p'):
        return (e[0], add_facets(rng, e[1]))
    return e


def run_complement(res, rng, n_tab):
    cases, meta = [], []
    loop_cases, loop_meta = [], []
    corpus = list(TABLE_CORPUS)
    # the error branches of pot_complement, every dictionary order and target
    # (model tie and hand-over check only)
    for ftexts, flat in FAULT_TABLES:
        for perm in itertools.permutations(ftexts):
            for tgt in ftexts:
                corpus.append(({cid: ftexts[cid] for cid in perm}, flat, tgt,
                               None))
    for i in range(len(corpus) + n_tab):
        expected = None
        if i < len(corpus):
            # hand-written tables: facets, '+', leading zeros, lattice cell
            ctexts, clat, target, expected = corpus[i]
            ids = order = list(ctexts)
            texts, lattice = dict(ctexts), set(clat)
            fault = None if expected is not None else 'fault-corpus'
            exprs = {cid: c11_refparse.parse(t) for cid, t in texts.items()}
            res.count('complement:corpus' if expected is not None
                      else 'complement:fault-corpus')
        else:
            ids, exprs = gen_table(rng, facets=i % 3 == 0)
            lattice = {cid for cid in ids[:-1] if rng.random() < 0.1}
            fault = None
            if rng.random() < 0.08:
                fault = rng.choice(['dangling', 'cycle'])
                extra = ('#c', 99 if fault == 'dangling' else ids[-1])
                exprs[ids[0]] = ('*', exprs[ids[0]], extra)
            # dictionary order of the table is shuffled: the loop of
            # ConstructVolumeT4 must not depend on it
            order = ids[:]
            rng.shuffle(order)
            lay = random_layout(rng)
            if i % 4 == 0:
                lay['plus'] = True
            texts = {cid: render(exprs[cid], lay) for cid in order}
            target = ids[-1]
        if any('.' in t for t in texts.values()):
            res.count('complement:tables-with-facets')
        if any('+' in t for t in texts.values()):
            res.count('complement:tables-with-plus-sign')
        unparsed = {cid: impl_get_ast(t) for cid, t in texts.items()}
        unparsed = {cid: o for cid, o in unparsed.items() if o[0] != 'ok'}
        if unparsed:
            # a cell of the table is rejected by get_ast (reported by the
            # expression sweeps when it is well formed): no table to convert
            res.count('complement:table-with-unparsable-cell')
            if expected is not None:
                res.violation('impl-violation',
                              f'corpus table {texts}: cells rejected by '
                              f'get_ast: {unparsed}',
                              {'input': {'cells': texts, 'target': target},
                               'observed': unparsed}, found_input=True)
            continue
        out = impl_complement(texts, lattice, target)
        if expected is not None and out != ('ok', expected):
            res.violation('impl-violation',
                          f'pot_complement on cell {target} of {texts} '
                          f'(lattice {sorted(lattice)}) should give '
                          f'{expected}, implementation gives {out}',
                          {'input': {'cells': texts, 'lattice': sorted(lattice),
                                     'target': target},
                           'expected': expected, 'observed': out},
                          found_input=True)
        if out[0] == 'ok' and has_compl(out[1]):
            res.violation('impl-violation',
                          f"hand-over: a '^' node is left after pot_complement "
                          f'on cell {target} of {texts}: {out[1]}',
                          {'input': {'cells': texts, 'lattice': sorted(lattice),
                                     'target': target}, 'observed': out},
                          found_input=True)
        parsed = {cid: impl_get_ast(t)[1] for cid, t in texts.items()}
        table = clist(cpair(cn(cid), f'(mkCell {coq_ast(parsed[cid])} '
                                     f'{cbool(cid in lattice)})')
                      for cid in ids)
        cases.append(cpair(table, coq_ast(parsed[target]), coq_res(out)))
        meta.append((texts, sorted(lattice), target, out))
        # the whole loop, table in dictionary order (not when a lattice cell
        # itself complements a cell: extract_surfaces_list is then fed a list)
        if not any('#c' in repr(exprs[cid]) for cid in lattice):
            lout = impl_loop_abort(texts, lattice)
            ltable = clist(cpair(cn(cid), f'(mkCell {coq_ast(parsed[cid])} '
                                          f'{cbool(cid in lattice)})')
                           for cid in order)
            if lout[0] == 'ok':
                want = '(Ok ' + clist(cpair(cn(cid), coq_ast(tree))
                                      for cid, tree in lout[1]) + ')'
            else:
                want = f'(Err {lout[1]})'
            if lout[0] == 'ok' and any(has_compl(t) for _, t in lout[1]):
                res.violation('impl-violation',
                              "hand-over: a '^' node is left after the "
                              f'complement loop on {texts}: {lout[1]}',
                              {'input': {'cells': texts,
                                         'lattice': sorted(lattice),
                                         'target': target}, 'observed': lout},
                              found_input=True)
            loop_cases.append(cpair(ltable, want))
            loop_meta.append((texts, sorted(lattice), lout))
            res.count('loop:' + (lout[0] if lout[0] == 'ok' else lout[1]))
        res.seen((sorted(texts.items()), sorted(lattice), target))
        res.count('complement:' + (out[0] if out[0] == 'ok' else out[1])
                  + (':lattice' if lattice else '')
                  + (f':{fault}' if fault else ''))
        if lattice or fault:
            continue
        # sweep: MCNP meaning of every cell (mcnpref resolves #n through the
        # cell table) vs the complement-free trees
        cref = BoolRef(exprs)
        at = set()
        for e in exprs.values():
            atoms(e, at)
        at = sorted(at, key=str)
        loop = impl_complement_loop(texts)
        checks = [(target, out, 'pot_complement')] + \
            [(cid, loop[cid], 'complement loop') for cid in order]
        for cid, got_out, what in checks:
            if got_out[0] != 'ok':
                res.violation('impl-violation',
                              f'{what}: cell {cid} of {texts} rejected '
                              f'({got_out[1]})',
                              {'input': {'cells': texts, 'target': cid},
                               'observed': got_out}, found_input=True)
                continue
            for bits in itertools.product([False, True], repeat=len(at)):
                sigma = dict(zip(at, bits))
                want = cref.in_cell(cid, sigma)
                try:
                    got = tree_eval(got_out[1], sigma)
                except ValueError:
                    got = None
                if want != got:
                    res.violation('impl-violation',
                                  f'{what}: cell {cid} of {texts} evaluates '
                                  f'to {got} after complement elimination, '
                                  f'MCNP meaning is {want}',
                                  {'input': {'cells': texts, 'target': cid},
                                   'observed': got_out}, found_input=True)
                    break
    res.sample({'cells': meta[0][0], 'target': meta[0][2],
                'impl': meta[0][3]})
    bad, errs = common.run_case_files(
        'c11_compl', HEADER, 'list (N * cell) * ast * res ast',
        'check_complement', cases, chunk=100)
    res.obligation(f'tie:complement ({len(cases)} cell tables)',
                   not bad and not errs,
                   f'{len(bad)} disagreements {errs[:1]}')
    lbad, lerrs = common.run_case_files(
        'c11_loop', HEADER, 'list (N * cell) * res (list (N * ast))',
        'check_loop', loop_cases, chunk=100)
    res.obligation(f'tie:loop ({len(loop_cases)} cell tables through the '
                   'in-place loop of construct_volume vs Model.eliminate_all)',
                   not lbad and not lerrs,
                   f'{len(lbad)} disagreements {lerrs[:1]}')
    for idx in lbad[:8]:
        texts, lat, lout = loop_meta[idx]
        res.violation('correspondence',
                      f'complement loop on {texts} (lattice {lat}): '
                      f'implementation {lout}',
                      {'input': {'cells': texts, 'lattice': lat,
                                 'target': next(iter(texts))},
                       'observed': lout,
                       'theorem_or_correspondence': 'tie:loop'},
                      found_input=False)
    for idx in bad[:8]:
        texts, lat, target, out = meta[idx]
        res.violation('correspondence',
                      f'pot_complement on {texts} (lattice {lat}) target '
                      f'{target}: implementation {out}',
                      {'input': {'cells': texts, 'lattice': lat,
                                 'target': target}, 'observed': out,
                       'theorem_or_correspondence': 'tie:complement'},
                      found_input=False)


OPTIONS = ['imp:n=1', 'IMP:N=1 IMP:P=0', 'u=2', 'fill=3', 'vol=1.5 imp:n=1',
           '*fill=4 (1 0 0)', 'tmp=2.5e-8', 'lat=1 u=5 imp:n=1', '']


def impl_split(card):
    from MIP.mip import cellcard
    try:
        _name, _mat, geom, opts = cellcard.split(card)
        return ('ok', geom, opts)
    except IndexError:
        return ('err', 'EIndex')
    except ValueError:
        return ('err', 'EValue')


# cell cards with the (geometry, options) the card format prescribes,
# hand-written; one per card shape a mutation was once missed on
CARD_CORPUS = [
    ('1 0 -1 2', (' -1 2', '')),
    ('1 0 -1 2 imp:n=1', (' -1 2 ', 'imp:n=1')),
    ('12 3 -2.7 #5 (1:-2)imp:n=1 u=2', (' #5 (1:-2)', 'imp:n=1 u=2')),
    ('7 4 1.0E-3(1:2) 3 u=2', ('(1:2) 3 ', 'u=2')),        # M19
    ('3 00 -1 u=2', (' -1 ', 'u=2')),                       # M21
    ('5 0 #(1) *fill=4 (1 0 0)', (' #(1) ', '*fill=4 (1 0 0)')),
    (' 8 2 6.02e-2 1:#3 VOL=1', (' 1:#3 ', 'VOL=1')),
]


def run_split(res, rng, texts):
    '''cellcard.split: sweep (the geometry part of a card parses like the
    expression, options intact) and tie with Model.split_card (geometry and
    options strings, or the exception) incl. malformed cards'''
    n_bad = 0
    cases, meta = [], []

    def tie(card):
        if card in seen_cards:
            return
        seen_cards.add(card)
        got = impl_split(card)
        want = (f'(Ok ({cstr(got[1])}, {cstr(got[2])}))' if got[0] == 'ok'
                else f'(Err {got[1]})')
        cases.append(cpair(cstr(card), want))
        meta.append((card, got))
        res.count('split-tie:' + (got[0] if got[0] == 'ok' else got[1]))

    seen_cards = set()
    for card, want in CARD_CORPUS:
        tie(card)
        got = impl_split(card)
        res.seen(card)
        if got != ('ok',) + want:
            n_bad += 1
            res.violation('impl-violation',
                          f'cell card {card!r} should split into {want}, '
                          f'implementation gives {got}',
                          {'input': {'card': card}, 'expected': want,
                           'observed': got}, found_input=True)
    # LIKE n BUT cards (the branch modelled by C15.Model.split_like) and
    # material fields that are not digit strings
    for i in range(40 if len(texts) <= 300 else 400):
        name = str(rng.randint(1, 999))
        like = rng.choice(['like', 'LIKE', 'Like', 'liKE'])
        but = rng.choice(['but', 'BUT', 'But'])
        rest = rng.choice(['', ' imp:n=0', ' u=2 trcl=(1 0 0)', ' mat=3 rho=-2.7',
                           ' imp:n=1 $ but not this', ' BUT u=3', ' *trcl=(0 0 1)'])
        gap = ' ' * rng.choice((1, 1, 2))
        tie(f'{name}{gap}{like} {rng.randint(1, 99)} {but}{rest}')
        if i % 5 == 0:
            tie(f'{name} {like} {rng.randint(1, 99)}')          # no BUT
            tie(f'{name} {like}')                              # two fields
        mat = rng.choice(['0.0', '0.', '.0', '-0', '+0', '1.5', '-3', '007',
                          '3.', 'abc', '1..2', '-', '+.', '0x1'])
        tie(f'{name} {mat} -1.0 {rng.randint(1, 9)} -{rng.randint(1, 9)} imp:n=1')
    for text in texts:
        if not text.strip():
            continue
        want = impl_get_ast(text)
        opts = rng.choice(OPTIONS)
        mat = rng.choice(['0', '3 -2.7', '12 0.0602', '1 1.0-3', '00', '7 +1',
                          '4 1.0E-3', '5 6.02e-2'])
        glue = ' ' * rng.choice((1, 1, 2))
        if opts and text.rstrip().endswith(')') and rng.random() < 0.3:
            glue = ''            # "...)imp:n=1" is legal
        sep = ' '
        if ' ' in mat and text.startswith('(') and rng.random() < 0.5:
            sep = ''             # "1 3 -2.7(1:2)" : density glued to '('
        name = str(rng.randint(1, 999))
        lead = ' ' * rng.choice((0, 0, 1))
        card = f'{lead}{name} {mat}{sep}{text}{glue}{opts}'
        tie(card)
        # malformed neighbours (tie only)
        fault = rng.random()
        if fault < 0.08:
            tie(f'{name} {mat.split()[0]}')                 # no geometry
        elif fault < 0.16:
            tie(f'{name}a {mat} {text}{glue}{opts}')        # name not a number
        elif fault < 0.24:
            tie(f'{name} {mat.split()[0]} ({text}')         # '(' where the density is expected
        elif fault < 0.32:
            tie(f'{name}  {mat}   {text} {opts}  ')
        if want[0] != 'ok':
            continue
        res.seen(card)
        res.count('split:' + ('options' if opts else 'bare'))
        out = impl_split(card)
        got = impl_get_ast(out[1]) if out[0] == 'ok' else out
        got_opts = out[2] if out[0] == 'ok' else None
        if got != want or (got_opts or '').strip() != opts:
            n_bad += 1
            res.violation('impl-violation',
                          f'cell card {card!r}: geometry part reads {got}, '
                          f'options {got_opts!r}; the expression alone reads '
                          f'{want}',
                          {'input': {'card': card, 'text': text},
                           'observed': got}, found_input=True)
    res.obligation(f'sweep:split (geometry of {len(texts)} cell cards = the '
                   'expression)', n_bad == 0, f'{n_bad} differ')
    bad, errs = common.run_case_files(
        'c11_split', HEADER + 'From T4V Require Import C11.ExecSplit.\n',
        'string * res (string * string)', 'check_split_full',
        cases, chunk=300)
    res.obligation(f'tie:split ({len(cases)} cell cards incl. malformed: '
                   'cellcard.split vs Model.split_card)',
                   not bad and not errs, f'{len(bad)} disagreements {errs[:1]}')
    for idx in bad[:8]:
        card, got = meta[idx]
        model, _ = common.coq_eval(
            HEADER + 'From T4V Require C11.LinkC15.\n',
            f'LinkC15.split_card_full {cstr(card)}')
        res.violation('correspondence',
                      f'cellcard.split({card!r}): implementation {got}, model '
                      f'{model}',
                      {'input': {'card': card}, 'observed': got, 'model': model,
                       'theorem_or_correspondence': 'tie:split'},
                      found_input=False)


# ---- whole decks: the expression all the way to the written VOLU lines -------
DECK_SURFACES = [
    {'id': 1, 'mn': 'px', 'params': [1.0], 'tr': None},
    {'id': 2, 'mn': 'px', 'params': [-3.0], 'tr': None},
    {'id': 3, 'mn': 'py', 'params': [0.5], 'tr': None},
    {'id': 4, 'mn': 'pz', 'params': [-0.5], 'tr': None},
    {'id': 10, 'mn': 'so', 'params': [6.0], 'tr': None},
    {'id': 20, 'mn': 'rpp', 'params': [-1.0, 2.0, -2.0, 1.5, -3.0, 2.5],
     'tr': None},
]
# expressions with a union one operand of which is patently empty (an
# intersection holding a surface with both senses): written literally, produced
# by a complement (De Morgan), produced by a macrobody next to its own facet
DECK_CORPUS = [
    '-10 (1 -1 : -2)', '(1 -1 : -2) -10', '#(1 : -1 : 2) : 3 4',
    '(-20 20.1 : 20.3) 1', '-10 (3 -3 : 4 -4 : -1)', '(2 -2 : 1) (3 : 4 -4)',
    '#(#(1 -1 : -2)) -10', '-10 #(3 : -3 : #(4))', '(-20 : 20.2 -20) -3',
    '1 -1 : -10', '(-1 : 1 -1 2) : 3 -3', '-10 (1 : (2 -2 : 3 -3))',
]
# a second corpus deck: the SAME set of signed surfaces once under an
# intersection and once under a union within one conversion run (any per-run
# cache of converted nodes must tell them apart), directly, nested, through a
# complement, and inside one expression
DECK_CORPUS_TWINS = [
    '1 -2 -4', '(1 : -2) -3', '(3 -4 : 2) (3 : -4)', '-1 2', '#4 -4',
    '1 -2 : 4 3', '-10 3 : -10 -3', '(-10 : 3) (-10 : -3)', '10 : -20.1',
    '10 -20.1 4',
]
# a third corpus deck: unions whose operands mix a bare surface, an intersection
# that contains a union and a pure intersection, in several orders, direct and
# through complements; complements of moved (TRCL) cells of importance 0 and 1
DECK_CORPUS_MIXED = [
    ('1 : (2 (3:4)) : (-10 -20.1)', None, 1),
    ('(2 (3:4)) : (-10 -20.1) : 1', None, 1),
    ('(-10 -20.1) : 1 : (2 (3:4))', None, 1),
    ('-10 (1 : (2 (3:-4)) : (3 4))', None, 1),
    ('-1 (-2:(-3 -4)) (10:20.1)', None, 1),
    ('#5', None, 1),
    ('#( -1 (-2:(-3 4)) (-3:-4) ) -10', None, 1),
    ('-20', (2.0, 0.0, 0.0), 0),
    ('#8 -10', None, 1),
    ('-1 3', (-1.5, 0.75, 0.0), 1),
    ('#10 #8 -10', None, 1),
    ('3 : 4 -1', (0.0, 2.0, -1.5), 0),
    ('#12 : 1 -3', None, 1),
]
DECK_LITS = [1, 2, 3, 4, 10, 20]


def deck_lit(rng, exclude=()):
    sid = rng.choice([x for x in DECK_LITS if x not in exclude])
    sub = rng.randint(1, 6) if sid == 20 and rng.random() < 0.4 else None
    return ('s', sid * rng.choice([1, -1]), sub)


def fold_op(op, items):
    node = items[0]
    for item in items[1:]:
        node = (op, node, item)
    return node


def dual(e):
    '''the expression of the complement, by De Morgan (literals negated)'''
    tag = e[0]
    if tag == 's':
        return ('s', -e[1], e[2])
    if tag in ('*', ':'):
        return (':' if tag == '*' else '*', dual(e[1]), dual(e[2]))
    if tag == 'p':
        return ('p', dual(e[1]))
    raise ValueError(e)


def mixed_union(rng):
    '''a union of 3-4 operands holding at least a bare surface, a pure
    intersection and an intersection that contains a union, in random order'''
    def pure():
        return fold_op('*', [deck_lit(rng) for _ in range(rng.choice((2, 2, 3)))])

    def impure():
        inner = fold_op(':', [deck_lit(rng),
                              rng.choice([deck_lit(rng), pure()])])
        parts = [deck_lit(rng), inner]
        if rng.random() < 0.4:
            parts.append(fold_op(':', [deck_lit(rng), deck_lit(rng)]))
        rng.shuffle(parts)
        return fold_op('*', parts)
    ops = [deck_lit(rng), pure(), impure()]
    if rng.random() < 0.5:
        ops.append(rng.choice([deck_lit, pure, impure])() if False else
                   rng.choice([deck_lit(rng), pure(), impure()]))
    rng.shuffle(ops)
    return fold_op(':', ops)


def plant_mixed(rng, exprs):
    '''a mixed union as a cell of its own, beside a generated expression, or
    produced by De Morgan from #( dual ) or from #n of a cell holding the dual'''
    ids = list(exprs)
    cid = rng.choice(ids)
    union = mixed_union(rng)
    style = rng.random()
    if style < 0.3:
        exprs[cid] = union
    elif style < 0.55:
        exprs[cid] = ('*', union, deck_lit(rng))
    elif style < 0.8:
        exprs[cid] = ('*', ('#', dual(union)), deck_lit(rng))
    else:
        first = ids[0]
        if first != cid:
            exprs[first] = dual(union)
            exprs[cid] = ('*', ('#c', first), deck_lit(rng))
        else:
            exprs[cid] = union
    return exprs


def plant_moved(rng, exprs):
    '''TRCL translations on one or two cells, importance 0 or 1, and a later
    cell that complements each moved cell. Returns {cell: (trcl, imp)}'''
    ids = list(exprs)
    opts = {}
    for _ in range(rng.choice((1, 2))):
        if len(ids) < 2:
            break
        k = rng.randrange(len(ids) - 1)
        moved, later = ids[k], rng.choice(ids[k + 1:])
        shift = tuple(rng.choice([0.0, 2.0, -1.5, 0.75]) for _ in range(3))
        if shift == (0.0, 0.0, 0.0):
            shift = (2.0, 0.0, 0.0)
        opts[moved] = (shift, rng.choice([0, 0, 1]))
        exprs[later] = (rng.choice('*:'), ('#c', moved), exprs[later]) \
            if not has_cell_under_not(exprs[later]) else ('#c', moved)
    return opts


def plant_twins(rng, exprs):
    '''operator twins: one random set of 2-3 signed surfaces is planted as a
    pure intersection node in one cell and as a pure union node in another
    (or the same) cell, each below the opposite operator so that it stays a
    node of its own after flattening, in random order'''
    ids = list(exprs)
    k = rng.choice((2, 2, 3))
    lits = [('s', sid * rng.choice([1, -1]),
             rng.randint(1, 6) if sid == 20 and rng.random() < 0.5 else None)
            for sid in rng.sample(DECK_LITS, k)]

    def fold(op, items):
        node = items[0]
        for item in items[1:]:
            node = (op, node, item)
        return node
    both = [('*', ':'), (':', '*')]
    rng.shuffle(both)
    cells = [rng.choice(ids), rng.choice(ids)]
    for (op, outer), cid in zip(both, cells):
        items = lits[:]
        rng.shuffle(items)
        twin = fold(op, items)
        style = rng.random()
        if style < 0.25:
            exprs[cid] = twin                      # the whole cell
        elif style < 0.45 and not has_cell_under_not_any(exprs[cid]):
            # through De Morgan: #( dual of the twin over opposite senses )
            dual = fold(':' if op == '*' else '*',
                        [('s', -z, sub) for _, z, sub in items])
            exprs[cid] = (outer, ('#', dual), exprs[cid])
        else:
            exprs[cid] = (outer, twin, exprs[cid]) if rng.random() < 0.5 \
                else (outer, exprs[cid], twin)
    return exprs


def has_cell_under_not_any(e):
    return has_cell_under_not(e)


def gen_deck_expr(rng, depth, cells):
    r = rng.random()
    if depth <= 0 or r < 0.3:
        if cells and rng.random() < 0.15:
            return ('#c', rng.choice(cells))
        sid = rng.choice(DECK_LITS)
        sub = rng.randint(1, 6) if sid == 20 and rng.random() < 0.5 else None
        return ('s', sid * rng.choice([1, -1]), sub)
    if r < 0.36:
        # a patently empty intersection, to be placed wherever this lands
        sid = rng.choice(DECK_LITS[:5])
        return ('*', ('s', sid, None), ('s', -sid, None))
    if r < 0.62:
        return ('*', gen_deck_expr(rng, depth - 1, cells),
                gen_deck_expr(rng, depth - 1, cells))
    if r < 0.86:
        return (':', gen_deck_expr(rng, depth - 1, cells),
                gen_deck_expr(rng, depth - 1, cells))
    if r < 0.95:
        return ('#', gen_deck_expr(rng, depth - 1, cells))
    return ('p', gen_deck_expr(rng, depth - 1, cells))


def deck_points(rng, n):
    '''points off the surfaces of DECK_SURFACES (grid offsets that avoid the
    plane positions), inside and outside the sphere'''
    pts = []
    while len(pts) < n:
        p = [round(rng.uniform(-7, 7), 3) + 0.0137 for _ in range(3)]
        pts.append(p)
    return pts


def convert_deck(cell_texts, opts=None):
    '''(ConvResult, T4File or None) for a one-universe deck of void cells;
    opts: {cell: (TRCL translation or None, importance)}'''
    import deck as deckmod
    import impl
    opts = opts or {}
    lines = ['C11 generated deck']
    for cid, text in cell_texts.items():
        shift, imp = opts.get(cid, (None, 1))
        trcl = '' if shift is None else \
            ' trcl=(' + ' '.join(deckmod.num(v) for v in shift) + ')'
        lines.append(deckmod.wrap(f'{cid} 0 {text.strip()}{trcl} imp:n={imp}'))
    lines.append('')
    lines.extend(deckmod.surface_text(surf) for surf in DECK_SURFACES)
    lines.append('')
    conv = impl.convert('\n'.join(lines) + '\n')
    t4 = impl.T4File(conv.text) if conv.ok and conv.text else None
    return conv, t4, '\n'.join(lines) + '\n'


def check_deck(res, cell_texts, points, origin, opts=None):
    '''convert, then membership of every point in the written volume of every
    cell against the independent reading of the card (c11_refparse + mcnpref);
    a cell that owns a sample point must be written. Returns n failures.'''
    import t4eval
    exprs = {cid: c11_refparse.parse(t) for cid, t in cell_texts.items()}
    if any(e is None for e in exprs.values()):
        raise ValueError(f'generator wrote a text the reader rejects: '
                         f'{cell_texts}')
    opts = opts or {}
    conv, t4, text = convert_deck(cell_texts, opts)
    res.seen(text)
    if t4 is None:
        res.count(f'{origin}:conversion-failed')
        res.violation('impl-violation',
                      f'deck of well-formed cells {cell_texts} does not '
                      f'convert: {conv.exc}: {conv.msg[:160]}',
                      {'input': {'deck': text}}, found_input=True)
        return 1
    import deck as deckmod
    ref = mcnpref.Reference({'cells': [{'id': cid, 'expr': to_ref(e),
                                        'trcl': (deckmod.make_tr(opts[cid][0])
                                                 if cid in opts and
                                                 opts[cid][0] is not None
                                                 else None)}
                                       for cid, e in exprs.items()],
                             'surfaces': DECK_SURFACES, 'transforms': {}},
                            eps=1e-6)
    ev = t4eval.Evaluator(t4, eps=1e-6)
    n_fail = 0
    for cid in cell_texts:
        if opts.get(cid, (None, 1))[1] == 0:
            # importance 0: the cell is not converted (it still counts for
            # the #n of the others)
            res.count(f'{origin}:cell-importance-0')
            continue
        nonempty = False
        for p in points:
            try:
                want = ref.in_cell(cid, p)
            except mcnpref.Ambiguous:
                continue
            nonempty = nonempty or want
            if cid not in t4.volumes:
                got = False
            else:
                try:
                    got = ev.inside(cid, p)
                except t4eval.T4EvalError as exc:
                    if 'within eps' in str(exc):
                        continue
                    got = f'error: {exc}'
            if got != want:
                n_fail += 1
                why = ('is not written to the file' if cid not in t4.volumes
                       else f'written volume gives {got}')
                res.violation('impl-violation',
                              f'cell {cid} `{cell_texts[cid]}`: point {p} is '
                              f'{"in" if want else "outside"} the MCNP cell, '
                              f'{why}',
                              {'input': {'deck': text, 'cell': cid,
                                         'point': p},
                               'expected': want, 'observed': str(got)},
                              found_input=True)
                break
        res.count(f'{origin}:' + ('cell-nonempty' if nonempty else 'cell-empty')
                  + ('' if cid in t4.volumes else ':not-written'))
    return n_fail


def run_decks(res, rng, n_decks):
    '''the end-to-end sweep of the property: whole decks through
    impl.convert, written VOLU lines evaluated by t4eval'''
    points = deck_points(rng, 60)
    n_fail = 0
    corpus = {i + 1: text for i, text in enumerate(DECK_CORPUS)}
    n_fail += check_deck(res, corpus, points, 'deck-corpus')
    n_cells = len(corpus)
    for order in (1, -1):                # the later of two twins is the one at risk
        twins = {i + 1: text for i, text in
                 enumerate(DECK_CORPUS_TWINS[::order])}
        n_fail += check_deck(res, twins, points, 'deck-corpus-twins')
        n_cells += len(twins)
    mixed = {i + 1: t for i, (t, _, _) in enumerate(DECK_CORPUS_MIXED)}
    mopts = {i + 1: (sh, imp) for i, (_, sh, imp) in
             enumerate(DECK_CORPUS_MIXED) if sh is not None or imp != 1}
    n_fail += check_deck(res, mixed, points, 'deck-corpus-mixed', mopts)
    n_cells += len(mixed)
    for d in range(n_decks):
        exprs = {}
        ids = []
        for k in range(rng.randint(3, 7)):
            cid = k + 1
            for _try in range(40):
                e = gen_deck_expr(rng, rng.randint(1, 4), ids)
                if not has_cell_under_not(e):
                    break
            else:
                e = ('s', 1, None)
            exprs[cid] = e
            ids.append(cid)
        opts = {}
        if d % 2 == 0:
            exprs = plant_twins(rng, exprs)
            res.count('deck:with-operator-twins')
        if d % 3 != 1:
            exprs = plant_mixed(rng, exprs)
            res.count('deck:with-mixed-union')
        if d % 4 == 1 or d % 4 == 2:
            opts = plant_moved(rng, exprs)
            res.count('deck:with-moved-cells')
        texts = {}
        for cid, e in exprs.items():
            text = render(e, random_layout(rng))
            if c11_refparse.parse(text) is None:
                # "#n+m" / "#n-m": accepted by the converter, not a spelling
                # the independent reader knows; write it canonically
                text = render(e, CANON)
            texts[cid] = text
        # one cell that is certainly not empty: a deck all of whose cells are
        # patently empty has nothing to write (the converter then stops with
        # "max() iterable argument is empty"; not a geometry, outside C11)
        texts[len(texts) + 1] = '10'
        n_cells += len(texts)
        n_fail += check_deck(res, texts, points, 'deck', opts)
    res.obligation(f'sweep:decks ({n_decks + 4} whole decks, {n_cells} cells '
                   'converted with impl.convert; membership of 60 points in '
                   'every written volume = the independent reading of the '
                   'card; every cell owning a point is written)',
                   n_fail == 0, f'{n_fail} cells differ')


def replay(path):
    data = json.load(open(path))
    inp = data.get('input', {})
    if 'deck' in inp:
        import impl
        conv = impl.convert(inp['deck'])
        print('conversion:', conv)
        if conv.text:
            t4 = impl.T4File(conv.text)
            print('written volumes:', sorted(t4.volumes))
            if 'cell' in inp:
                print('cell', inp['cell'], 'written:', inp['cell'] in t4.volumes)
    if 'card' in inp:
        print('split:', impl_split(inp['card']))
        model, _ = common.coq_eval(HEADER, f'split_card {cstr(inp["card"])}')
        print('model:', model)
    if 'text' in inp:
        import MIP.geom.parsegeom as pg
        print('normalize:', repr(pg.normalize(inp['text'])))
        print('implementation:', impl_get_ast(inp['text']))
        print('reference reader:', c11_refparse.parse(inp['text']))
        model, _ = common.coq_eval(HEADER, f'get_ast {cstr(inp["text"])}')
        print('model:', model)
    if 'cells' in inp:
        cells = {int(k): v for k, v in inp['cells'].items()}
        print('implementation:', impl_complement(
            cells, set(inp.get('lattice', [])), int(inp['target'])))
        print('loop:', impl_complement_loop(cells))
    print('recorded:', data.get('what'))
    return 0
