'''C11 — cell expressions denote the Boolean function MCNP assigns to them.

Theorems: coq/Properties/C11.v.  Ties:
  parse      : get_ast (normalize + PEG + GeomSemantics, through the shim) vs
               Model.get_ast — EXHAUSTIVE on all strings up to a length over
               the MCNP alphabet, plus random larger expressions in random
               layouts and a malformed stream
  complement : CellConversion.pot_complement on generated cell tables vs
               Model.pot_complement
Sweep (independent oracle): truth tables of the implementation's ASTs (after
complement elimination) against the denotation of the generator's abstract
expression, for all sense assignments.'''
import itertools
import json
import random

import common
from common import cstr, clist, cpair, cz, cn, copt, cbool

THEOREMS = ['C11_inverse_den', 'C11_inverse_complcell_rejects',
            'C11_pot_complement_den', 'C11_pot_complement_lattice_empty',
            'C11_parse_print', 'C11_parse_print_den',
            'C11_nested_refuted', 'C11_colon_hash_refuted']
TRUSTED = [
    'hand-written model coq/C11/Model.v: lexer + precedence parser standing '
    'for the regex pipeline + PEG (structurally different from the code; '
    'agreement established by the exhaustive bounded tie and random tie only)',
    'harness PEG shim replacing TatSu (reads geom.ebnf and GeomSemantics from '
    '/repo)',
    'the layout family covered by the theorem is the canonical token layout; '
    'other layouts are covered by the tie only',
]
ASSUMPTIONS = [
    'alphabet of cell expressions: digits + - . # ( ) : and blanks; the '
    "implementation's private characters _ ^ * never occur in input",
    'surface numbers are non-zero; facet suffix is one digit',
]
HEADER = ('From Coq Require Import List NArith ZArith Bool String Ascii.\n'
          'From T4V Require Import Base.Str C11.Model C11.Exec.\n'
          'Open Scope string_scope.\n')


# ---- implementation side --------------------------------------------------

def impl_get_ast(text):
    '''('ok', tree) | ('err', 'EParse'|'EAttribute')'''
    import MIP.geom.parsegeom as pg
    import tatsu.exceptions
    try:
        return ('ok', canon(pg.get_ast(text)))
    except tatsu.exceptions.ParseException:
        return ('err', 'EParse')
    except AttributeError:
        return ('err', 'EAttribute')


def canon(ast):
    '''Python AST -> nested tuples ('s', z, sub) | ('*', l, r) | (':', l, r) |
    ('^', n)'''
    from MIP.geom.semantics import Surface
    if isinstance(ast, Surface):
        return ('s', ast.surface, ast.sub)
    if isinstance(ast, list) and ast[0] == '*' and len(ast) == 3:
        return ('*raw', canon(ast[1]), canon(ast[2]))
    if isinstance(ast, (tuple, list)):
        if ast[0] == '^':
            return ('^', int(ast[1]))
        if ast[0] in ('*', ':') and len(ast) == 3:
            return (ast[0], canon(ast[1]), canon(ast[2]))
    raise ValueError(f'unexpected AST node {ast!r} ({type(ast).__name__})')


def coq_ast(tree):
    if tree[0] == 's':
        return f'(ASurf {cz(tree[1])} {copt(tree[2], cn)})'
    if tree[0] == '^':
        return f'(ACompl {cn(tree[1])})'
    ctor = {'*': 'AAnd', ':': 'AOr', '*raw': 'ARawAnd'}[tree[0]]
    return f'({ctor} {coq_ast(tree[1])} {coq_ast(tree[2])})'


def coq_res(out):
    return f'(Ok {coq_ast(out[1])})' if out[0] == 'ok' else f'(Err {out[1]})'


# ---- abstract MCNP expressions (the spec side of the sweep) ---------------
# E ::= ('s', z, sub) | ('*', a, b) | (':', a, b) | ('#', e) | ('#c', n)

def gen_expr(rng, depth, n_surf, cells, allow_nested_cell=True):
    r = rng.random()
    if depth <= 0 or r < 0.3:
        if cells and rng.random() < 0.2:
            return ('#c', rng.choice(cells))
        z = rng.randint(1, n_surf) * rng.choice([1, -1])
        sub = rng.randint(1, 6) if rng.random() < 0.1 else None
        return ('s', z, sub)
    if r < 0.6:
        return ('*', gen_expr(rng, depth - 1, n_surf, cells),
                gen_expr(rng, depth - 1, n_surf, cells))
    if r < 0.85:
        return (':', gen_expr(rng, depth - 1, n_surf, cells),
                gen_expr(rng, depth - 1, n_surf, cells))
    return ('#', gen_expr(rng, depth - 1, n_surf, cells))


def has_cell_under_not(e, under=False):
    if e[0] == '#c':
        return under
    if e[0] == '#':
        return has_cell_under_not(e[1], True)
    if e[0] in ('*', ':'):
        return has_cell_under_not(e[1], under) or has_cell_under_not(e[2], under)
    return False


def starts_with_hash(e):
    if e[0] in ('#', '#c'):
        return True
    if e[0] == '*':
        return starts_with_hash(e[1]) if e[1][0] != ':' else False
    if e[0] == ':':
        return starts_with_hash(e[1])
    return False


def has_colon_hash(e):
    '''a union operand (other than the first) whose text starts with #'''
    if e[0] == ':':
        return (starts_with_hash_isect(e[2]) or has_colon_hash(e[1])
                or has_colon_hash(e[2]))
    if e[0] == '*':
        return has_colon_hash(e[1]) or has_colon_hash(e[2])
    if e[0] == '#':
        return has_colon_hash(e[1])
    return False


def starts_with_hash_isect(e):
    '''first token of e printed as a union operand (isect level)'''
    if e[0] in ('#', '#c'):
        return True
    if e[0] == '*':
        # printed as  left right ; left parenthesised only if it is a union
        return False if e[1][0] == ':' else starts_with_hash_isect(e[1])
    return False     # literal, or a union printed inside parentheses


def render(e, rng, level=0):
    '''Text of e in a random admissible layout. level: 0 union, 1 isect,
    2 operand.'''
    def sp(min_=0):
        return ' ' * rng.choice([min_, min_, 1, 2]) if rng else ' ' * min_
    if e[0] == 's':
        sign = '-' if e[1] < 0 else ('+' if rng and rng.random() < 0.1 else '')
        txt = f'{sign}{abs(e[1])}'
        if e[2] is not None:
            txt += f'.{e[2]}'
        return txt
    if e[0] == '#c':
        return '#' + sp() + str(e[1])
    if e[0] == '#':
        return '#' + sp() + '(' + sp() + render(e[1], rng, 0) + sp() + ')'
    if e[0] == '*':
        left = render(e[1], rng, 1)
        right = render(e[2], rng, 2)
        # a blank is needed only between two literals
        need = 1 if (left[-1].isdigit() and (right[0].isdigit()
                                             or right[0] in '+-')) else 0
        txt = left + sp(need) + right
        return '(' + sp() + txt + sp() + ')' if level > 1 else txt
    if e[0] == ':':
        txt = render(e[1], rng, 0) + sp() + ':' + sp() + render(e[2], rng, 1)
        return '(' + sp() + txt + sp() + ')' if level > 0 else txt
    raise ValueError(e)


def spec_eval(e, sigma, cellfun):
    if e[0] == 's':
        val = sigma[(abs(e[1]), e[2])]
        return val if e[1] > 0 else not val
    if e[0] == '*':
        return spec_eval(e[1], sigma, cellfun) and spec_eval(e[2], sigma, cellfun)
    if e[0] == ':':
        return spec_eval(e[1], sigma, cellfun) or spec_eval(e[2], sigma, cellfun)
    if e[0] == '#':
        return not spec_eval(e[1], sigma, cellfun)
    if e[0] == '#c':
        return not cellfun(e[1], sigma)
    raise ValueError(e)


def tree_eval(tree, sigma):
    '''canonical implementation AST (complement-free)'''
    if tree[0] == 's':
        val = sigma[(abs(tree[1]), tree[2])]
        return val if tree[1] > 0 else not val
    if tree[0] in ('*', '*raw'):
        return tree_eval(tree[1], sigma) and tree_eval(tree[2], sigma)
    if tree[0] == ':':
        return tree_eval(tree[1], sigma) or tree_eval(tree[2], sigma)
    raise ValueError(f'complement left in tree: {tree!r}')


def atoms(e, out):
    if e[0] == 's':
        out.add((abs(e[1]), e[2]))
    elif e[0] in ('*', ':'):
        atoms(e[1], out)
        atoms(e[2], out)
    elif e[0] == '#':
        atoms(e[1], out)
    return out


# ---- pot_complement on the implementation ---------------------------------

def impl_complement(table_texts, lattice_ids, target):
    '''table_texts: {cell id: expression text}. Returns canonical outcome of
    pot_complement on cell `target` (all cells parsed by get_ast first).'''
    import MIP.geom.parsegeom as pg
    from t4_geom_convert.Kernel.Volume.CellConversion import CellConversion
    from t4_geom_convert.Kernel.Volume.CellMCNP import CellMCNP
    cells = {}
    for cid, text in table_texts.items():
        cells[cid] = CellMCNP('0', None, pg.get_ast(text), 1.0, 0, None, (),
                              1 if cid in lattice_ids else None, [])
    conv = CellConversion(1000, 1000, {}, {}, {}, cells)
    try:
        return ('ok', canon(conv.pot_complement(cells[target].geometry)))
    except AttributeError:
        return ('err', 'EAttribute')
    except KeyError:
        return ('err', 'EKey')
    except RecursionError:
        return ('err', 'EFuel')
    except AssertionError:
        return ('err', 'EAssert')


KNOWN_WITNESSES = {
    # class -> (text, expected defect outcome)
    'complement_of_cell_inside_hash_paren': ('#(-2 #1)', ('err', 'EAttribute')),
    'complement_right_after_colon': ('1:#2', ('err', 'EParse')),
}


def classify(e):
    '''known-finding class of an abstract expression the implementation
    cannot parse, or None'''
    if has_cell_under_not(e):
        return 'complement_of_cell_inside_hash_paren'
    if has_colon_hash(e):
        return 'complement_right_after_colon'
    return None


def run(res, tier, seed, proofs_ok):
    rng = random.Random(seed)
    res.rule = ('parse tie: every string of length <= L over the alphabet '
                '"12-#(): ." (L=5 quick, 6 thorough) plus strings with "+" and '
                'random expressions (depth <= 5) in random layouts plus mutated '
                '(malformed) texts; non-trivial = the implementation accepts '
                'the string or raises AttributeError; distinct by text. '
                'Sweep: all sense assignments of generated expressions.')

    # ---- known-finding witnesses first ----
    for cls, (text, bad_outcome) in KNOWN_WITNESSES.items():
        out = impl_get_ast(text)
        if out[0] == 'err':
            res.violation('impl-violation',
                          f'well-formed MCNP expression {text!r} is rejected '
                          f'({out[1]})', {'input': {'text': text},
                                          'observed': out}, cls=cls)

    # ---- exhaustive parse tie ----
    alphabet = '12-#(): .'
    max_len = 5 if tier == 'quick' else 6
    texts = []
    for n in range(0, max_len + 1):
        for tup in itertools.product(alphabet, repeat=n):
            texts.append(''.join(tup))
    n_exh = len(texts)
    # plus: strings with '+', two-digit numbers, longer random token soups
    soup = ['1', '2', '12', '-1', '+2', '1.1', '-2.3', '#', '# ', '(', ')',
            ':', ' ', '  ', '#(', '#1', '# 2', ' : ', '.', '-', '+', '1.23']
    for _ in range(4000 if tier == 'quick' else 40000):
        k = rng.randint(2, 9)
        texts.append(''.join(rng.choice(soup) for _ in range(k)))
    cases, meta = [], []
    n_acc = 0
    for text in texts:
        if not text.strip():
            # get_ast('') : normalize gives '' and the PEG fails; keep it
            pass
        out = impl_get_ast(text)
        cases.append(cpair(cstr(text), coq_res(out)))
        meta.append((text, out))
        nontrivial = out[0] == 'ok' or out[1] == 'EAttribute'
        n_acc += nontrivial
        res.seen(text, nontrivial=nontrivial)
        res.count('parse:' + (out[0] if out[0] == 'ok' else out[1]))
    res.sample({'text': '#(1:2) 3 #5', 'impl': impl_get_ast('#(1:2) 3 #5')})
    bad, errs = common.run_case_files('c11_parse', HEADER, 'string * res ast',
                                      'check_parse', cases, chunk=4000)
    res.obligation(f'tie:parse exhaustive ({n_exh} strings of length <= '
                   f'{max_len}, {len(texts) - n_exh} token soups; '
                   f'{n_acc} accepted or AttributeError)',
                   not bad and not errs, f'{len(bad)} disagreements {errs[:1]}')
    res.extra['exhaustive'] = True
    res.extra['exhaustive_domain'] = (f'all strings of length <= {max_len} '
                                      f'over {alphabet!r}')
    for idx in bad[:8]:
        text, out = meta[idx]
        model, _ = common.coq_eval(HEADER, f'get_ast {cstr(text)}')
        res.violation('correspondence',
                      f'get_ast({text!r}): implementation {out}, model '
                      f'{model}', {'input': {'text': text}, 'observed': out,
                                   'model': model,
                                   'theorem_or_correspondence': 'tie:parse'},
                      found_input=False)

    # ---- generated expressions: tie + truth-table sweep ----
    n_expr = 1500 if tier == 'quick' else 12000
    cases2, meta2 = [], []
    for _ in range(n_expr):
        n_surf = rng.randint(1, 4)
        e = gen_expr(rng, rng.randint(1, 5), n_surf, cells=[7, 8, 9]
                     if rng.random() < 0.4 else [])
        text = render(e, rng)
        out = impl_get_ast(text)
        cases2.append(cpair(cstr(text), coq_res(out)))
        meta2.append((text, out))
        res.seen(text)
        cls = classify(e)
        res.count('expr:' + (cls or 'plain'))
        if out[0] == 'err':
            res.violation('impl-violation',
                          f'well-formed expression {text!r} rejected: {out[1]}',
                          {'input': {'text': text, 'expr': e},
                           'observed': out}, cls=cls)
            continue
        # truth table: #n atoms are opaque Boolean variables here
        at = sorted(atoms(e, set()), key=str)
        cellvars = [7, 8, 9]
        ok = True
        for bits in itertools.product([False, True],
                                      repeat=len(at) + len(cellvars)):
            sigma = dict(zip(at, bits))
            cellval = dict(zip(cellvars, bits[len(at):]))
            want = spec_eval(e, sigma, lambda n, _s: cellval[n])
            got = eval_with_cells(out[1], sigma, cellval)
            if want != got:
                ok = False
                res.violation('impl-violation',
                              f'{text!r}: parsed tree evaluates to {got}, '
                              f'MCNP meaning is {want} under {sigma} '
                              f'{cellval}',
                              {'input': {'text': text, 'expr': e},
                               'sigma': [list(map(str, sigma.items())),
                                         cellval],
                               'observed': out}, found_input=True)
                break
        res.count('sweep:' + ('ok' if ok else 'FAIL'))
    # mutated texts (malformed stream)
    for text, _ in list(meta2[:600]):
        chars = list(text)
        for _ in range(rng.randint(1, 2)):
            pos = rng.randrange(len(chars) + 1)
            op = rng.random()
            if op < 0.4 and chars:
                del chars[min(pos, len(chars) - 1)]
            elif op < 0.8:
                chars.insert(pos, rng.choice('()#:.-+ 12'))
            elif chars:
                chars[min(pos, len(chars) - 1)] = rng.choice('()#:.-+ 12')
        mtext = ''.join(chars)
        out = impl_get_ast(mtext)
        cases2.append(cpair(cstr(mtext), coq_res(out)))
        meta2.append((mtext, out))
        res.seen(mtext, nontrivial=out[0] == 'ok')
        res.count('mutated:' + (out[0] if out[0] == 'ok' else out[1]))
    bad, errs = common.run_case_files('c11_expr', HEADER, 'string * res ast',
                                      'check_parse', cases2, chunk=400)
    res.obligation(f'tie:parse random ({len(cases2)} generated/mutated '
                   'expressions)', not bad and not errs,
                   f'{len(bad)} disagreements {errs[:1]}')
    for idx in bad[:8]:
        text, out = meta2[idx]
        model, _ = common.coq_eval(HEADER, f'get_ast {cstr(text)}')
        res.violation('correspondence',
                      f'get_ast({text!r}): implementation {out}, model '
                      f'{model}', {'input': {'text': text}, 'observed': out,
                                   'model': model,
                                   'theorem_or_correspondence': 'tie:parse'},
                      found_input=False)

    # ---- pot_complement tie + sweep ----
    n_tab = 400 if tier == 'quick' else 3000
    cases3, meta3 = [], []
    for _ in range(n_tab):
        # acyclic table: cell k may reference cells < k
        n_cells = rng.randint(2, 5)
        ids = [rng.randint(1, 40) for _ in range(n_cells)]
        ids = list(dict.fromkeys(ids))
        exprs = {}
        for k, cid in enumerate(ids):
            earlier = ids[:k]
            e = gen_expr(rng, rng.randint(1, 3), 3, cells=earlier)
            tries = 0
            while (classify(e) is not None) and tries < 20:
                e = gen_expr(rng, rng.randint(1, 3), 3, cells=earlier)
                tries += 1
            if classify(e) is not None:
                e = ('s', 1, None)
            exprs[cid] = e
        lattice = {cid for cid in ids[:-1] if rng.random() < 0.1}
        if rng.random() < 0.05:
            # dangling reference / cycle for the error branches
            exprs[ids[0]] = ('*', exprs[ids[0]], ('#c', rng.choice(
                [99, ids[-1]])))
        texts3 = {cid: render(e, rng) for cid, e in exprs.items()}
        target = ids[-1]
        out = impl_complement(texts3, lattice, target)
        parsed = {cid: impl_get_ast(t)[1] for cid, t in texts3.items()}
        table = clist(cpair(cn(cid), f'(mkCell {coq_ast(parsed[cid])} '
                                     f'{cbool(cid in lattice)})')
                      for cid in ids)
        cases3.append(cpair(table, coq_ast(parsed[target]), coq_res(out)))
        meta3.append((texts3, sorted(lattice), target, out))
        res.seen((sorted(texts3.items()), target))
        res.count('complement:' + (out[0] if out[0] == 'ok' else out[1]))
        # sweep: truth table against the spec with real cell semantics
        if out[0] == 'ok' and not lattice:
            at = set()
            for e in exprs.values():
                atoms(e, at)
            at = sorted(at, key=str)

            def cellfun(n, sigma, depth=0):
                return spec_eval(exprs[n], sigma,
                                 lambda m, s: cellfun(m, s, depth + 1))
            for bits in itertools.product([False, True], repeat=len(at)):
                sigma = dict(zip(at, bits))
                want = spec_eval(exprs[target], sigma, cellfun)
                got = tree_eval(out[1], sigma)
                if want != got:
                    res.violation('impl-violation',
                                  f'cell {target} of {texts3}: after complement'
                                  f' elimination evaluates to {got}, MCNP '
                                  f'meaning {want}',
                                  {'input': {'cells': texts3,
                                             'target': target},
                                   'observed': out}, found_input=True)
                    break
    res.sample({'cells': meta3[0][0], 'target': meta3[0][2],
                'impl': meta3[0][3]})
    bad, errs = common.run_case_files(
        'c11_compl', HEADER, 'list (N * cell) * ast * res ast',
        'check_complement', cases3, chunk=200)
    res.obligation(f'tie:complement ({len(cases3)} cell tables)',
                   not bad and not errs, f'{len(bad)} disagreements {errs[:1]}')
    for idx in bad[:8]:
        texts3, lat, target, out = meta3[idx]
        res.violation('correspondence',
                      f'pot_complement on {texts3} (lattice {lat}) target '
                      f'{target}: implementation {out}',
                      {'input': {'cells': texts3, 'lattice': lat,
                                 'target': target}, 'observed': out,
                       'theorem_or_correspondence': 'tie:complement'},
                      found_input=False)


def eval_with_cells(tree, sigma, cellval):
    if tree[0] == '^':
        return not cellval[tree[1]]
    if tree[0] == 's':
        val = sigma[(abs(tree[1]), tree[2])]
        return val if tree[1] > 0 else not val
    if tree[0] == '*':
        return (eval_with_cells(tree[1], sigma, cellval)
                and eval_with_cells(tree[2], sigma, cellval))
    return (eval_with_cells(tree[1], sigma, cellval)
            or eval_with_cells(tree[2], sigma, cellval))


def replay(path):
    data = json.load(open(path))
    inp = data.get('input', {})
    if 'text' in inp:
        print('implementation:', impl_get_ast(inp['text']))
        model, _ = common.coq_eval(HEADER, f'get_ast {cstr(inp["text"])}')
        print('model:', model)
    if 'cells' in inp:
        cells = {int(k): v for k, v in inp['cells'].items()}
        print('implementation:', impl_complement(
            cells, set(inp.get('lattice', [])), inp['target']))
    print('recorded:', data.get('what'))
    return 0
