'''C13 corpus: hand-written decks run first under all 40 option vectors.'''
A = """corpus A: one universe filled twice with different poses, duplicates, union in the filler
1 0 -1 fill=1 (0.5 0 0) imp:n=1
2 0 1 -2 fill=1 (0 0 0 0 1 0 -1 0 0 0 0 1) imp:n=1
3 0 2 imp:n=0
10 1 -1.0 -10 u=1 imp:n=1
11 2 -2.0 10 -11 u=1 imp:n=1
12 3 -1.0 (11 -13) : (11 12 (12 : 13)) u=1 imp:n=1

1 so 1.5
2 so 4
10 px 0.25
11 py 0.3
12 pz 0.1
13 p 0 0 2 0.2

m1 1001 1.0
m2 1001 1.0
m3 1001 1.0
"""
B = """corpus B: tilted and untilted torus with equal parameters, concentric spheres, twin planes
1 1 -1.0 -1 -3 imp:n=1
2 2 -1.0 -2 1 -3 imp:n=1
3 1 -2.0 -4 3 (5 : -6) imp:n=1
4 2 -2.0 4 3 -7 : (3 -4 -5 6) imp:n=1
5 0 (2 -3) : (3 7 4) imp:n=0

1 tz 0 0 0 2.5 0.5 0.75
2 61 tz 0 0 0 2.5 0.5 0.75
3 so 5
4 s 0 0 0 6
5 px 0.25
6 p 2 0 0 0.5
7 so 7

*tr61 0 0 0 0 90 90 90 30 60 90 120 30
m1 1001 1.0
m2 1001 1.0
"""
C = """corpus C: lattice filled with two universes and itself, container with TRCL
1 0 -1 fill=5 trcl=(0.5 0.5 0) imp:n=1
2 0 1 imp:n=0
5 1 -1.0 -11 12 -13 14 u=5 lat=1 fill=-1:1 0:1 0:0 6 5 7 7 6 5 imp:n=1
6 2 -1.0 -20 u=6 imp:n=1
7 1 -2.0 20 u=6 imp:n=1
8 2 -2.0 -21 22 u=7 imp:n=1
9 1 -1.0 21 : -22 u=7 imp:n=1

1 so 3.5
11 px 0.75
12 px -0.75
13 py 1.0
14 py 0.0
20 so 0.4
21 pz 0.3
22 pz -0.3

m1 1001 1.0
m2 1001 1.0
"""

D = """corpus D: one universe filled twice with the same translation and different rotations
1 0 -1 fill=1 (1 0 0) imp:n=1
2 0 1 -2 fill=1 (1 0 0  0 1 0  -1 0 0  0 0 1) imp:n=1
3 0 2 imp:n=0
10 1 -1.0 -10 u=1 imp:n=1
11 2 -2.0 10 u=1 imp:n=1

1 so 1.5
2 so 4
10 px 0.25

m1 1001 1.0
m2 1001 1.0
"""

E = """corpus E: union of a convex operand and a zero-thickness operand between duplicate surfaces
1 1 -1.0 (4 -5 -3) : (1 -2) imp:n=1
2 2 -1.0 -3 #1 imp:n=1
3 0 3 imp:n=0

1 px 2
2 px 2
3 so 6
4 py -1
5 py 1

m1 1001 1.0
m2 1001 1.0
"""
F = """corpus F: a referenced cell and a bare half-space carry the same number
1 0 -1 fill=1 imp:n=1
3 0 -3 fill=1 (6 0 0) imp:n=1
4 1 -1.0 1 3 -4 (2 : -7) imp:n=1
5 0 4 imp:n=0
2 1 -1.0 -5 6 u=1 imp:n=1
6 2 -1.0 5 : -6 u=1 imp:n=1

1 so 2
2 pz 1.5
3 s 6 0 0 2
4 so 20
5 px 0.5
6 px -0.5
7 pz -1.5

m1 1001 1.0
m2 1001 1.0
"""

G = """corpus G: one universe filled twice by translations that differ by one unit
1 0 -1 fill=2 (0 0 -1) imp:n=1
2 0 -2 fill=2 (0 0 -2) imp:n=1
3 1 -1.0 1 2 -3 imp:n=1
4 0 3 imp:n=0
10 1 -1.0 -10 u=2 imp:n=1
11 2 -2.0 10 u=2 imp:n=1

1 s 3 0 0 1.5
2 s -3 0 0 1.5
3 so 9
10 pz 0.25

m1 1001 1.0
m2 1001 1.0
"""

H = """corpus H: a filler bounded by the same surface and sign as the cell it fills
1 0 -10 fill=2 imp:n=1
2 1 -1.0 10 -11 imp:n=1
3 0 11 imp:n=0
20 1 -1.0 20 -10 u=2 imp:n=1
21 2 -2.0 -20 u=2 imp:n=1

10 so 2
11 so 6
20 px 0.25

m1 1001 1.0
m2 1001 1.0
"""

I = """corpus I: the same oblique plane twice with opposite orientation, an axis-aligned one likewise
1 1 -1.0 -1 -3 5 imp:n=1
2 2 -1.0 2 -3 -6 imp:n=1
3 1 -2.0 -3 #1 #2 imp:n=1
4 0 3 imp:n=0

1 p 1 1 0 1
2 p -1 -1 0 -1
3 so 6
5 p 0 0 -1 2
6 p 0 0 2 -4

m1 1001 1.0
m2 1001 1.0
"""

CORPUS = [('A', A), ('B', B), ('C', C), ('D', D), ('E', E), ('F', F), ('G', G), ('H', H), ('I', I)]
