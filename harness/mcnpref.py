'''Reference semantics of MCNP geometry, written from the MCNP manual
(DESIGN.md Appendix A), independently of the converter.  Works on the
generator's abstract decks (see deck.py).  Used only as an oracle for the
property-level search/sweep; never imported by the implementation.

A "sense value" is a real number whose sign is MCNP's sense of the point with
respect to the surface (negative = negative sense); its magnitude is used only
to discard points that are too close to a surface.'''
import math

import numpy as np

# ---------------------------------------------------------------------------
# rigid motions
# ---------------------------------------------------------------------------


def tr_matrix(tr):
    '''3x3 matrix M with columns = auxiliary axes in main coordinates, from a
    transformation spec {'O': (3), 'B': 9 cosines or None}.'''
    if tr.get('B') is None:
        return np.eye(3)
    b = np.array(tr['B'], dtype=float).reshape(3, 3)
    # row i of b = (B_{3i+1}, B_{3i+2}, B_{3i+3}) = e_i' in main coordinates
    return b.T


def to_main(tr, p_aux):
    return np.array(tr['O'], dtype=float) + tr_matrix(tr) @ np.asarray(p_aux,
                                                                     float)


def to_aux(tr, p_main):
    mat = tr_matrix(tr)
    return np.linalg.solve(mat, np.asarray(p_main, float)
                           - np.array(tr['O'], dtype=float))


# ---------------------------------------------------------------------------
# elementary surfaces: sense value at a point
# ---------------------------------------------------------------------------

def _axis_index(mn):
    return 'xyz'.index(mn[-1])


def _sheet(f, axial, sheet):
    '''One-sheet cone: negative region = inside the cone AND on the sheet.'''
    if sheet in (None, 0):
        return f
    side = -axial if sheet > 0 else axial     # negative on the kept sheet
    return max(f, side)


def plane_from_points(p1, p2, p3):
    '''Coefficients (A,B,C,D) of Ax+By+Cz-D through three points, oriented by
    the manual's rules.'''
    p1, p2, p3 = (np.array(p, float) for p in (p1, p2, p3))
    n = np.cross(p2 - p1, p3 - p1)
    d = float(n @ p1)
    scale = max(1.0, float(np.abs(n).max()))
    eps = 1e-12 * scale * max(1.0, float(np.abs(p1).max()))

    def flip():
        return (-n[0], -n[1], -n[2], -d)
    keep = (n[0], n[1], n[2], d)
    # origin must have negative sense: f(0) = -D < 0  <=>  D > 0
    if abs(d) > eps:
        return keep if d > 0 else flip()
    # plane through the origin: (0,0,inf) positive <=> C > 0, etc.
    for comp in (n[2], n[1], n[0]):
        if abs(comp) > 1e-12 * scale:
            return keep if comp > 0 else flip()
    raise ValueError('degenerate three-point plane')


def surface_value(mn, prm, p):
    '''Sense value of point p w.r.t. the elementary surface (mn, prm) given in
    its own (auxiliary) frame.'''
    x, y, z = (float(c) for c in p)
    mn = mn.lower()
    if mn == 'p':
        if len(prm) == 9:
            a, b, c, d = plane_from_points(prm[0:3], prm[3:6], prm[6:9])
        else:
            a, b, c, d = prm
        return a * x + b * y + c * z - d
    if mn in ('px', 'py', 'pz'):
        return (x, y, z)[_axis_index(mn)] - prm[0]
    if mn == 'so':
        return x * x + y * y + z * z - prm[0] ** 2
    if mn == 's':
        return ((x - prm[0]) ** 2 + (y - prm[1]) ** 2 + (z - prm[2]) ** 2
                - prm[3] ** 2)
    if mn in ('sx', 'sy', 'sz'):
        c = [0.0, 0.0, 0.0]
        c[_axis_index(mn)] = prm[0]
        return ((x - c[0]) ** 2 + (y - c[1]) ** 2 + (z - c[2]) ** 2
                - prm[1] ** 2)
    if mn in ('c/x', 'c/y', 'c/z', 'cx', 'cy', 'cz'):
        k = _axis_index(mn)
        others = [i for i in range(3) if i != k]
        if '/' in mn:
            c0, c1, r = prm
        else:
            c0, c1, r = 0.0, 0.0, prm[0]
        q = (x, y, z)
        return (q[others[0]] - c0) ** 2 + (q[others[1]] - c1) ** 2 - r * r
    if mn in ('k/x', 'k/y', 'k/z', 'kx', 'ky', 'kz'):
        k = _axis_index(mn)
        if '/' in mn:
            apex = list(prm[0:3])
            t2 = prm[3]
            sheet = prm[4] if len(prm) > 4 else None
        else:
            apex = [0.0, 0.0, 0.0]
            apex[k] = prm[0]
            t2 = prm[1]
            sheet = prm[2] if len(prm) > 2 else None
        q = [x - apex[0], y - apex[1], z - apex[2]]
        axial = q[k]
        perp2 = sum(q[i] ** 2 for i in range(3) if i != k)
        return _sheet(perp2 - t2 * axial * axial, axial, sheet)
    if mn == 'sq':
        a, b, c, d, e, f, g, x0, y0, z0 = prm
        dx, dy, dz = x - x0, y - y0, z - z0
        return (a * dx * dx + b * dy * dy + c * dz * dz
                + 2 * d * dx + 2 * e * dy + 2 * f * dz + g)
    if mn == 'gq':
        a, b, c, d, e, f, g, h, j, k = prm
        return (a * x * x + b * y * y + c * z * z + d * x * y + e * y * z
                + f * z * x + g * x + h * y + j * z + k)
    if mn in ('tx', 'ty', 'tz'):
        k = _axis_index(mn)
        q = [x - prm[0], y - prm[1], z - prm[2]]
        a, b, c = prm[3], prm[4], prm[5]
        axial = q[k]
        rho = math.sqrt(sum(q[i] ** 2 for i in range(3) if i != k))
        return axial * axial / (b * b) + (rho - a) ** 2 / (c * c) - 1.0
    if mn in ('x', 'y', 'z'):
        k = 'xyz'.index(mn)
        q = (x, y, z)
        axial = q[k]
        perp2 = sum(q[i] ** 2 for i in range(3) if i != k)
        if len(prm) == 2 or prm[0] == prm[2]:
            return axial - prm[0]
        x1, r1, x2, r2 = prm
        if r1 == r2:
            return perp2 - r1 * r1
        t = (r2 - r1) / (x2 - x1)
        apex = x1 - r1 / t
        # the sheet that contains the points: the one on the side of whichever
        # defining point is off the apex
        ref = x1 if r1 != 0 else x2
        sheet = 1 if ref > apex else -1
        return _sheet(perp2 - t * t * (axial - apex) ** 2, axial - apex, sheet)
    raise ValueError(f'mcnpref: unknown mnemonic {mn!r}')


# ---------------------------------------------------------------------------
# macrobodies: list of facet sense functions, outward positive
# ---------------------------------------------------------------------------

def _plane_through(normal, point):
    normal = np.array(normal, float)
    point = np.array(point, float)
    return lambda p: float(normal @ (np.asarray(p, float) - point))


def macro_facets(mn, prm):
    mn = mn.lower()
    prm = [float(v) for v in prm]
    if mn == 'rpp':
        x0, x1, y0, y1, z0, z1 = prm
        return [lambda p: p[0] - x1, lambda p: x0 - p[0],
                lambda p: p[1] - y1, lambda p: y0 - p[1],
                lambda p: p[2] - z1, lambda p: z0 - p[2]]
    if mn == 'box':
        v = np.array(prm[0:3])
        edges = [np.array(prm[3 + 3 * i:6 + 3 * i]) for i in range(3)]
        facets = []
        for i in range(3):
            others = [edges[j] for j in range(3) if j != i]
            n = np.cross(others[0], others[1])
            if n @ edges[i] < 0:
                n = -n          # outward at the far end of edge i
            facets.append(_plane_through(n, v + edges[i]))
            facets.append(_plane_through(-n, v))
        return facets
    if mn == 'sph':
        return [lambda p: surface_value('s', prm, p)]
    if mn in ('rcc', 'trc', 'rec'):
        v = np.array(prm[0:3])
        h = np.array(prm[3:6])
        hh = float(h @ h)
        uh = h / math.sqrt(hh)

        def radial(p):
            q = np.asarray(p, float) - v
            t = float(q @ uh)
            perp = q - t * uh
            if mn == 'rcc':
                return float(perp @ perp) - prm[6] ** 2
            if mn == 'trc':
                r1, r2 = prm[6], prm[7]
                r = r1 + (r2 - r1) * t / math.sqrt(hh)
                # the cone sheet containing the frustum
                return float(perp @ perp) - r * r if r > 0 \
                    else max(float(perp @ perp) - r * r, 1.0)
            a1 = np.array(prm[6:9])
            la = math.sqrt(float(a1 @ a1))
            ua = a1 / la
            if len(prm) == 12:
                a2 = np.array(prm[9:12])
                lb = math.sqrt(float(a2 @ a2))
                ub = a2 / lb
            else:
                lb = abs(prm[9])
                ub = np.cross(uh, ua)
            return (float(perp @ ua) / la) ** 2 + (float(perp @ ub) / lb) ** 2 - 1
        return [radial, _plane_through(h, v + h), _plane_through(-h, v)]
    if mn in ('rhp', 'hex'):
        v = np.array(prm[0:3])
        h = np.array(prm[3:6])
        r = np.array(prm[6:9])
        if len(prm) == 15:
            s, t = np.array(prm[9:12]), np.array(prm[12:15])
        else:
            uh = h / math.sqrt(float(h @ h))

            def rot(vec, ang):
                return (vec * math.cos(ang) + np.cross(uh, vec) * math.sin(ang)
                        + uh * float(uh @ vec) * (1 - math.cos(ang)))
            s, t = rot(r, math.pi / 3), rot(r, 2 * math.pi / 3)
        facets = []
        for w in (r, s, t):
            facets.append(_plane_through(w, v + w))
            facets.append(_plane_through(-w, v - w))
        facets.append(_plane_through(h, v + h))
        facets.append(_plane_through(-h, v))
        return facets
    if mn == 'ell':
        if prm[6] > 0:
            f1, f2 = np.array(prm[0:3]), np.array(prm[3:6])
            big = prm[6]
            return [lambda p: (np.linalg.norm(np.asarray(p, float) - f1)
                               + np.linalg.norm(np.asarray(p, float) - f2)
                               - 2 * big)]
        c, a = np.array(prm[0:3]), np.array(prm[3:6])
        la = math.sqrt(float(a @ a))
        ua = a / la
        rb = abs(prm[6])

        def ellv(p):
            q = np.asarray(p, float) - c
            t = float(q @ ua)
            perp = q - t * ua
            return (t / la) ** 2 + float(perp @ perp) / rb ** 2 - 1
        return [ellv]
    if mn == 'wed':
        v = np.array(prm[0:3])
        a, b, h = (np.array(prm[3 + 3 * i:6 + 3 * i]) for i in range(3))
        inside = v + (a + b) / 4 + h / 2

        def oriented(normal, point):
            normal = np.array(normal, float)
            if normal @ (inside - point) > 0:
                normal = -normal
            return _plane_through(normal, point)
        return [oriented(np.cross(a - b, h), v + a),     # slant
                oriented(np.cross(b, h), v),             # contains b, h
                oriented(np.cross(a, h), v),             # contains a, h
                oriented(h, v + h),                      # top
                oriented(h, v)]                          # bottom
    if mn == 'arb':
        verts = [np.array(prm[3 * i:3 * i + 3]) for i in range(8)]
        descr = [int(round(d)) for d in prm[24:30]]
        used = sorted({int(ch) for d in descr if d for ch in f'{d:04d}'
                       if ch != '0'})
        centroid = sum(verts[i - 1] for i in used) / len(used)
        facets = []
        for d in descr:
            if d == 0:
                continue
            idx = [int(ch) for ch in f'{d:04d}' if ch != '0']
            pts = [verts[i - 1] for i in idx[:3]]
            n = np.cross(pts[1] - pts[0], pts[2] - pts[0])
            if n @ (centroid - pts[0]) > 0:
                n = -n
            facets.append(_plane_through(n, pts[0]))
        return facets
    raise ValueError(f'mcnpref: unknown macrobody {mn!r}')


MACROBODIES = ('box', 'rpp', 'sph', 'rcc', 'rhp', 'hex', 'rec', 'trc', 'ell',
               'wed', 'arb')


# ---------------------------------------------------------------------------
# decks
# ---------------------------------------------------------------------------

class Ambiguous(Exception):
    '''The point is too close to a surface or the deck is not a partition
    there; the oracle gives no verdict.'''


class Reference:
    '''Point location in an abstract deck (deck.py).'''

    def __init__(self, deck, eps=1e-7):
        self.deck = deck
        self.eps = eps
        self.cells = {c['id']: c for c in deck['cells']}
        self.surfs = {s['id']: s for s in deck['surfaces']}
        self.trs = deck.get('transforms', {})

    # -- transformations ----------------------------------------------------
    def tr_of(self, spec):
        '''spec: None | ('num', n) | dict'''
        if spec is None:
            return None
        if isinstance(spec, tuple) and spec[0] == 'num':
            return self.trs[spec[1]]
        return spec

    # -- surfaces -----------------------------------------------------------
    def value(self, sid, p, facet=None):
        '''Sense value of p w.r.t. surface sid (or its facet).'''
        if sid not in self.surfs and sid >= 1000:
            cell = self.cells[sid // 1000]
            tr = self.tr_of(cell.get('trcl'))
            return self.value(sid % 1000, to_aux(tr, p) if tr else p, facet)
        surf = self.surfs[sid]
        if surf.get('tr') is not None:
            p = to_aux(self.trs[surf['tr']], p)
        mn = surf['mn'].lower()
        if mn in MACROBODIES:
            vals = [f(p) for f in macro_facets(mn, surf['params'])]
            if facet is not None:
                return vals[facet - 1]
            return max(vals)
        if facet is not None:
            raise ValueError('facet of an elementary surface')
        return surface_value(mn, surf['params'], p)

    def sense(self, sid, p, facet=None):
        val = self.value(sid, p, facet)
        if abs(val) < self.eps:
            raise Ambiguous(f'point within {self.eps} of surface {sid}')
        return val > 0

    # -- expressions --------------------------------------------------------
    def eval_expr(self, expr, p_local, p_frame):
        '''p_local: point in the cell's own (TRCL-auxiliary) frame, used for
        surfaces; p_frame: point in the universe frame, used for #n.'''
        tag = expr[0]
        if tag == 's':
            n = expr[1]
            pos = self.sense(abs(n), p_local)
            return pos if n > 0 else not pos
        if tag == 'f':
            n, k = expr[1], expr[2]
            pos = self.sense(abs(n), p_local, facet=k)
            return pos if n > 0 else not pos
        if tag == '*':
            return all(self.eval_expr(e, p_local, p_frame) for e in expr[1:])
        if tag == ':':
            return any(self.eval_expr(e, p_local, p_frame) for e in expr[1:])
        if tag == '#':
            return not self.eval_expr(expr[1], p_local, p_frame)
        if tag == '#c':
            return not self.in_cell(expr[1], p_frame)
        raise ValueError(f'bad expression node {expr!r}')

    def in_cell(self, cid, p):
        '''p in the frame of the cell's universe.'''
        cell = self.resolve(cid)
        tr = self.tr_of(cell.get('trcl'))
        p_local = to_aux(tr, p) if tr else p
        return self.eval_expr(cell['expr'], p_local, p)

    def resolve(self, cid):
        '''Expand LIKE n BUT into an explicit cell record.'''
        cell = self.cells[cid]
        if cell.get('like') is None:
            return cell
        base = dict(self.resolve(cell['like']))
        for key, val in cell.get('but', {}).items():
            base[key] = val
        base['id'] = cid
        return base

    # -- universes ----------------------------------------------------------
    def universe_cells(self, univ):
        return [c['id'] for c in self.deck['cells']
                if self.resolve(c['id']).get('u', 0) == univ]

    def locate(self, p, univ=0, depth=0):
        '''Chain [(cell id, lattice index or None), ...] from `univ` down to
        the leaf that owns p, or None when no cell of `univ` contains p.'''
        if depth > 20:
            raise Ambiguous('universe nesting too deep')
        owners = [cid for cid in self.universe_cells(univ)
                  if self.owns(cid, p)]
        if not owners:
            return None
        if len(owners) > 1:
            raise Ambiguous(f'cells {owners} overlap')
        cid = owners[0]
        cell = self.resolve(cid)
        if cell.get('lat'):
            return self.locate_lattice(cell, p, depth)
        fill = cell.get('fill')
        if fill is None:
            return [(cid, None)]
        tr = self.tr_of(fill.get('tr'))
        if tr is None:
            tr = self.tr_of(cell.get('trcl'))
        q = to_aux(tr, p) if tr else p
        sub = self.locate(q, fill['u'], depth + 1)
        if sub is None:
            return [(cid, None), None]      # nothing of the filler here
        return [(cid, None)] + sub

    def owns(self, cid, p):
        cell = self.resolve(cid)
        if cell.get('lat'):
            return True      # a lattice cell fills its whole universe
        return self.in_cell(cid, p)

    def locate_lattice(self, cell, p, depth):
        '''cell['lat_vectors'] (generator ground truth) gives a1..a3; the unit
        cell is cell['expr'].'''
        vecs = [np.array(v, float) for v in cell['lat_vectors']]
        tr = self.tr_of(cell.get('trcl'))
        fill = cell['fill']
        ranges = fill['ranges']
        if tr is not None and fill.get('tr') is not None:
            raise Ambiguous('lattice with both TRCL and a fill transformation')
        # find the element containing p by solving in the lattice basis around
        # the unit cell, then checking neighbours
        basis = np.array(vecs).T
        if basis.shape[1] < 3:
            # complete the basis with vectors orthogonal to the given ones
            _, _, vt = np.linalg.svd(np.array(vecs))
            basis = np.array(list(vecs) + list(vt[len(vecs):])).T
        p_loc = to_aux(tr, p) if tr else np.asarray(p, float)
        centre = np.array(cell['lat_centre'], float)
        coords = np.linalg.solve(basis, p_loc - centre)
        guess = [int(round(c)) for c in coords[:len(vecs)]]
        found = None
        for delta in np.ndindex(*([3] * len(vecs))):
            idx = [g + d - 1 for g, d in zip(guess, delta)]
            shift = sum(i * v for i, v in zip(idx, vecs))
            q = p_loc - shift
            if self.eval_expr(cell['expr'], q, q):
                if found is not None:
                    raise Ambiguous('lattice elements overlap')
                found = idx
        if found is None:
            raise Ambiguous('point in no lattice element')
        idx3 = list(found) + [0] * (3 - len(found))
        full_ranges = list(ranges) + [(0, 0)] * (3 - len(ranges))
        for i, (lo, hi) in zip(idx3, full_ranges):
            if i < lo or i > hi:
                return [(cell['id'], tuple(idx3)), None]
        dims = [hi - lo + 1 for lo, hi in full_ranges]
        flat = ((idx3[0] - full_ranges[0][0])
                + dims[0] * ((idx3[1] - full_ranges[1][0])
                             + dims[1] * (idx3[2] - full_ranges[2][0])))
        array = fill['array']
        univ = array[flat] if len(array) > 1 or 'homogeneous' not in fill \
            else array[0]
        if fill.get('homogeneous'):
            univ = array[0]
        if univ == 0:
            return [(cell['id'], tuple(idx3)), None]
        if univ == cell.get('u', 0):
            return [(cell['id'], tuple(idx3))]
        shift = sum(i * v for i, v in zip(found, vecs))
        # filler frame: the element's frame moved by the fill transformation
        ftr = self.tr_of(fill.get('tr'))
        q = p_loc - shift
        if ftr:
            q = to_aux(ftr, q)
        sub = self.locate(q, univ, depth + 1)
        if sub is None:
            return [(cell['id'], tuple(idx3)), None]
        return [(cell['id'], tuple(idx3))] + sub
