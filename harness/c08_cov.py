'''C08: line coverage of the anchored Python functions during the sweep and the
ties (sys.settrace restricted to their code objects; same technique as C02).
Every executable line must be hit at least once, except the lines listed — by
their source text — in UNREACHABLE with the reason.'''
import linecache
import sys
import types


def _codes(func):
    code = func.__code__
    out, stack = [code], [code]
    while stack:
        cur = stack.pop()
        for const in cur.co_consts:
            if isinstance(const, types.CodeType):
                out.append(const)
                stack.append(const)
    return out


class LineCov:
    def __init__(self, funcs):
        self.codes = {}
        for func in funcs:
            func = getattr(func, '__func__', func)
            for code in _codes(func):
                self.codes[code] = func.__qualname__
        self.hit = {code: set() for code in self.codes}
        self._prev = None

    def _global(self, frame, event, arg):
        if frame.f_code in self.codes:
            self.hit[frame.f_code].add(frame.f_lineno)
            return self._local
        return None

    def _local(self, frame, event, arg):
        if event == 'line':
            self.hit[frame.f_code].add(frame.f_lineno)
        return self._local

    def __enter__(self):
        self._prev = sys.gettrace()
        sys.settrace(self._global)
        return self

    def __exit__(self, *exc):
        sys.settrace(self._prev)
        return False

    def missing(self, unreachable):
        out, total = [], 0
        for code, name in self.codes.items():
            lines = {ln for _, _, ln in code.co_lines() if ln is not None}
            lines.discard(code.co_firstlineno)
            total += len(lines)
            for ln in sorted(lines - self.hit[code]):
                text = linecache.getline(code.co_filename, ln).strip()
                if not text or any(pat in text for pat in unreachable):
                    continue
                out.append((name, ln, text))
        return total, out


UNREACHABLE = [
    # convertMCNPGeometry: the --cache branches (pickled tables; never used by
    # the checks, the option is a debugging aid)
    'mcnp_cell_cache_path = input_file.with_suffix', 'with t4_surf_cache_path',
    'with t4_vol_cache_path', 'abspath =', "print(f'reading", "print(f'writing",
    'end=', 'surf_conv = pickle.load', 'vol_conv = pickle.load', "print(' done'",
    'pickle.dump', 'except:', 'try:',
    'surf_conv = construct_surface_t4(mcnp_parser)',   # second copy in the except branch
    'vol_conv = construct_volume_t4(mcnp_parser, lattice_params,',
    'mcnp_cell_cache_path,', 'dic_surface_t4,', 'dic_surface_mcnp,',
    'args.always_inline_filled,', 'args.always_inline_filling,',
    'args.max_inline_score)',
    # CConversionBoundaryCondition: macrobody flags are refused upstream of the writers
    "msg = ('Boundary conditions on macrobodies", "'supported yet.')",
    'raise NotImplementedError(msg)',
    # SurfaceT4.__eq__: a surface with a transform is compared with one without
    # only on a hash collision (the hash includes the transform)
    'return False',
    # writeT4Geometry: `if key in skipped_cells: continue` is dead - the skip list
    # (cells of importance 0) is disjoint from the keys of the volume table
    # (stage0_ok.s0_skipped, checked on every snapshot by tie:stage0)
    'continue',
]


# (module path, attribute chain) of the anchored functions; resolved tolerantly:
# a name a rewrite removed or renamed is skipped and reported in MISSING (line
# coverage is information only and must never fail a check)
ANCHORED = [
    ('Kernel.Volume.VolumeT4', 'VolumeT4.__init__'),
    ('Kernel.Volume.VolumeT4', 'VolumeT4.__str__'),
    ('Kernel.Volume.VolumeT4', 'VolumeT4.copy'),
    ('Kernel.Volume.VolumeT4', 'VolumeT4.comment'),
    ('Kernel.Volume.VolumeT4', 'VolumeT4.empty'),
    ('Kernel.Volume.VolumeT4', 'VolumeT4.surface_ids'),
    ('Kernel.Surface.SurfaceT4', 'SurfaceT4.__str__'),
    ('Kernel.Surface.SurfaceT4', 'SurfaceT4.transform_block'),
    ('Kernel.Surface.SurfaceT4', 'SurfaceT4.comment'),
    ('Kernel.Surface.SurfaceT4', 'SurfaceT4.__eq__'),
    ('Kernel.Surface.SurfaceT4', 'SurfaceT4.__hash__'),
    ('Kernel.Surface.Duplicates', 'remove_duplicate_surfaces'),
    ('Kernel.Surface.Duplicates', 'renumber_surfaces'),
    ('Kernel.Volume.ConstructVolumeT4', 'remove_empty_volumes'),
    ('Kernel.Volume.ConstructVolumeT4', 'remove_unused_volumes'),
    ('Kernel.Volume.ConstructVolumeT4', 'extract_used_surfaces'),
    ('Kernel.FileHandlers.Writer.WriteT4Geometry', 'convertMCNPGeometry'),
    ('Kernel.FileHandlers.Writer.WriteT4Geometry', 'writeT4Geometry'),
    ('Kernel.FileHandlers.Writer.WriteT4Composition', 'writeT4Composition'),
    ('Kernel.Composition.ConstructCompositionT4', 'constructCompositionT4'),
    ('Kernel.FileHandlers.Writer.WriteT4GeomComp', 'writeT4GeomComp'),
    ('Kernel.GeomComp.ConstructGeomCompT4', 'constructGeomCompT4'),
    ('Kernel.FileHandlers.Writer.WriteT4BoundCond', 'writeT4BoundCond'),
    ('Kernel.BoundaryCondition.CConversionBoundaryCondition',
     'CConversionBoundaryCondition.recuperateBoundaryCondition'),
    ('Kernel.BoundaryCondition.CConversionBoundaryCondition',
     'CConversionBoundaryCondition.conversionBoundCond'),
]
MISSING = []


def anchored_functions():
    import importlib
    import types as _types
    funcs = []
    del MISSING[:]
    for modname, chain in ANCHORED:
        try:
            obj = importlib.import_module('t4_geom_convert.' + modname)
            for part in chain.split('.'):
                obj = getattr(obj, part)
            obj = getattr(obj, '__func__', obj)
            if not isinstance(getattr(obj, '__code__', None), _types.CodeType):
                raise AttributeError(chain)
            funcs.append(obj)
        except Exception:      # pylint: disable=broad-except
            MISSING.append(f'{modname}.{chain}')
    return funcs
