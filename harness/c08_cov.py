'''C08: line coverage of the anchored Python functions during the sweep and the
ties (sys.settrace restricted to their code objects; same technique as C02).
Every executable line must be hit at least once, except the lines listed — by
their source text — in UNREACHABLE with the reason.'''
import linecache
import sys
import types


def _codes(func):
    code = func.__code__
    out, stack = [code], [code]
    while stack:
        cur = stack.pop()
        for const in cur.co_consts:
            if isinstance(const, types.CodeType):
                out.append(const)
                stack.append(const)
    return out


class LineCov:
    def __init__(self, funcs):
        self.codes = {}
        for func in funcs:
            func = getattr(func, '__func__', func)
            for code in _codes(func):
                self.codes[code] = func.__qualname__
        self.hit = {code: set() for code in self.codes}
        self._prev = None

    def _global(self, frame, event, arg):
        if frame.f_code in self.codes:
            self.hit[frame.f_code].add(frame.f_lineno)
            return self._local
        return None

    def _local(self, frame, event, arg):
        if event == 'line':
            self.hit[frame.f_code].add(frame.f_lineno)
        return self._local

    def __enter__(self):
        self._prev = sys.gettrace()
        sys.settrace(self._global)
        return self

    def __exit__(self, *exc):
        sys.settrace(self._prev)
        return False

    def missing(self, unreachable):
        out, total = [], 0
        for code, name in self.codes.items():
            lines = {ln for _, _, ln in code.co_lines() if ln is not None}
            lines.discard(code.co_firstlineno)
            total += len(lines)
            for ln in sorted(lines - self.hit[code]):
                text = linecache.getline(code.co_filename, ln).strip()
                if not text or any(pat in text for pat in unreachable):
                    continue
                out.append((name, ln, text))
        return total, out


UNREACHABLE = [
    # convertMCNPGeometry: the --cache branches (pickled tables; never used by
    # the checks, the option is a debugging aid)
    'mcnp_cell_cache_path = input_file.with_suffix', 'with t4_surf_cache_path',
    'with t4_vol_cache_path', 'abspath =', "print(f'reading", "print(f'writing",
    'end=', 'surf_conv = pickle.load', 'vol_conv = pickle.load', "print(' done'",
    'pickle.dump', 'except:', 'try:',
    'surf_conv = construct_surface_t4(mcnp_parser)',   # second copy in the except branch
    'vol_conv = construct_volume_t4(mcnp_parser, lattice_params,',
    'mcnp_cell_cache_path,', 'dic_surface_t4,', 'dic_surface_mcnp,',
    'args.always_inline_filled,', 'args.always_inline_filling,',
    'args.max_inline_score)',
    # CConversionBoundaryCondition: macrobody flags are refused upstream of the writers
    "msg = ('Boundary conditions on macrobodies", "'supported yet.')",
    'raise NotImplementedError(msg)',
    # SurfaceT4.__eq__: a surface with a transform is compared with one without
    # only on a hash collision (the hash includes the transform)
    'return False',
    # writeT4Geometry: `if key in skipped_cells: continue` is dead - the skip list
    # (cells of importance 0) is disjoint from the keys of the volume table
    # (stage0_ok.s0_skipped, checked on every snapshot by tie:stage0)
    'continue',
]


def anchored_functions():
    from t4_geom_convert.Kernel.FileHandlers.Writer import (
        WriteT4Geometry, WriteT4Composition, WriteT4GeomComp, WriteT4BoundCond)
    from t4_geom_convert.Kernel.Volume.VolumeT4 import VolumeT4
    from t4_geom_convert.Kernel.Volume import ConstructVolumeT4
    from t4_geom_convert.Kernel.Surface import Duplicates
    from t4_geom_convert.Kernel.Surface.SurfaceT4 import SurfaceT4
    from t4_geom_convert.Kernel.GeomComp import ConstructGeomCompT4
    from t4_geom_convert.Kernel.Composition import ConstructCompositionT4
    from t4_geom_convert.Kernel.BoundaryCondition.CConversionBoundaryCondition \
        import CConversionBoundaryCondition
    return [
        VolumeT4.__init__, VolumeT4.__str__, VolumeT4.copy, VolumeT4.comment,
        VolumeT4.empty, VolumeT4.surface_ids,
        SurfaceT4.__str__, SurfaceT4.transform_block, SurfaceT4.comment,
        SurfaceT4.__eq__, SurfaceT4.__hash__,
        Duplicates.remove_duplicate_surfaces, Duplicates.renumber_surfaces,
        ConstructVolumeT4.remove_empty_volumes,
        ConstructVolumeT4.remove_unused_volumes,
        ConstructVolumeT4.extract_used_surfaces,
        WriteT4Geometry.convertMCNPGeometry, WriteT4Geometry.writeT4Geometry,
        WriteT4Composition.writeT4Composition,
        ConstructCompositionT4.constructCompositionT4,
        WriteT4GeomComp.writeT4GeomComp,
        ConstructGeomCompT4.constructGeomCompT4,
        WriteT4BoundCond.writeT4BoundCond,
        CConversionBoundaryCondition.recuperateBoundaryCondition,
        CConversionBoundaryCondition.conversionBoundCond,
    ]
