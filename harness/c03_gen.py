'''C03 — generators of macrobody parameter vectors and the reference
semantics used by the sweep (mcnpref.macro_facets, with the ELL/foci form
specified as DESIGN §5.4 says: as MCNP behaves, per the source comment).

All coordinates are dyadic rationals of small magnitude, so that the
orientation tests of the code (signs of mixed products) are decided on exact
binary64 values and a behaviour-preserving rewrite cannot flip them.'''
import math

import numpy as np

import mcnpref

# mutually orthogonal integer triples (any handedness; the generator permutes
# and negates them)
FRAMES = [
    ((1, 0, 0), (0, 1, 0), (0, 0, 1)),
    ((1, 1, 0), (-1, 1, 0), (0, 0, 1)),
    ((0, 1, 1), (0, -1, 1), (1, 0, 0)),
    ((1, 0, 1), (0, 1, 0), (-1, 0, 1)),
    ((1, 2, 2), (2, 1, -2), (2, -2, 1)),
    ((2, 3, 6), (3, -6, 2), (6, 2, -3)),
    ((1, 1, 1), (1, -1, 0), (1, 1, -2)),
    ((1, 4, 8), (4, 7, -4), (8, -4, 1)),
]
SCALES = [0.25, 0.5, 0.5, 0.75, 1.0, 1.0, 1.25, 1.5, 2.0, 3.0]
COORDS = [-3.0, -2.0, -1.5, -1.0, -0.5, -0.25, 0.0, 0.0, 0.25, 0.5, 1.0, 1.5,
          2.0, 2.5]

NFACETS = {'box': 6, 'rpp': 6, 'sph': 1, 'rcc': 3, 'rhp': 8, 'hex': 8,
           'rec': 3, 'trc': 3, 'ell': 1, 'wed': 5}


def det3(a, b, c):
    return float(np.dot(a, np.cross(b, c)))


def frame(rng, small=False):
    '''Three mutually orthogonal dyadic vectors with random lengths, random
    order and random signs (hence either handedness).'''
    base = rng.choice(FRAMES[:4] if small else FRAMES)
    vecs = [list(v) for v in base]
    rng.shuffle(vecs)
    out = []
    for v in vecs:
        s = rng.choice(SCALES) * rng.choice([1, 1, -1])
        norm2 = sum(c * c for c in v)
        if norm2 > 9:
            s *= 0.25
        out.append(tuple(float(s * c) for c in v))
    return out


def point(rng):
    return tuple(rng.choice(COORDS) for _ in range(3))


def any_vec(rng, allow_zero=False):
    while True:
        v = tuple(float(rng.choice([-2, -1, -1, -0.5, 0, 0, 0.5, 1, 1, 2, 3]))
                  for _ in range(3))
        if allow_zero or any(v):
            return v


def flat(*parts):
    out = []
    for part in parts:
        if isinstance(part, (tuple, list)):
            out.extend(float(x) for x in part)
        else:
            out.append(float(part))
    return out


# ---------------------------------------------------------------------------
# admissible bodies
# ---------------------------------------------------------------------------

def gen_box(rng):
    a, b, c = frame(rng)
    return flat(point(rng), a, b, c)


def gen_rpp(rng):
    out = []
    for _ in range(3):
        lo = rng.choice(COORDS)
        out += [lo, lo + rng.choice(SCALES)]
    return flat(out)


def gen_sph(rng):
    return flat(point(rng), rng.choice(SCALES))


def gen_rcc(rng):
    h, _, _ = frame(rng)
    return flat(point(rng), h, rng.choice(SCALES))


def gen_rhp(rng, full=None):
    '''nine entries: regular prism; fifteen: three facet vectors in the plane
    normal to the axis.'''
    h, u, w = frame(rng)
    if full is None:
        full = rng.random() < 0.5
    if not full:
        return flat(point(rng), h, u)
    # three facet vectors orthogonal to h: dyadic combinations of u, w chosen
    # so that the prism is bounded and every facet is met
    k = rng.choice([0.5, 1.0, 1.0, 2.0])
    r = np.array(u)
    s = 0.5 * np.array(u) + k * np.array(w)
    t = -0.5 * np.array(u) + k * np.array(w)
    vecs = [r, s, t]
    if rng.random() < 0.3:
        vecs = [v * rng.choice([1, -1]) for v in vecs]
    return flat(point(rng), h, *[tuple(v) for v in vecs])


def gen_rec(rng, full=None):
    h, a1, a2 = frame(rng)
    if full is None:
        full = rng.random() < 0.5
    if full:
        return flat(point(rng), h, a1, a2)
    return flat(point(rng), h, a1, rng.choice(SCALES))


def gen_trc(rng):
    h, _, _ = frame(rng)
    r0, r1 = rng.sample([0.25, 0.5, 0.75, 1.0, 1.5, 2.0, 3.0], 2)
    return flat(point(rng), h, r0, r1)


def gen_ell(rng, foci=None):
    a, _, _ = frame(rng)
    if foci is None:
        foci = rng.random() < 0.5
    if rng.random() < 0.4:
        # the axis (almost) along a coordinate axis: the three Gram-Schmidt
        # branches of the code
        k = rng.randrange(3)
        a = [0.0, 0.0, 0.0]
        a[k] = rng.choice(SCALES) * rng.choice([1, -1])
        if rng.random() < 0.5:
            a[(k + 1) % 3] = a[k] * rng.choice([2 ** -4, 2 ** -6, 2 ** -10])
        a = tuple(a)
    if not foci:
        return flat(point(rng), a, -rng.choice(SCALES))
    c = np.array(point(rng))
    half = 0.5 * np.array(a)
    flen = float(np.linalg.norm(half))
    big = flen * rng.choice([1.25, 1.5, 2.0, 3.0])
    big = math.ceil(big * 8) / 8
    return flat(tuple(c + half), tuple(c - half), big)


def gen_wed(rng, hand=None):
    '''hand: +1 right-handed (a, b, h), -1 left-handed, None either.'''
    a, b, h = frame(rng)
    d = det3(a, b, h)
    if hand is not None and (d > 0) != (hand > 0):
        a, b = b, a
    return flat(point(rng), a, b, h)


def wed_hand(prm):
    return 1 if det3(prm[3:6], prm[6:9], prm[9:12]) > 0 else -1


def box_hand(prm):
    return 1 if det3(prm[3:6], prm[6:9], prm[9:12]) > 0 else -1


ARB_SHAPES = ['tetra', 'pyramid', 'prism', 'hexa']


def gen_arb(rng, shape=None):
    '''Convex polyhedra with 4, 5, 6 or 8 vertices; descriptors in a random
    order with random starting vertex and direction.'''
    shape = shape or rng.choice(ARB_SHAPES)
    o = np.array(point(rng))
    a, b, c = (np.array(v) for v in frame(rng))
    if rng.random() < 0.5:
        # oblique
        b = b + 0.25 * a
        c = c + 0.25 * a - 0.25 * b
    if shape == 'tetra':
        verts = [o, o + a, o + b, o + c]
        faces = [(1, 2, 3), (1, 2, 4), (1, 3, 4), (2, 3, 4)]
    elif shape == 'pyramid':
        verts = [o, o + a, o + a + b, o + b, o + 0.5 * a + 0.5 * b + c]
        faces = [(1, 2, 3, 4), (1, 2, 5), (2, 3, 5), (3, 4, 5), (4, 1, 5)]
    elif shape == 'prism':
        verts = [o, o + a, o + b, o + c, o + a + c, o + b + c]
        faces = [(1, 2, 3), (4, 5, 6), (1, 2, 5, 4), (2, 3, 6, 5),
                 (3, 1, 4, 6)]
    else:
        top = rng.choice([1.0, 0.5])       # frustum-like when 0.5
        verts = [o, o + a, o + a + b, o + b,
                 o + c, o + c + top * a, o + c + top * (a + b),
                 o + c + top * b]
        faces = [(1, 2, 3, 4), (5, 6, 7, 8), (1, 2, 6, 5), (2, 3, 7, 6),
                 (3, 4, 8, 7), (4, 1, 5, 8)]
    descr = []
    for face in faces:
        face = list(face)
        k = rng.randrange(len(face))
        face = face[k:] + face[:k]
        if rng.random() < 0.5:
            face.reverse()
        descr.append(int(''.join(str(i) for i in face)))
    rng.shuffle(descr)
    while len(descr) < 6:
        descr.insert(rng.randrange(len(descr) + 1) if rng.random() < 0.3
                     else len(descr), 0)
    coords = []
    for v in verts:
        coords += [float(x) for x in v]
    if rng.random() < 0.5:
        # unused vertex slots need not be zero: nothing may depend on them
        coords += [rng.choice(COORDS) for _ in range(24 - len(coords))]
    else:
        coords += [0.0] * (24 - len(coords))
    return coords + [float(d) for d in descr]


GENERATORS = {
    'box': gen_box, 'rpp': gen_rpp, 'sph': gen_sph, 'rcc': gen_rcc,
    'rhp': gen_rhp, 'hex': gen_rhp, 'rec': gen_rec, 'trc': gen_trc,
    'ell': gen_ell, 'wed': gen_wed, 'arb': gen_arb,
}
BODIES = list(GENERATORS)


def gen_body(rng, mn=None):
    mn = mn or rng.choice(BODIES)
    return mn, GENERATORS[mn](rng)


# ---------------------------------------------------------------------------
# outside MCNP's admissibility guards / malformed
# ---------------------------------------------------------------------------

LENGTHS = {'box': [12], 'rpp': [6], 'sph': [4], 'rcc': [7], 'rhp': [9, 15],
           'hex': [9, 15], 'rec': [10, 12], 'trc': [8], 'ell': [7],
           'wed': [12], 'arb': [30]}


def gen_odd(rng, mn=None):
    '''Returns (mnemonic, params, fault). Faults: "skew" (edge vectors not
    orthogonal), "zero" (a zero vector / radius), "count" (wrong number of
    entries), "equal" (TRC radii equal), "coincide" (ELL foci coincide),
    ARB descriptor faults.'''
    mn = mn or rng.choice(BODIES)
    prm = GENERATORS[mn](rng)
    faults = ['count', 'zero', 'skew']
    if mn == 'trc':
        faults += ['equal', 'equal']
    if mn == 'ell':
        faults += ['coincide', 'zerolast', 'hyper']
    if mn == 'arb':
        faults = ['count', 'collinear', 'short', 'missing', 'nine', 'empty',
                  'onplane', 'gap', 'gap']
    if mn in ('rpp', 'sph'):
        faults = ['count', 'inverted']
    fault = rng.choice(faults)
    if fault == 'count':
        want = LENGTHS[mn]
        n = rng.choice([k for k in (len(prm) - 1, len(prm) + 1, len(prm) - 3,
                                    0, 1, 11, 13) if k not in want and k >= 0])
        prm = (prm + [1.0] * 40)[:n]
    elif fault == 'zero':
        if mn in ('box', 'wed', 'rhp', 'hex', 'rec', 'rcc', 'trc'):
            k = rng.choice([3, 6, 9]) if len(prm) >= 12 else \
                rng.choice([3, 6]) if len(prm) >= 9 else 3
            if k + 3 <= len(prm):
                prm[k:k + 3] = [0.0, 0.0, 0.0]
            if rng.random() < 0.3:
                prm[-1] = 0.0
        elif mn == 'ell':
            prm[3:6] = prm[0:3] if prm[6] > 0 else [0.0, 0.0, 0.0]
    elif fault == 'skew':
        if mn in ('box', 'wed', 'rhp', 'hex', 'rec'):
            for k in range(3, len(prm) - 2, 3):
                if rng.random() < 0.7 and k + 3 <= len(prm):
                    prm[k:k + 3] = list(any_vec(rng))
        elif mn in ('rcc', 'trc', 'ell'):
            prm[3:6] = list(any_vec(rng))
    elif fault == 'equal':
        prm[7] = prm[6]
    elif fault == 'coincide':
        prm = flat(prm[0:3], prm[0:3], abs(prm[6]) or 1.0)
    elif fault == 'zerolast':
        prm[6] = 0.0
    elif fault == 'hyper':
        # foci further apart than twice the "major semi-axis"
        prm = flat(prm[0:3], tuple(np.array(prm[0:3]) + 8 * np.array(
            [1.0, 0.5, 0.0])), 1.0)
    elif fault == 'inverted':
        if mn == 'rpp':
            prm[0], prm[1] = prm[1], prm[0]
        else:
            prm[3] = -prm[3]
    elif fault == 'collinear':
        prm[3:6] = prm[0:3]
        if rng.random() < 0.5:
            prm[3:6] = [prm[0] + 1e-6, prm[1], prm[2]]
    elif fault == 'short':
        k = rng.choice([i for i in range(24, 30) if prm[i]])
        prm[k] = float(int(prm[k]) % 100)
    elif fault == 'missing':
        # drop one facet: its vertices may become "unused"
        k = rng.choice([i for i in range(24, 30) if prm[i]])
        prm[k] = 0.0
    elif fault == 'nine':
        k = rng.choice([i for i in range(24, 30) if prm[i]])
        prm[k] = float(9000 + int(prm[k]) % 1000) if rng.random() < 0.5 \
            else float(int(prm[k]) % 1000 * 10 + 9)
    elif fault == 'gap':
        # a vertex number is skipped: the code keeps only the first n vertices
        used = sorted({ch for d in prm[24:30] if d for ch in str(int(d))
                       if ch != '0'})
        old = rng.choice(used)
        new = str(min(9, int(used[-1]) + rng.choice([1, 1, 2])))
        prm[24:30] = [float(str(int(d)).replace(old, new)) if d else 0.0
                      for d in prm[24:30]]
    elif fault == 'empty':
        prm[24:30] = [0.0] * 6
    elif fault == 'onplane':
        # centroid on a facet plane: flat "polyhedron"
        prm[9:12] = [(prm[0] + prm[3] + prm[6]) / 3,
                     (prm[1] + prm[4] + prm[7]) / 3,
                     (prm[2] + prm[5] + prm[8]) / 3]
    return mn, [float(x) for x in prm], fault


# ---------------------------------------------------------------------------
# reference semantics (sweep oracle)
# ---------------------------------------------------------------------------

def ref_facets(mn, prm):
    '''Facet sense functions (outward positive) in MCNP's numbering.
    mcnpref.macro_facets, except ELL with a positive last entry, which is
    specified as MCNP behaves according to the source comment in
    MacroBodies.ell: centre = midpoint of the two points, major semi-axis L
    along them, minor radius^2 = L^2 - (L - |f|)^2 with |f| half their
    distance (DESIGN §5.4; flagged in the trusted base).'''
    mn = mn.lower()
    if mn == 'ell' and prm[6] > 0:
        f1, f2 = np.array(prm[0:3], float), np.array(prm[3:6], float)
        big = float(prm[6])
        centre = (f1 + f2) / 2
        frel = f1 - centre
        flen = math.sqrt(float(frel @ frel))
        ua = frel / flen
        b2 = big ** 2 - (big - flen) ** 2

        def ellv(p):
            q = np.asarray(p, float) - centre
            t = float(q @ ua)
            perp = q - t * ua
            return (t / big) ** 2 + float(perp @ perp) / b2 - 1
        return [ellv]
    return mcnpref.macro_facets(mn, prm)


def trc_other_sheet(prm, p):
    '''True when p lies beyond the apex of the TRC's cone (on the sheet that
    does not carry the frustum).'''
    v = np.array(prm[0:3])
    h = np.array(prm[3:6])
    r0, r1 = prm[6], prm[7]
    t = float((np.asarray(p, float) - v) @ h) / float(h @ h)
    return r0 + (r1 - r0) * t <= 0


def body_centre_size(mn, prm):
    '''A point near the middle of the body and a length scale, for sampling.'''
    mn = mn.lower()
    p = np.array(prm, float)
    if mn == 'rpp':
        c = np.array([(p[0] + p[1]) / 2, (p[2] + p[3]) / 2, (p[4] + p[5]) / 2])
        size = max(abs(p[1] - p[0]), abs(p[3] - p[2]), abs(p[5] - p[4]))
    elif mn == 'sph':
        c, size = p[0:3], 2 * abs(p[3])
    elif mn == 'box':
        c = p[0:3] + (p[3:6] + p[6:9] + p[9:12]) / 2
        size = max(np.linalg.norm(p[3:6]), np.linalg.norm(p[6:9]),
                   np.linalg.norm(p[9:12]))
    elif mn == 'wed':
        c = p[0:3] + (p[3:6] + p[6:9]) / 4 + p[9:12] / 2
        size = max(np.linalg.norm(p[3:6]), np.linalg.norm(p[6:9]),
                   np.linalg.norm(p[9:12]))
    elif mn in ('rcc', 'trc', 'rec', 'rhp', 'hex'):
        c = p[0:3] + p[3:6] / 2
        rad = {'rcc': lambda: abs(p[6]), 'trc': lambda: max(abs(p[6]), abs(p[7])),
               'rec': lambda: np.linalg.norm(p[6:9]),
               'rhp': lambda: 1.5 * np.linalg.norm(p[6:9]),
               'hex': lambda: 1.5 * np.linalg.norm(p[6:9])}[mn]()
        size = max(np.linalg.norm(p[3:6]), 2 * rad)
    elif mn == 'ell':
        if p[6] > 0:
            c, size = (p[0:3] + p[3:6]) / 2, 2 * p[6]
        else:
            c = p[0:3]
            size = 2 * max(np.linalg.norm(p[3:6]), abs(p[6]))
    elif mn == 'arb':
        verts = [p[3 * i:3 * i + 3] for i in range(8)]
        used = sorted({int(ch) for d in p[24:30] if d
                       for ch in str(int(d)) if ch not in '09'})
        pts = [verts[i - 1] for i in used] or verts[:1]
        c = sum(pts) / len(pts)
        size = max([np.linalg.norm(q - c) for q in pts] + [0.5]) * 2
    else:
        raise ValueError(mn)
    return np.array(c, float), float(max(size, 0.25))


def sample_points(rng, mn, prm, facets, n_random, n_near):
    '''Random points around the body plus, for every facet, points just
    inside and just outside it (found by bisection of the facet's sense
    function along random segments).'''
    centre, size = body_centre_size(mn, prm)
    pts = []
    for _ in range(n_random):
        mode = rng.random()
        if mode < 0.5:
            pts.append(centre + np.array([rng.gauss(0, 0.6 * size)
                                          for _ in range(3)]))
        elif mode < 0.8:
            pts.append(centre + np.array([rng.uniform(-1.5 * size, 1.5 * size)
                                          for _ in range(3)]))
        else:
            pts.append(centre + np.array([rng.uniform(-0.5 * size, 0.5 * size)
                                          for _ in range(3)]))
    near = []
    for fun in facets:
        found = 0
        for _ in range(n_near * 6):
            if found >= n_near:
                break
            a = centre + np.array([rng.uniform(-0.45 * size, 0.45 * size)
                                   for _ in range(3)])
            b = centre + np.array([rng.uniform(-2 * size, 2 * size)
                                   for _ in range(3)])
            fa, fb = fun(a), fun(b)
            if fa == 0 or fb == 0 or (fa > 0) == (fb > 0):
                continue
            for _ in range(50):
                mid = (a + b) / 2
                fm = fun(mid)
                if (fm > 0) == (fa > 0):
                    a, fa = mid, fm
                else:
                    b, fb = mid, fm
            direction = (b - a)
            norm = np.linalg.norm(direction)
            # a, b straddle the facet within ~1e-15; step off along the segment
            mid = (a + b) / 2
            step = rng.choice([1e-3, 1e-4, 1e-2]) * size
            seg = np.array([rng.gauss(0, 1) for _ in range(3)])
            seg = seg / np.linalg.norm(seg)
            near.append(mid + step * seg)
            near.append(mid - step * seg)
            found += 1
            del direction, norm
    return [list(map(float, p)) for p in pts + near]
