'''C18 — observation hooks and Coq rendering for the model tie.

The model (coq/C18/Model.v) covers one conversion from
CollectionDict.number_items to the SURF/VOLU lines of the file.  Its inputs are
observed on the running implementation by wrapping (not editing) four
callables for the duration of one conversion:

  CollectionDict.number_items      -> keys and sides of the surface collections
  CellConversion.pot_convert       -> (cell key, geometry) of every top-level
                                      call, new_cell_key at the first one
  WriteT4Geometry.remove_duplicate_surfaces -> the renumbering
  main.convertMCNPGeometry         -> skipped cells

and the expected output is read back from the written file.'''
import contextlib

from common import cz, clist, cpair, copt, cbool


class Unsupported(Exception):
    pass


def gtree_of(geom):
    from MIP.geom.semantics import Surface
    from t4_geom_convert.Kernel.Volume.CellMCNP import CellRef
    if isinstance(geom, Surface):
        return ('s', geom.surface, geom.sub)
    if isinstance(geom, CellRef):
        return ('c', int(geom.cell))
    if isinstance(geom, (list, tuple)):
        if not geom or geom[0] not in ('*', ':'):
            raise Unsupported(f'operator {geom[:1]!r}')
        return (geom[0],) + tuple(gtree_of(arg) for arg in geom[1:])
    raise Unsupported(f'leaf {type(geom).__name__}')


def gtree_cells(tree, out):
    if tree[0] == 'c':
        out.add(tree[1])
    elif tree[0] in ('*', ':'):
        for sub in tree[1:]:
            gtree_cells(sub, out)


def gtree_size(tree):
    if tree[0] in ('*', ':'):
        return 1 + sum(gtree_size(sub) for sub in tree[1:])
    return 1


def coq_gtree(tree):
    if tree[0] == 's':
        return f'GSurf {cz(tree[1])} {copt(tree[2], cz)}'
    if tree[0] == 'c':
        return f'GCell {cz(tree[1])}'
    op = 'OInter' if tree[0] == '*' else 'OUnion'
    return f'GNode {op} ' + clist('(' + coq_gtree(sub) + ')'
                                  for sub in tree[1:])


class Capture:
    def __init__(self):
        self.items = None
        self.key0 = None
        self.conv = []
        self.cells = {}
        self.skipped = None
        self.renumber = None
        self.unsupported = None
        self.depth = 0
        self.n_number_items = 0


@contextlib.contextmanager
def hooks(cap):
    from t4_geom_convert.Kernel.Surface.CollectionDict import CollectionDict
    from t4_geom_convert.Kernel.Volume.CellConversion import CellConversion
    from t4_geom_convert.Kernel.FileHandlers.Writer import WriteT4Geometry
    from t4_geom_convert import main as t4main
    orig_number = CollectionDict.number_items
    orig_convert = CellConversion.pot_convert
    orig_dedup = WriteT4Geometry.remove_duplicate_surfaces
    orig_geom = t4main.convertMCNPGeometry

    def number_items(self):
        cap.n_number_items += 1
        cap.items = [(int(key), [int(side) for _, side in value])
                     for key, value in self.dic.items()]
        return orig_number(self)

    def pot_convert(self, cell, matching, union_ids):
        if cap.depth == 0:
            if cap.key0 is None:
                cap.key0 = int(self.new_cell_key)
                cap.conv_obj = self
            key = None
            for k, v in self.dic_cell_mcnp.items():
                if v is cell:
                    key = k
                    break
            try:
                if key is None:
                    raise Unsupported('cell object not in the dictionary')
                cap.conv.append((int(key), gtree_of(cell.geometry)))
            except Unsupported as exc:
                cap.unsupported = str(exc)
        cap.depth += 1
        try:
            return orig_convert(self, cell, matching, union_ids)
        finally:
            cap.depth -= 1

    def dedup(surfs):
        new_surfs, renumbering = orig_dedup(surfs)
        cap.renumber = [(int(a), int(b)) for a, b in renumbering.items()]
        return new_surfs, renumbering

    def convert_geometry(mcnp_parser, lattice_params, args):
        result = orig_geom(mcnp_parser, lattice_params, args)
        cap.skipped = [int(k) for k in result[4]]
        return result

    CollectionDict.number_items = number_items
    CellConversion.pot_convert = pot_convert
    WriteT4Geometry.remove_duplicate_surfaces = dedup
    t4main.convertMCNPGeometry = convert_geometry
    try:
        yield cap
    finally:
        CollectionDict.number_items = orig_number
        CellConversion.pot_convert = orig_convert
        WriteT4Geometry.remove_duplicate_surfaces = orig_dedup
        t4main.convertMCNPGeometry = orig_geom
        # geometry of the cells reachable through CellRef (snapshot)
        conv = getattr(cap, 'conv_obj', None)
        if conv is not None and cap.unsupported is None:
            todo = set()
            for _, tree in cap.conv:
                gtree_cells(tree, todo)
            seen = set()
            try:
                while todo:
                    c = todo.pop()
                    if c in seen:
                        continue
                    seen.add(c)
                    if c not in conv.dic_cell_mcnp:
                        continue
                    tree = gtree_of(conv.dic_cell_mcnp[c].geometry)
                    cap.cells[int(c)] = tree
                    gtree_cells(tree, todo)
            except Unsupported as exc:
                cap.unsupported = str(exc)
        cap.conv_obj = None


def parse_written(text):
    '''SURF ids in order and VOLU lines of a written file:
    (id, plus, minus, ops, fictive) with ops = None | (op, [ids or None]).'''
    surfs, volumes = [], []
    for line in text.split('\n'):
        code = line.split('//')[0].split()
        if not code:
            continue
        if code[0] == 'SURF':
            surfs.append(int(code[1]))
        elif code[0] == 'VOLU':
            vid = int(code[1])
            if code[2] != 'EQUA' or code[-1] != 'ENDV':
                raise ValueError(f'unexpected VOLU line {line!r}')
            toks = code[3:-1]
            plus, minus, ops, fict = [], [], None, False
            i = 0
            while i < len(toks):
                tok = toks[i]
                if tok in ('PLUS', 'MINUS', 'INTE', 'UNION'):
                    n = int(toks[i + 1])
                    vals = toks[i + 2:i + 2 + n]
                    if len(vals) != n:
                        raise ValueError(f'short list in {line!r}')
                    if tok == 'PLUS':
                        plus = [int(v) for v in vals]
                    elif tok == 'MINUS':
                        minus = [int(v) for v in vals]
                    else:
                        ops = (tok, [None if v == 'None' else int(v)
                                     for v in vals])
                    i += 2 + n
                elif tok == 'FICTIVE':
                    fict = True
                    i += 1
                else:
                    raise ValueError(f'unexpected token {tok!r} in {line!r}')
            volumes.append((vid, plus, minus, ops, fict))
    return surfs, volumes


def coq_input(cap):
    items = clist(cpair(cz(k), clist(cz(s) for s in sides))
                  for k, sides in cap.items)
    conv = clist(cpair(cz(k), coq_gtree(t)) for k, t in cap.conv)
    cells = clist(cpair(cz(k), coq_gtree(t))
                  for k, t in sorted(cap.cells.items()))
    skipped = clist(cz(k) for k in (cap.skipped or []))
    ren = 'None' if cap.renumber is None else \
        '(Some ' + clist(cpair(cz(a), cz(b)) for a, b in cap.renumber) + ')'
    return (f'(mkIn {items} {cz(cap.key0)} {conv} {cells} {skipped} {ren})')


def coq_ops(ops):
    if ops is None:
        return 'None'
    op = 'OInter' if ops[0] == 'INTE' else 'OUnion'
    return f'(Some ({op}, {clist(copt(v, cz) for v in ops[1])}))'


def coq_output(surfs, volumes):
    lines = clist(cpair(cz(v[0]), clist(cz(x) for x in v[1]),
                        clist(cz(x) for x in v[2]), coq_ops(v[3]),
                        cbool(v[4])) for v in volumes)
    return f'(mkOut {clist(cz(s) for s in surfs)} {lines})'
