'''C18 — observation hooks and Coq rendering for the model tie.

The model (coq/C18/Model.v) covers one conversion from
CollectionDict.number_items to the SURF/VOLU lines of the file.  Its inputs are
observed on the running implementation by wrapping (not editing) four
callables for the duration of one conversion:

  CollectionDict.number_items      -> keys and sides of the surface collections
  CellConversion.pot_convert       -> (cell key, geometry) of every top-level
                                      call, new_cell_key at the first one
  WriteT4Geometry.remove_duplicate_surfaces -> the renumbering
  main.convertMCNPGeometry         -> skipped cells

and the expected output is read back from the written file.'''
import contextlib

from common import cz, clist, cpair, copt, cbool


class Unsupported(Exception):
    pass


def gtree_of(geom):
    from MIP.geom.semantics import Surface
    from t4_geom_convert.Kernel.Volume.CellMCNP import CellRef
    if isinstance(geom, Surface):
        return ('s', geom.surface, geom.sub)
    if isinstance(geom, CellRef):
        return ('c', int(geom.cell))
    if isinstance(geom, (list, tuple)):
        if geom and geom[0] == '^' and len(geom) == 2:
            try:
                return ('^', int(geom[1]))
            except (TypeError, ValueError):
                raise Unsupported('complement operand') from None
        if not geom or geom[0] not in ('*', ':'):
            raise Unsupported(f'operator {geom[:1]!r}')
        return (geom[0],) + tuple(gtree_of(arg) for arg in geom[1:])
    raise Unsupported(f'leaf {type(geom).__name__}')


def gtree_cells(tree, out):
    if tree[0] == 'c':
        out.add(tree[1])
    elif tree[0] in ('*', ':'):
        for sub in tree[1:]:
            gtree_cells(sub, out)


def gtree_size(tree):
    if tree[0] in ('*', ':'):
        return 1 + sum(gtree_size(sub) for sub in tree[1:])
    return 1


def coq_gtree(tree):
    if tree[0] == 's':
        return f'GSurf {cz(tree[1])} {copt(tree[2], cz)}'
    if tree[0] == 'c':
        return f'GCell {cz(tree[1])}'
    if tree[0] == '^':
        return f'GCompl {cz(tree[1])}'
    op = 'OInter' if tree[0] == '*' else 'OUnion'
    return f'GNode {op} ' + clist('(' + coq_gtree(sub) + ')'
                                  for sub in tree[1:])


class Capture:
    def __init__(self):
        self.items = None
        self.key0 = None
        self.conv = []
        self.cells = {}
        self.skipped = None
        self.renumber = None
        self.unsupported = None
        self.depth = 0
        self.n_number_items = 0
        # upstream phases (TRCL / lattice / FILL)
        self.up = None          # dict once CellConversion exists
        self.up_unsupported = None
        self.ct_depth = 0
        self.in_trcl = False
        self.tids = {}
        self.conv_live = None
        self.cells_dict = None  # the cell dictionary handed to CellConversion
        self.surf_t4 = None     # the TRIPOLI-4 surface dictionary handed to it
        self.last_key = None    # largest cell key allocated so far
        self.tr_ids = None      # the set returned by extract_tr_surf_ids

    def tr_order(self):
        '''Order in which the 1000*cell+surf ids were inserted into
        dic_surface_t4 (= iteration order of the int set), or None.'''
        if self.tr_ids is None or self.up is None:
            return None
        wanted = set(self.tr_ids)
        keys = [k for k, _ in self.up['items0']]
        return [k for k in keys if k in wanted]

    def tid(self, transform):
        if not transform:
            return 0
        key = tuple(transform)
        if key not in self.tids:
            self.tids[key] = len(self.tids) + 1
        return self.tids[key]

    def closure(self, conv, key):
        '''Observed geometry of `key` and of every cell reachable from it
        through CellRefs.'''
        out, todo = {}, {key}
        while todo:
            k = todo.pop()
            if k in out or k not in self.cells_dict:
                continue
            tree = gtree_of(self.cells_dict[k].geometry)
            out[int(k)] = tree
            gtree_cells(tree, todo)
        return out


@contextlib.contextmanager
def hooks(cap):
    from t4_geom_convert.Kernel.Surface.CollectionDict import CollectionDict
    from t4_geom_convert.Kernel.Volume.CellConversion import CellConversion
    from t4_geom_convert.Kernel.FileHandlers.Writer import WriteT4Geometry
    from t4_geom_convert import main as t4main
    from t4_geom_convert.Kernel.FileHandlers.Parser.ParseMCNPCell import \
        ParseMCNPCell
    from collections import OrderedDict
    orig_number = CollectionDict.number_items
    orig_convert = CellConversion.pot_convert
    orig_init = CellConversion.__init__
    orig_trcl = CellConversion.apply_trcl
    orig_ct = CellConversion.cell_transform
    orig_setitem = CollectionDict.__setitem__
    orig_parse = ParseMCNPCell.parse
    from t4_geom_convert.Kernel.Volume import ConstructVolumeT4 as cvt4
    orig_extract = cvt4.extract_tr_surf_ids

    def extract_tr_surf_ids(mcnp_dict):
        result = orig_extract(mcnp_dict)
        cap.tr_ids = sorted(int(k) for k in result)
        return result

    class LoggingDict(OrderedDict):
        '''The cell dictionary; reports the insertion of NEW keys made
        outside the modelled functions (pot_fill's new cells).'''

        def __setitem__(self, key, value):
            if cap.up is not None and not cap.up.get('closed') \
                    and key not in self:
                # every fresh cell key is stored here right after it is
                # allocated: the counter is observed through this public
                # dictionary, not through CellConversion's attributes
                try:
                    cap.last_key = max(cap.last_key, int(key))
                except (TypeError, ValueError):
                    cap.up_unsupported = 'non-integer cell key'
                if cap.ct_depth == 0 and not cap.in_trcl:
                    cap.up['ops'].append(('fill', int(key)))
            OrderedDict.__setitem__(self, key, value)

    def parse(self):
        dict_cell, skipped = orig_parse(self)
        # (with --cache the dictionary is pickled: leave it alone)
        if type(dict_cell) is OrderedDict and self.cell_cache_path is None:
            logged = LoggingDict()
            for k, v in dict_cell.items():
                OrderedDict.__setitem__(logged, k, v)
            dict_cell = logged
        return dict_cell, skipped

    def init(self, *args, **kwargs):
        orig_init(self, *args, **kwargs)
        # the constructor's arguments (public): first free cell key, first
        # free surface key, volume dict, T4 surface dict, MCNP surface dict,
        # cell dict
        if len(args) + len(kwargs) != 6 or kwargs:
            cap.unsupported = 'CellConversion constructor called otherwise'
            return
        int_cell, int_surf, _d_vol, d_surf_t4, _d_surf_mcnp, d_cells = args
        if cap.conv_live is None:
            cap.conv_live = self
            cap.cells_dict = d_cells
            cap.surf_t4 = d_surf_t4
            try:
                cap.last_key = int(int_cell)
            except (TypeError, ValueError):
                cap.unsupported = 'non-integer first free key'
                return
        if cap.up is None and isinstance(d_cells, LoggingDict):
            cap.up = {'cell_keys': [int(k) for k in d_cells],
                      'items0': [(int(key), [int(side) for _, side in value])
                                 for key, value in d_surf_t4.items()],
                      'free': (int(int_cell), int(int_surf)),
                      'shapes': [], 'ops': []}

    def setitem(self, key, value):
        conv = cap.conv_live
        if conv is not None and cap.up is not None \
                and not cap.up.get('closed') and self is cap.surf_t4:
            try:
                cap.up['shapes'].append([int(side) for _, side in value])
            except Exception:      # pylint: disable=broad-except
                cap.up_unsupported = 'shape of a transformed surface'
        return orig_setitem(self, key, value)

    def apply_trcl(self, trcls, geometry):
        live = cap.up is not None and self is cap.conv_live \
            and not cap.up.get('closed') and cap.ct_depth == 0
        key = None
        if live:
            for k, v in cap.cells_dict.items():
                if v.geometry is geometry:
                    key = k
                    break
            try:
                if key is None:
                    raise Unsupported('apply_trcl on an unknown geometry')
                geoms = cap.closure(self, key)
                tids = [cap.tid(t) for t in (trcls or [])]
            except Unsupported as exc:
                cap.up_unsupported = str(exc)
                live = False
        cap.in_trcl = True
        try:
            result = orig_trcl(self, trcls, geometry)
        finally:
            cap.in_trcl = False
        if live:
            try:
                cap.up['ops'].append(('trcl', int(key), tids, geoms,
                                      gtree_of(result)))
            except Unsupported as exc:
                cap.up_unsupported = str(exc)
        return result

    def cell_transform(self, cell_key, transform, cache=True):
        top = cap.up is not None and self is cap.conv_live \
            and not cap.up.get('closed') and cap.ct_depth == 0 \
            and not cap.in_trcl
        geoms = None
        if top:
            try:
                geoms = cap.closure(self, cell_key)
                tid = cap.tid(transform)
            except Unsupported as exc:
                cap.up_unsupported = str(exc)
                top = False
        cap.ct_depth += 1
        try:
            result = orig_ct(self, cell_key, transform, cache)
        finally:
            cap.ct_depth -= 1
        if top:
            cap.up['ops'].append(('ct', int(cell_key), tid, bool(cache),
                                  geoms, int(result)))
        return result

    orig_dedup = WriteT4Geometry.remove_duplicate_surfaces
    orig_geom = t4main.convertMCNPGeometry

    def number_items(self):
        cap.n_number_items += 1
        if cap.up is not None:
            cap.up['closed'] = True
        cap.items = [(int(key), [int(side) for _, side in value])
                     for key, value in self.items()]
        return orig_number(self)

    def pot_convert(self, cell, *args, **kwargs):
        if cap.depth == 0 and cap.cells_dict is not None:
            if cap.key0 is None:
                # the counter when the cell loop starts = the last key
                # allocated (every allocation is followed by an insertion into
                # the cell dictionary), observable only with the logging dict
                if isinstance(cap.cells_dict, LoggingDict) \
                        and cap.last_key is not None:
                    cap.key0 = cap.last_key
                else:
                    cap.unsupported = 'cell counter not observable'
                cap.conv_obj = self
            key = None
            for k, v in cap.cells_dict.items():
                if v is cell:
                    key = k
                    break
            try:
                if key is None:
                    raise Unsupported('cell object not in the dictionary')
                cap.conv.append((int(key), gtree_of(cell.geometry)))
            except Unsupported as exc:
                cap.unsupported = str(exc)
        cap.depth += 1
        try:
            return orig_convert(self, cell, *args, **kwargs)
        finally:
            cap.depth -= 1

    def dedup(surfs):
        new_surfs, renumbering = orig_dedup(surfs)
        cap.renumber = [(int(a), int(b)) for a, b in renumbering.items()]
        return new_surfs, renumbering

    def convert_geometry(mcnp_parser, lattice_params, args):
        result = orig_geom(mcnp_parser, lattice_params, args)
        cap.skipped = [int(k) for k in result[4]]
        return result

    CollectionDict.number_items = number_items
    CollectionDict.__setitem__ = setitem
    CellConversion.__init__ = init
    CellConversion.apply_trcl = apply_trcl
    CellConversion.cell_transform = cell_transform
    ParseMCNPCell.parse = parse
    cvt4.extract_tr_surf_ids = extract_tr_surf_ids
    CellConversion.pot_convert = pot_convert
    WriteT4Geometry.remove_duplicate_surfaces = dedup
    t4main.convertMCNPGeometry = convert_geometry
    try:
        yield cap
    finally:
        CollectionDict.number_items = orig_number
        CollectionDict.__setitem__ = orig_setitem
        CellConversion.__init__ = orig_init
        CellConversion.apply_trcl = orig_trcl
        CellConversion.cell_transform = orig_ct
        ParseMCNPCell.parse = orig_parse
        cvt4.extract_tr_surf_ids = orig_extract
        cap.conv_live = None
        CellConversion.pot_convert = orig_convert
        WriteT4Geometry.remove_duplicate_surfaces = orig_dedup
        t4main.convertMCNPGeometry = orig_geom
        # geometry of the cells reachable through CellRef (snapshot)
        conv = getattr(cap, 'conv_obj', None)
        if conv is not None and cap.unsupported is None:
            todo = set()
            for _, tree in cap.conv:
                gtree_cells(tree, todo)
            seen = set()
            try:
                while todo:
                    c = todo.pop()
                    if c in seen:
                        continue
                    seen.add(c)
                    if c not in cap.cells_dict:
                        continue
                    tree = gtree_of(cap.cells_dict[c].geometry)
                    cap.cells[int(c)] = tree
                    gtree_cells(tree, todo)
            except Unsupported as exc:
                cap.unsupported = str(exc)
        cap.conv_obj = None


def parse_written(text):
    '''SURF ids in order and VOLU lines of a written file:
    (id, plus, minus, ops, fictive) with ops = None | (op, [ids or None]).'''
    surfs, volumes = [], []
    for line in text.split('\n'):
        code = line.split('//')[0].split()
        if not code:
            continue
        if code[0] == 'SURF':
            surfs.append(int(code[1]))
        elif code[0] == 'VOLU':
            vid = int(code[1])
            if code[2] != 'EQUA' or code[-1] != 'ENDV':
                raise ValueError(f'unexpected VOLU line {line!r}')
            toks = code[3:-1]
            plus, minus, ops, fict = [], [], None, False
            i = 0
            while i < len(toks):
                tok = toks[i]
                if tok in ('PLUS', 'MINUS', 'INTE', 'UNION'):
                    n = int(toks[i + 1])
                    vals = toks[i + 2:i + 2 + n]
                    if len(vals) != n:
                        raise ValueError(f'short list in {line!r}')
                    if tok == 'PLUS':
                        plus = [int(v) for v in vals]
                    elif tok == 'MINUS':
                        minus = [int(v) for v in vals]
                    else:
                        ops = (tok, [None if v == 'None' else int(v)
                                     for v in vals])
                    i += 2 + n
                elif tok == 'FICTIVE':
                    fict = True
                    i += 1
                else:
                    raise ValueError(f'unexpected token {tok!r} in {line!r}')
            volumes.append((vid, plus, minus, ops, fict))
    return surfs, volumes


def coq_input(cap):
    items = clist(cpair(cz(k), clist(cz(s) for s in sides))
                  for k, sides in cap.items)
    conv = clist(cpair(cz(k), coq_gtree(t)) for k, t in cap.conv)
    cells = clist(cpair(cz(k), coq_gtree(t))
                  for k, t in sorted(cap.cells.items()))
    skipped = clist(cz(k) for k in (cap.skipped or []))
    ren = 'None' if cap.renumber is None else \
        '(Some ' + clist(cpair(cz(a), cz(b)) for a, b in cap.renumber) + ')'
    return (f'(mkIn {items} {cz(cap.key0)} {conv} {cells} {skipped} {ren})')


def coq_ops(ops):
    if ops is None:
        return 'None'
    op = 'OInter' if ops[0] == 'INTE' else 'OUnion'
    return f'(Some ({op}, {clist(copt(v, cz) for v in ops[1])}))'


def coq_output(surfs, volumes):
    lines = clist(cpair(cz(v[0]), clist(cz(x) for x in v[1]),
                        clist(cz(x) for x in v[2]), coq_ops(v[3]),
                        cbool(v[4])) for v in volumes)
    return f'(mkOut {clist(cz(s) for s in surfs)} {lines})'


def coq_geoms(geoms):
    return clist(cpair(cz(k), coq_gtree(t)) for k, t in sorted(geoms.items()))


def coq_uop(op):
    if op[0] == 'fill':
        return f'UFill {cz(op[1])}'
    if op[0] == 'trcl':
        _, key, tids, geoms, result = op
        return (f'UTrcl {cz(key)} {clist(cz(t) for t in tids)} '
                f'{coq_geoms(geoms)} ({coq_gtree(result)})')
    _, key, tid, cache, geoms, result = op
    return (f'UCT {cz(key)} {cz(tid)} {cbool(cache)} {coq_geoms(geoms)} '
            f'{cz(result)}')


def upstream_size(up):
    size = len(up['items0']) + len(up['shapes'])
    for op in up['ops']:
        if op[0] == 'trcl':
            size += sum(gtree_size(t) for t in op[3].values()) \
                + gtree_size(op[4])
        elif op[0] == 'ct':
            size += sum(gtree_size(t) for t in op[4].values())
    return size


def coq_uinput(up):
    keys = clist(cz(k) for k in up['cell_keys'])
    items = clist(cpair(cz(k), clist(cz(s) for s in sides))
                  for k, sides in up['items0'])
    shapes = clist(clist(cz(s) for s in shape) for shape in up['shapes'])
    ops = clist('(' + coq_uop(op) + ')' for op in up['ops'])
    return f'(mkUIn {keys} {items} {shapes} {ops})'
