'''C15 — generator of LIKE n BUT decks (abstract decks in deck.py's format),
their rendering with spelling variants, and their explicit expansion.

The expansion is done here on the abstract deck (copy the resolved base
cell, override the listed parameters) and never looks at the converter.'''
import copy
import math

import deck as deckmod

MATERIALS = {1: ['1001', '2', '8016', '1'], 2: ['26056', '1'],
             3: ['13027', '1'], 4: ['82208', '1'], 5: ['6012', '1']}
RHOS = ['-1.0', '-2.7', '0.05', '-7.8', '-1.205-3', '1.0E-2', '-11.35', '0.1',
        '-2.50', '6.02e-2']
SLOTS = [(4.0 * (k % 5) - 8.0, 4.0 * (k // 5) - 8.0, 0.0) for k in range(25)]
ORIGIN_SLOT = 12


# ---------------------------------------------------------------------------
# bodies: (surfaces, expression) centred on a point
# ---------------------------------------------------------------------------

def body(kind, sid0, c):
    x, y, z = c
    if kind == 'sph':
        if c == (0.0, 0.0, 0.0):
            surfs = [{'id': sid0, 'mn': 'so', 'params': [1.0]}]
        else:
            surfs = [{'id': sid0, 'mn': 's', 'params': [x, y, z, 1.0]}]
        expr = ('s', -sid0)
    elif kind == 'cont':
        if c == (0.0, 0.0, 0.0):
            surfs = [{'id': sid0, 'mn': 'so', 'params': [1.4]}]
        else:
            surfs = [{'id': sid0, 'mn': 's', 'params': [x, y, z, 1.4]}]
        expr = ('s', -sid0)
    elif kind == 'box':
        h = 0.75
        surfs = [{'id': sid0, 'mn': 'px', 'params': [x - h]},
                 {'id': sid0 + 1, 'mn': 'px', 'params': [x + h]},
                 {'id': sid0 + 2, 'mn': 'py', 'params': [y - h]},
                 {'id': sid0 + 3, 'mn': 'py', 'params': [y + h]},
                 {'id': sid0 + 4, 'mn': 'pz', 'params': [z - h]},
                 {'id': sid0 + 5, 'mn': 'pz', 'params': [z + h]}]
        expr = ('*', ('s', sid0), ('s', -(sid0 + 1)), ('s', sid0 + 2),
                ('s', -(sid0 + 3)), ('s', sid0 + 4), ('s', -(sid0 + 5)))
    elif kind == 'cyl':
        surfs = [{'id': sid0, 'mn': 'c/z', 'params': [x, y, 0.9]},
                 {'id': sid0 + 1, 'mn': 'pz', 'params': [z - 1.0]},
                 {'id': sid0 + 2, 'mn': 'pz', 'params': [z + 1.0]}]
        expr = ('*', ('s', -sid0), ('s', sid0 + 1), ('s', -(sid0 + 2)))
    else:
        raise ValueError(kind)
    for s in surfs:
        s['params'] = [float(v) for v in s['params']]
        s['tr'] = None
        s['bc'] = ''
    return surfs, expr


def apply_rot(mat, v):
    return tuple(sum(mat[i][k] * v[k] for k in range(3)) for i in range(3))


def placement(rng, centre, target, trs):
    '''A transformation T (deck.py form) moving a body centred on `centre`
    to `target`: p_main = O + R p_aux.'''
    mode = rng.random()
    if mode < 0.45:
        mat = None
    else:
        mat = deckmod.rotation(rng.randrange(3),
                               rng.choice([30, 45, 60, 90, 120, 180, 270]))
    rc = centre if mat is None else apply_rot(mat, centre)
    origin = tuple(round(t - r, 9) for t, r in zip(target, rc))
    tr = deckmod.make_tr(origin, mat, star=(mat is not None
                                            and rng.random() < 0.4))
    if rng.random() < 0.25:
        num = max(trs, default=0) + 1
        trs[num] = tr
        return ('num', num)
    return tr


# ---------------------------------------------------------------------------
# abstract deck
# ---------------------------------------------------------------------------

def gen_deck(rng, n_like=None, imp_decrease=False, allow_void_mat=False):
    '''Abstract deck with explicit base cells and LIKE cells (single and
    chained).  Returns the deck; LIKE cells carry 'like' and 'but'.'''
    cells, surfaces, trs = [], [], {}
    ids = rng.sample(range(1, 400), 40)
    slots = list(range(25))
    slots.remove(ORIGIN_SLOT)
    rng.shuffle(slots)
    imp_mode = 'card' if imp_decrease else rng.choice(['card', 'card', 'data'])
    info = {}                 # cell id -> {'root_centre', 'kind'}
    level0 = []

    def new_id():
        return ids.pop()

    def imp_of(val=1):
        if imp_mode != 'card':
            return None
        if val and rng.random() < 0.25:
            return {'n': val, 'p': rng.choice([0, 1, 2, val, val])}
        return {'n': val}

    # filler universes
    n_univ = rng.choice([0, 1, 2, 2])
    universes = []
    fill_sid = 50
    for k in range(n_univ):
        univ = k + 1
        if k == 0 or rng.random() < 0.4:
            off = (0.4, 0.2, 0.1) if k == 0 else (-0.3, 0.3, 0.2)
            surfaces.append({'id': fill_sid, 'mn': 's',
                             'params': [off[0], off[1], off[2], 0.5],
                             'tr': None, 'bc': ''})
            c_in = {'id': new_id(), 'mat': rng.choice([1, 2, 3]),
                    'rho': rng.choice(RHOS), 'expr': ('s', -fill_sid),
                    'imp': imp_of(), 'u': univ}
            c_out = {'id': new_id(), 'mat': rng.choice([0, 4]),
                     'rho': rng.choice(RHOS), 'expr': ('s', fill_sid),
                     'imp': imp_of(), 'u': univ}
            if c_out['mat'] == 0:
                c_out['rho'] = None
            cells += [c_in, c_out]
            universes.append((univ, c_in['id'], c_out['id']))
            fill_sid += 1
        else:
            # a universe made of LIKE copies of the first one
            _, b_in, b_out = universes[0]
            but_in = {'u': univ, 'mat': rng.choice([2, 3, 5])}
            if rng.random() < 0.5:
                but_in['rho'] = rng.choice(RHOS)
            c_in = {'id': new_id(), 'like': b_in, 'but': but_in}
            c_out = {'id': new_id(), 'like': b_out, 'but': {'u': univ}}
            cells += [c_in, c_out]
            universes.append((univ, c_in['id'], c_out['id']))

    # a lattice universe and a LIKE copy of it with another array
    fill_choices = [u[0] for u in universes]
    has_lattice = False
    if universes and rng.random() < 0.3:
        has_lattice = True
        surfaces.append({'id': 61, 'mn': 'px', 'params': [-0.5], 'tr': None,
                         'bc': ''})
        surfaces.append({'id': 62, 'mn': 'px', 'params': [0.5], 'tr': None,
                         'bc': ''})
        fillers = [u[0] for u in universes]

        def lat_fill():
            lo = rng.choice([0, 0, -1])
            n = 1 - lo + 1
            return {'ranges': [(lo, 1), (0, 0), (0, 0)],
                    'array': [rng.choice(fillers) for _ in range(n)]
                    if rng.random() < 0.7 else [rng.choice(fillers)] * n,
                    'tr': None}
        lat = {'id': new_id(), 'mat': 0, 'rho': None,
               'expr': ('*', ('s', 61), ('s', -62)), 'lat': 1, 'u': 5,
               'fill': lat_fill(), 'imp': imp_of()}
        cells.append(lat)
        fill_choices.append(5)
        if rng.random() < 0.7:
            but = {'u': 6, 'fill': lat_fill()}
            if rng.random() < 0.3:
                but = {'fill': but['fill'], 'u': 6}
            cells.append({'id': new_id(), 'like': lat['id'], 'but': but})
            fill_choices.append(6)

    # explicit level-0 bases
    n_base = rng.choice([1, 2, 2, 3])
    sid = 1
    kinds = ['sph', 'box', 'cyl'] + (['cont', 'cont'] if universes else [])
    for k in range(n_base):
        kind = rng.choice(kinds)
        slot = ORIGIN_SLOT if kind == 'cont' and ORIGIN_SLOT not in \
            [i.get('slot') for i in info.values()] else slots.pop()
        centre = SLOTS[slot]
        if kind == 'cont' and slot != ORIGIN_SLOT:
            kind = rng.choice(['sph', 'box', 'cyl'])
        surfs, expr = body(kind, sid, centre)
        sid += 10
        surfaces += surfs
        cell = {'id': new_id(), 'expr': expr, 'imp': imp_of(
            rng.choice([1, 1, 2]) if imp_mode == 'card' else 1), 'u': 0}
        if kind == 'cont':
            cell['mat'], cell['rho'] = 0, None
            fill = {'u': rng.choice(fill_choices), 'tr': None}
            if rng.random() < 0.4:
                fill['tr'] = deckmod.make_tr(
                    [rng.choice([0, 0.1, -0.2]) for _ in range(3)],
                    deckmod.rotation(rng.randrange(3), rng.choice([30, 90]))
                    if rng.random() < 0.5 else None,
                    star=rng.random() < 0.5)
                if fill['tr']['B'] is None:
                    fill['tr']['star'] = False
            cell['fill'] = fill
        else:
            cell['mat'] = rng.choice([1, 2, 3, 0]) if rng.random() < 0.9 else 0
            cell['rho'] = rng.choice(RHOS) if cell['mat'] else None
            if rng.random() < 0.15:
                # a base that already carries a TRCL (moved to another slot)
                target = SLOTS[slots.pop()]
                cell['trcl'] = placement(rng, centre, target, trs)
        cells.append(cell)
        level0.append(cell['id'])
        info[cell['id']] = {'centre': centre, 'kind': kind, 'slot': slot}

    by_id = {c['id']: c for c in cells}

    def resolved(cid):
        return resolve(by_id, cid)

    # LIKE cells at level 0
    if n_like is None:
        n_like = rng.choice([1, 1, 2, 3, 4, 6])
    for _ in range(n_like):
        if not slots:
            break
        # one time in four the latest cell: longer chains
        base = level0[-1] if rng.random() < 0.25 else rng.choice(level0)
        rbase = resolved(base)
        root = info[base]
        but = {}
        keys = []
        if rng.random() < 0.85:
            keys.append('trcl')
        if rbase.get('fill') is None:
            if rng.random() < (0.85 if allow_void_mat else 0.5):
                keys.append('mat')
            if rng.random() < 0.35 and (rbase['mat'] or 'mat' in keys):
                keys.append('rho')
        else:
            if rng.random() < 0.6:
                keys.append('fill')
        if rng.random() < (0.7 if imp_decrease else 0.25):
            keys.append('imp')
        if rng.random() < 0.08:
            keys.append('u')
        if not keys:
            keys.append('trcl')
        rng.shuffle(keys)
        for key in keys:
            if key == 'trcl':
                target = SLOTS[slots.pop()]
                but['trcl'] = placement(rng, root['centre'], target, trs)
            elif key == 'mat':
                choices = [1, 2, 3, 4, 5]
                but['mat'] = rng.choice(choices)
                if allow_void_mat and rng.random() < 0.75:
                    but['mat'] = 0
                if rbase['mat'] == 0 and but['mat'] != 0:
                    but['rho'] = rng.choice(RHOS)
            elif key == 'rho':
                if 'rho' not in but:
                    but['rho'] = rng.choice(RHOS)
            elif key == 'fill':
                fill = {'u': rng.choice(fill_choices), 'tr': None}
                if rng.random() < 0.5:
                    fill['tr'] = deckmod.make_tr(
                        [rng.choice([0, 0.1, -0.2, 0.3]) for _ in range(3)],
                        deckmod.rotation(rng.randrange(3),
                                         rng.choice([30, 60, 90, 180]))
                        if rng.random() < 0.6 else None,
                        star=rng.random() < 0.5)
                    if fill['tr']['B'] is None:
                        fill['tr']['star'] = False
                    if rng.random() < 0.2:
                        num = max(trs, default=0) + 1
                        trs[num] = fill['tr']
                        fill['tr'] = ('num', num)
                but['fill'] = fill
            elif key == 'imp':
                inh = rbase.get('imp') or {}
                parts = rng.choice([['n'], ['n'], ['n'], ['p'], ['n', 'p']])
                if imp_decrease and inh:
                    parts = rng.choice([list(inh), ['n'], ['n', 'p']])
                    val = rng.choice([0, 0, 1])
                else:
                    val = rng.choice([0, 1, 2, 4])
                but['imp'] = {part: val for part in parts}
            elif key == 'u':
                but['u'] = rng.choice([7, 8])
        if rbase.get('mat') == 0 and but.get('mat') and 'rho' not in but:
            but['rho'] = rng.choice(RHOS)
        cell = {'id': new_id(), 'like': base, 'but': but}
        cells.append(cell)
        by_id[cell['id']] = cell
        level0.append(cell['id'])
        info[cell['id']] = dict(root)

    # background and outside
    live0 = [cid for cid in level0 if resolve(by_id, cid).get('u', 0) == 0]
    surfaces.append({'id': 900, 'mn': 'so', 'params': [40.0], 'tr': None,
                     'bc': ''})
    bg = {'id': new_id(), 'mat': 0, 'rho': None,
          'expr': ('*', ('s', -900)) + tuple(('#c', cid) for cid in live0),
          'imp': imp_of(), 'u': 0}
    out = {'id': new_id(), 'mat': 0, 'rho': None, 'expr': ('s', 900),
           'imp': imp_of(0), 'u': 0}
    cells += [bg, out]
    if rng.random() < 0.3:
        # LIKE cards may come before the card they refer to
        head = [c for c in cells if c.get('like') is not None]
        tail = [c for c in cells if c.get('like') is None]
        if rng.random() < 0.5:
            cells = head + tail
        else:
            rng.shuffle(cells)
    data = []
    if imp_mode == 'data':
        vals = ['0' if c['id'] == out['id'] else rng.choice(['1', '1', '2', '4'])
                for c in cells]
        data.append('imp:n ' + ' '.join(vals))
    used = set()
    for c in cells:
        r = resolve({x['id']: x for x in cells}, c['id'])
        if r['mat']:
            used.add(r['mat'])
    for c in cells:
        if c.get('like') is None and rng.random() < 0.15:
            c['upper'] = True
        elif c.get('like') is None and rng.random() < 0.5:
            c['group_imp'] = True
    deck = {'title': 'C15 generated deck', 'cells': cells,
            'surfaces': surfaces, 'transforms': trs,
            'materials': {m: MATERIALS[m] for m in sorted(used)},
            'data': data, 'imp_mode': imp_mode, 'has_lattice': has_lattice}
    return deck


def resolve(by_id, cid, depth=0):
    '''Explicit record of a cell: copy the (resolved) base, override the
    listed parameters.'''
    cell = by_id[cid]
    if cell.get('like') is None:
        return cell
    if depth > 50:
        raise ValueError('cyclic LIKE')
    base = dict(resolve(by_id, cell['like'], depth + 1))
    for key, val in cell.get('but', {}).items():
        if key == 'imp' and base.get('imp'):
            # an IMP entry of the BUT list replaces the inherited value of
            # the same particle only
            merged = dict(base['imp'])
            merged.update(val)
            val = merged
        base[key] = val
    base['id'] = cid
    base.pop('like', None)
    base.pop('but', None)
    base.pop('style', None)
    base.pop('upper', None)
    base.pop('group_imp', None)
    base.pop('text', None)
    return base


def expand(deck):
    '''The deck with every LIKE card replaced by its explicit expansion.'''
    by_id = {c['id']: c for c in deck['cells']}
    new = dict(deck)
    cells = []
    for c in deck['cells']:
        if c.get('like') is None:
            cells.append(c)
            continue
        r = copy.deepcopy(resolve(by_id, c['id']))
        if r['mat'] == 0:
            r['rho'] = None
        cells.append(r)
    new['cells'] = cells
    return new


# ---------------------------------------------------------------------------
# rendering
# ---------------------------------------------------------------------------

def case_of(rng, word):
    mode = rng.random()
    if mode < 0.5:
        return word
    if mode < 0.85:
        return word.upper()
    return word.capitalize()


def kv(rng, key, val, paren_ok=False):
    mode = rng.random()
    if mode < 0.55:
        return f'{key}={val}'
    if mode < 0.75:
        return f'{key} {val}'
    if mode < 0.9 or not paren_ok:
        return f'{key} = {val}'
    return f'{key}=({val})'


def tr_inline(rng, tr):
    txt = deckmod.tr_text(tr)
    return rng.choice([f'({txt})', f'( {txt} )', f'({txt})'])


def but_options(rng, but, repeat=False):
    parts = []
    for key, val in but.items():
        if key == 'mat':
            parts.append(kv(rng, case_of(rng, 'mat'), val))
        elif key == 'rho':
            parts.append(kv(rng, case_of(rng, 'rho'), val))
        elif key == 'u':
            parts.append(kv(rng, case_of(rng, 'u'), val, paren_ok=True))
        elif key == 'imp':
            items = list(val.items())
            if len(items) == 2 and items[0][1] == items[1][1] \
                    and rng.random() < 0.6:
                names = [part for part, _ in items]
                if rng.random() < 0.5:
                    names.reverse()        # imp:p,n: another grouping order
                name = ','.join(names)
                name = rng.choice([f'imp:{name}', f'IMP:{name.upper()}'])
                parts.append(kv(rng, name, items[0][1]))
            else:
                for part, v in items:
                    name = rng.choice([f'imp:{part}', f'IMP:{part.upper()}',
                                       f'imp : {part}', f'Imp:{part}'])
                    parts.append(kv(rng, name, v))
        elif key == 'trcl':
            if isinstance(val, tuple):
                parts.append(kv(rng, case_of(rng, 'trcl'), val[1],
                                paren_ok=True))
            else:
                star = '*' if val.get('star') else ''
                sep = rng.choice(['=', '=', ' ', ' = '])
                parts.append(f'{star}{case_of(rng, "trcl")}{sep}'
                             f'{tr_inline(rng, val)}')
        elif key == 'fill':
            tr = val.get('tr')
            star = '*' if isinstance(tr, dict) and tr.get('star') else ''
            sep = rng.choice(['=', '=', ' ', ' = '])
            if 'ranges' in val:
                arr = [str(u) for u in val['array']]
                if len(arr) > 1 and len(set(arr)) == 1 and rng.random() < 0.5:
                    arr = [arr[0], rng.choice([f'{len(arr) - 1}r',
                                               f'{len(arr) - 1}R'])]
                    if len(val['array']) == 2 and rng.random() < 0.5:
                        arr[1] = rng.choice(['r', 'R'])
                body = ' '.join([f'{lo}:{hi}' for lo, hi in val['ranges']]
                                + arr)
            else:
                body = str(val['u'])
            txt = f'{star}{case_of(rng, "fill")}{sep}{body}'
            if isinstance(tr, tuple):
                txt += rng.choice([' ', '']) + f'({tr[1]})'
            elif tr is not None:
                txt += rng.choice([' ', '']) + tr_inline(rng, tr)
            parts.append(txt)
        elif key == 'lat':
            parts.append(kv(rng, case_of(rng, 'lat'), val))
        elif key == 'raw':
            parts.append(val)
    return parts


def like_text(rng, cell):
    head = (f'{cell["id"]} {case_of(rng, "like")} {cell["like"]} '
            f'{case_of(rng, "but")}')
    parts = but_options(rng, cell.get('but', {}))
    return ' '.join([head] + parts)


def group_imp(cell, text):
    '''"imp:n=v imp:p=v" written as one keyword "imp:n,p=v" on the cards that
    ask for it (same meaning, another grouping of the particles).'''
    if not cell.get('group_imp'):
        return text
    import re
    return re.sub(r'imp:n=(\S+) imp:p=\1(?=\s|$)', r'imp:n,p=\1', text)


def render(deck, rng=None):
    '''Text of the deck.  LIKE cards get spelling variants when rng is given
    (deck.py's plain spelling otherwise).'''
    out = [deck.get('title', 'generated deck')]
    for cell in deck['cells']:
        if cell.get('like') is not None and rng is not None:
            if 'text' not in cell:
                cell['text'] = like_text(rng, cell)
                cell['lead'] = rng.choice(['', '', '', '', '', ' ', '   '])
            out.append(cell.get('lead', '') + deckmod.wrap(cell['text']))
        elif cell.get('like') is not None:
            out.append(cell.get('lead', '')
                       + deckmod.wrap(cell.get('text')
                                      or deckmod.cell_text(cell)))
        elif cell.get('upper'):
            # explicit card with its options in capitals
            opts = deckmod.cell_options(cell)
            plain = dict(cell)
            for key in ('u', 'lat', 'fill', 'trcl', 'imp'):
                plain.pop(key, None)
            out.append(deckmod.wrap(' '.join(
                [deckmod.cell_text(plain)] + [o.upper() for o in opts])))
        else:
            out.append(deckmod.wrap(group_imp(cell, cell.get('text')
                                              or deckmod.cell_text(cell))))
    out.append('')
    for surf in deck['surfaces']:
        out.append(deckmod.wrap(deckmod.surface_text(surf)))
    out.append('')
    for n, tr in sorted(deck.get('transforms', {}).items()):
        star = '*' if tr.get('star') else ''
        out.append(deckmod.wrap(f'{star}tr{n} {deckmod.tr_text(tr)}'))
    for n, toks in sorted(deck.get('materials', {}).items()):
        out.append(deckmod.wrap(f'm{n} ' + ' '.join(toks)))
    out.extend(deck.get('data', []))
    return '\n'.join(out) + '\n'


def expected_ast(expr):
    '''The syntax tree of the expressions generated here as nested tuples
    (left-nested binary intersections), written from the abstract expression:
    ('S', n, facet) / ('^', 'cell') / ('*', a, b).'''
    tag = expr[0]
    if tag == 's':
        return ('S', int(expr[1]), None)
    if tag == '#c':
        return ('^', str(expr[1]))
    if tag == '*':
        acc = expected_ast(expr[1])
        for sub in expr[2:]:
            acc = ('*', acc, expected_ast(sub))
        return acc
    raise ValueError(expr)


def ast_canon(node):
    '''What get_ast built, structurally: operator nodes are sequences (tuple,
    list, namedtuple ...) whose first item is the operator, surfaces are objects
    with .surface / .sub; anything else is kept by its repr.  No class names,
    no repr formats.'''
    if hasattr(node, 'surface'):
        sub = getattr(node, 'sub', None)
        return ('S', int(node.surface), None if sub is None else int(sub))
    if isinstance(node, str):
        return node
    if isinstance(node, (tuple, list)) and node:
        return tuple([node[0] if isinstance(node[0], str) else ast_canon(node[0])]
                     + [ast_canon(x) for x in node[1:]])
    return repr(node)


def expected_ast_repr(expr):
    '''repr() of the AST get_ast builds for the expressions generated here
    (left-nested binary intersections), written from the abstract expression.'''
    tag = expr[0]
    if tag == 's':
        return f'Surface({expr[1]}, None)'
    if tag == '#c':
        return f"('^', '{expr[1]}')"
    if tag == '*':
        acc = expected_ast_repr(expr[1])
        for sub in expr[2:]:
            acc = f"('*', {acc}, {expected_ast_repr(sub)})"
        return acc
    raise ValueError(expr)


def to_cos(a):
    return math.cos(math.radians(a))
