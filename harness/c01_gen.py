'''C01 — abstract cases for the Boolean pipeline, their rendering as Coq terms,
the driver that runs them through the implementation's own objects and an
independent Boolean reference evaluator (the sweep oracle at this level).

abstract tree:  ('s', n, sub) | ('r', cell) | ('*' | ':', [children])
abstract case:  dict(cells={id: dict(geom, orig, imp)}, order=[ids] (dict order),
                     matching={mcnp surface: [signed t4 ids]}, u0, u1, cnt0,
                     rn=None | {t4 id: t4 id}, skipped=[ids])
'''
import io
import itertools
from collections import OrderedDict

from common import cz, clist, copt, cpair, cbool


# --------------------------------------------------------------------------
# generation
# --------------------------------------------------------------------------

def gen_tree(rng, surfs, refs, size, facets=None, depth=0):
    '''Random tree with about `size` leaves.'''
    if size <= 1 or (depth > 0 and rng.random() < 0.15):
        if refs and rng.random() < 0.2:
            return ('r', rng.choice(refs))
        n = rng.choice(surfs) * rng.choice([1, -1])
        sub = None
        if facets and abs(n) in facets and rng.random() < 0.4:
            sub = rng.choice(facets[abs(n)])
        return ('s', n, sub)
    op = rng.choice('*:')
    arity = rng.choice([1, 2, 2, 2, 3, 3, 4, 5]) if rng.random() < 0.97 else 0
    arity = min(arity, max(size, 1))
    kids = []
    left = size
    for k in range(arity):
        share = left if k == arity - 1 else rng.randint(1, max(1, left - (arity - 1 - k)))
        share = max(1, share)
        left = max(1, left - share)
        mode = rng.random()
        if mode < 0.12 and depth < 6:
            # same operator below: flattening
            sub = gen_tree(rng, surfs, refs, max(2, share), facets, depth + 1)
            if sub[0] in '*:':
                sub = (op, sub[1])
            kids.append(sub)
        elif mode < 0.2 and op == '*' and kids and kids[-1][0] == 's' \
                and kids[-1][2] is None:
            # both signs of one surface in one intersection
            kids.append(('s', -kids[-1][1], None))
        else:
            kids.append(gen_tree(rng, surfs, refs, share, facets, depth + 1))
    return (op, kids)


def gen_matching(rng, nsurf, collections=True):
    '''matching as number_items builds it: key -> [side*key, side*free, ...]'''
    keys = list(range(1, nsurf + 1))
    free = nsurf + 1
    matching = OrderedDict()
    for key in keys:
        n = 1
        if collections and rng.random() < 0.25:
            n = rng.choice([2, 2, 3, 5, 6])
        if collections and rng.random() < 0.01:
            n = 0
        ids = []
        for k in range(n):
            side = rng.choice([1, 1, -1])
            if k == 0:
                ids.append(side * key)
            else:
                ids.append(side * free)
                free += 1
        matching[key] = ids
    return matching, free


def gen_case(rng, malformed=False, partition=False, max_size=40):
    nsurf = rng.randint(1, 8)
    matching, free = gen_matching(rng, nsurf, collections=not partition)
    fault = rng.choice(['facet_hi', 'facet0', 'facet_neg', 'facet_index',
                        'cell', 'surface', 'rn', 'none']) if malformed else None
    # facet_neg: Python's negative index still inside the list (-len+1 .. 0);
    # facet_index: below it (IndexError)
    facets = {k: list(range(1, len(v) + 1)) + ([0] if fault == 'facet0' else [])
              + ([len(v) + 1] if fault == 'facet_hi' else [])
              + ([-len(v) + 1, -1] if fault == 'facet_neg' and len(v) >= 2 else [])
              + ([-len(v), -len(v) - 2] if fault == 'facet_index' else [])
              for k, v in matching.items()
              if len(v) >= 2 or fault in ('facet0', 'facet_hi', 'facet_index')}
    surfs = list(matching)
    ncells = rng.choice([1, 1, 2, 3, 4, 6])
    ids = rng.sample(range(1, 40), ncells)
    cells = OrderedDict()
    known = []
    for cid in ids:
        size = rng.choice([1, 2, 3, 4, 6, 8, 12, 20, max_size])
        refs = list(known)
        if fault == 'cell' and rng.random() < 0.5:
            refs = refs + [77]          # a cell that does not exist
        geom = gen_tree(rng, surfs, refs, size, facets)
        if rng.random() < 0.08 and known:
            # an explicitly empty cell, good for references
            s = rng.choice(surfs)
            geom = ('*', [('s', s, None), ('s', -s, None)])
        orig = []
        if rng.random() < 0.3:
            orig = [(rng.randint(1, 50), rng.randint(1, 50))
                    for _ in range(rng.choice([1, 2]))]
        imp = 0 if rng.random() < 0.15 else 1
        cells[cid] = {'geom': geom, 'orig': orig, 'imp': imp}
        known.append(cid)
    if partition:
        make_partition(rng, cells, surfs)
    if fault == 'surface':
        del matching[rng.choice(surfs)]
    # dict order of the cells is not the dependency order
    order = list(cells)
    rng.shuffle(order)
    u0, u1 = free + 1, free + 2
    t4ids = sorted({abs(t) for v in matching.values() for t in v} | {u0, u1})
    rn = None
    if rng.random() < 0.7:
        rn = {t: t for t in t4ids}
        for _ in range(rng.choice([0, 0, 1, 1, 2])):
            a, b = rng.sample(t4ids, 2) if len(t4ids) >= 2 else (t4ids[0],) * 2
            a, b = min(a, b), max(a, b)
            # remove_duplicate_surfaces maps every member of a class to its
            # smallest member (which maps to itself)
            ra, rb = rn[a], rn[b]
            lo, hi = min(ra, rb), max(ra, rb)
            for t in t4ids:
                if rn[t] == hi:
                    rn[t] = lo
        if fault == 'rn':
            del rn[rng.choice(t4ids)]
    skipped = [c for c in order if cells[c]['imp'] == 0]
    if rng.random() < 0.05:
        # a zero-importance cell that nothing mentions (ids of skipped cells
        # are MCNP cell numbers, hence below the counter)
        extra = [c for c in range(1, max(ids) + 1) if c not in cells]
        if extra:
            skipped.append(rng.choice(extra))
    return {'cells': cells, 'order': order, 'matching': dict(matching),
            'u0': u0, 'u1': u1, 'cnt0': max(ids) + 1 + rng.choice([0, 0, 5]),
            'rn': rn, 'skipped': skipped, 'partition': partition}


def make_partition(rng, cells, surfs):
    '''Overwrite the geometries so that the cells partition the sense
    assignments: leaves of a binary space partition, the last cell written as
    the complement (De Morgan, by hand) of the union of the others.'''
    ids = list(cells)
    leaves = [[]]
    pool = list(surfs)
    rng.shuffle(pool)
    while len(leaves) < len(ids) and pool:
        s = pool.pop()
        leaf = leaves.pop(rng.randrange(len(leaves)))
        leaves += [leaf + [-s], leaf + [s]]
    while len(leaves) > len(ids):
        # merge two leaves into a union
        a = leaves.pop()
        b = leaves.pop()
        leaves.append(('or', a, b))
    for cid, leaf in zip(ids, leaves):
        cells[cid]['geom'] = leaf_tree(leaf)
        cells[cid]['orig'] = []
    for cid in ids[len(leaves):]:
        s = surfs[0]
        cells[cid]['geom'] = ('*', [('s', s, None), ('s', -s, None)])
    if len(leaves) >= 2 and rng.random() < 0.6:
        # last live cell = complement of the others, through cell references
        # where possible (the referenced cells come earlier)
        last = ids[len(leaves) - 1]
        others = ids[:len(leaves) - 1]
        parts = [negate(cells[o]['geom']) for o in others]
        cells[last]['geom'] = ('*', parts) if len(parts) > 1 else parts[0]


def leaf_tree(leaf):
    if isinstance(leaf, tuple) and leaf[0] == 'or':
        return (':', [leaf_tree(leaf[1]), leaf_tree(leaf[2])])
    if not leaf:
        return ('*', [])
    if len(leaf) == 1:
        return ('s', leaf[0], None)
    return ('*', [('s', n, None) for n in leaf])


def negate(tree):
    if tree[0] == 's':
        return ('s', -tree[1], tree[2])
    if tree[0] == 'r':
        raise ValueError('cannot negate a reference')
    return (':' if tree[0] == '*' else '*', [negate(k) for k in tree[1]])


def tree_size(tree):
    if tree[0] in ('s', 'r'):
        return 1
    return 1 + sum(tree_size(k) for k in tree[1])


def all_trees(n_internal, surfs=(1, 2), max_arity=3):
    '''Every tree with exactly n internal nodes whose leaves are +-surfs and
    whose nodes have 1..max_arity children (thorough tier).'''
    leaves = [('s', s * sg, None) for s in surfs for sg in (1, -1)]
    memo = {}

    def forests(n, k):
        '''lists of k trees with n internal nodes in total'''
        if k == 0:
            return [[]] if n == 0 else []
        key = ('f', n, k)
        if key not in memo:
            out = []
            for first in range(n + 1):
                for head in trees(first):
                    for tail in forests(n - first, k - 1):
                        out.append([head] + tail)
            memo[key] = out
        return memo[key]

    def trees(n):
        if n == 0:
            return leaves
        key = ('t', n)
        if key not in memo:
            out = []
            for arity in range(1, max_arity + 1):
                for kids in forests(n - 1, arity):
                    for op in '*:':
                        out.append((op, kids))
            memo[key] = out
        return memo[key]
    return trees(n_internal)


def random_tree_n(rng, n_internal, surfs=(1, 2), max_arity=3):
    '''A random tree with exactly n internal nodes (not uniform).'''
    if n_internal == 0:
        return ('s', rng.choice(surfs) * rng.choice([1, -1]), None)
    arity = rng.randint(1, max_arity)
    rest = n_internal - 1
    shares = [0] * arity
    for _ in range(rest):
        shares[rng.randrange(arity)] += 1
    return (rng.choice('*:'),
            [random_tree_n(rng, k, surfs, max_arity) for k in shares])


# --------------------------------------------------------------------------
# Coq terms
# --------------------------------------------------------------------------

def coq_tree(tree):
    if tree[0] == 's':
        return f'(Leaf ({cz(tree[1])}, {copt(tree[2], cz)}))'
    if tree[0] == 'r':
        return f'(Ref {cz(tree[1])})'
    op = 'OInter' if tree[0] == '*' else 'OUnion'
    return f'(Node 0%Z {op} {clist(coq_tree(k) for k in tree[1])})'


def coq_pairs(pairs):
    return clist(cpair(cz(a), cz(b)) for a, b in pairs)


def coq_cvol(vol):
    plus, minus, ops, orig, fict = vol
    if ops is None:
        cops = 'None'
    else:
        cops = (f'(Some ({"OInter" if ops[0] == "INTE" else "OUnion"}, '
                f'{clist(copt(x, cz) for x in ops[1])}))')
    return cpair(clist(cz(x) for x in plus), clist(cz(x) for x in minus), cops,
                 coq_pairs(orig), cbool(fict))


def coq_table(table):
    return clist(cpair(cz(k), coq_cvol(v)) for k, v in table)


def coq_observed(obs):
    if obs[0] == 'err':
        return f'(OErr {obs[1]})'
    _, cnt, before, sc, cc, final, file_, lines = obs
    return (f'(OOk {copt(cnt, cz)} {coq_table(before)} {copt(sc, coq_pairs)} '
            f'{copt(cc, coq_pairs)} {coq_table(final)} '
            f'{copt(file_, coq_table)} {copt(lines, coq_lines)})')


TOKENS = {'VOLU': 'KVOLU', 'EQUA': 'KEQUA', 'PLUS': 'KPLUS', 'MINUS': 'KMINUS',
          'UNION': 'KUNION', 'INTE': 'KINTE', 'FICTIVE': 'KFICTIVE',
          'ENDV': 'KENDV', 'None': 'KNone'}


def volu_lines(text):
    '''The VOLU lines of a written geometry, as token lists (comment cut off).
    None when a token is neither a keyword nor an integer.'''
    import re
    out = []
    for line in text.splitlines():
        if not line.startswith('VOLU'):
            continue
        toks = []
        for word in line.split('//')[0].split():
            if word in TOKENS:
                toks.append(TOKENS[word])
            elif re.fullmatch(r'-?\d+', word):
                toks.append(int(word))
            else:
                return None
        out.append(toks)
    return out


def coq_lines(lines):
    return clist(clist(t if isinstance(t, str) else f'(TN {cz(t)})'
                       for t in line) for line in lines)


def coq_case(case, obs):
    cells = clist(cpair(cz(c), cpair(coq_tree(case['cells'][c]['geom']),
                                     coq_pairs(case['cells'][c]['orig'])))
                  for c in case['order'])
    matching = clist(cpair(cz(k), clist(cz(t) for t in v))
                     for k, v in case['matching'].items())
    todo = clist(cz(c) for c in todo_of(case))
    rn = 'None' if case['rn'] is None else \
        f'(Some {coq_pairs(sorted(case["rn"].items()))})'
    return cpair(cells, matching, cpair(cz(case['u0']), cz(case['u1'])), todo,
                 cz(case['cnt0']), rn, clist(cz(c) for c in case['skipped']),
                 coq_observed(obs))


def todo_of(case):
    return [c for c in case['order'] if case['cells'][c]['imp'] != 0
            and case['cells'][c].get('u', 0) == 0
            and not case['cells'][c].get('fill')]


# --------------------------------------------------------------------------
# implementation side
# --------------------------------------------------------------------------

def canon_vol(vol):
    ops = None
    if vol.ops is not None:
        ops = (vol.ops[0], list(vol.ops[1]))
    return (sorted(vol.pluses), sorted(vol.minuses), ops,
            [tuple(p) for p in vol.idorigin], bool(vol.fictive))


def canon_table(dic):
    return [(int(k), canon_vol(v)) for k, v in dic.items()]


def build_geom(tree, rng):
    from MIP.geom.semantics import GeomExpression, Surface
    from t4_geom_convert.Kernel.Volume.CellMCNP import CellRef
    if tree[0] == 's':
        return Surface(tree[1], tree[2])
    if tree[0] == 'r':
        return CellRef(tree[1])
    items = [tree[0]] + [build_geom(k, rng) for k in tree[1]]
    kind = rng.randrange(3)
    if kind == 0:
        return GeomExpression(items)
    if kind == 1:
        return tuple(items)
    return items


ERRORS = {'KeyError': 'EKey', 'CellConversionError': 'EFacet',
          'IndexError': 'EIndex', 'RecursionError': 'EFuel'}


def file_table(text):
    '''VOLU lines of a written geometry, canonical.  Returns (table, None) or
    (None, reason) when a line cannot be read (e.g. a None operand).'''
    import impl
    import geomcheck
    t4 = impl.T4File(text)
    if t4.errors:
        return None, t4.errors[0]
    table = []
    for vid in t4.vol_order:
        vol = t4.volumes[vid]
        ops = None if vol['op'] is None else (vol['op'], list(vol['args']))
        table.append((vid, (sorted(vol['plus']), sorted(vol['minus']), ops,
                            geomcheck.parse_provenance(vol['comment']),
                            vol['fictive'])))
    return table, None


def write_table(dic_vol, skipped):
    '''Run the real writer on a volume table with stub surfaces.'''
    from t4_geom_convert.Kernel.FileHandlers.Writer.WriteT4Geometry import \
        writeT4Geometry
    from t4_geom_convert.Kernel.Surface.SurfaceT4 import SurfaceT4
    from t4_geom_convert.Kernel.Surface.ESurfaceTypeT4 import ESurfaceTypeT4
    used = {s for v in dic_vol.values() for s in v.pluses | v.minuses}
    if not used or not len(dic_vol):
        return None
    surfs = {s: SurfaceT4(ESurfaceTypeT4.PLANEX, [float(s)], []) for s in used}
    out = io.StringIO()
    import contextlib
    with contextlib.redirect_stdout(io.StringIO()):
        writeT4Geometry(surfs, dic_vol, skipped, out)
    return out.getvalue()


def run_impl(case, rng):
    '''Drive CellConversion.pot_convert as construct_volume_t4 does, then the
    pruning functions and the writer.  Returns (observed, final table object
    or None, written text or None).'''
    import contextlib
    from t4_geom_convert.Kernel.Volume.CellConversion import CellConversion
    from t4_geom_convert.Kernel.Volume.DictVolumeT4 import DictVolumeT4
    from t4_geom_convert.Kernel.Volume.CellMCNP import CellMCNP
    from t4_geom_convert.Kernel.Volume.ConstructVolumeT4 import \
        remove_empty_volumes, remove_unused_volumes
    from t4_geom_convert.Kernel.Surface.Duplicates import renumber_surfaces
    dic_cell = OrderedDict()
    for cid in case['order']:
        cell = case['cells'][cid]
        dic_cell[cid] = CellMCNP(0, None, build_geom(cell['geom'], rng),
                                 cell['imp'], 0, None, None, None, [],
                                 [tuple(p) for p in cell['orig']])
    dic_vol = DictVolumeT4()
    conv = CellConversion(case['cnt0'], 10 ** 6, dic_vol, {}, {}, dic_cell)
    union_ids = (case['u0'], case['u1'])
    matching = case['matching']
    sink = io.StringIO()
    try:
        with contextlib.redirect_stdout(sink):
            # the final loop of construct_volume_t4
            for key in todo_of(case):
                j = conv.pot_convert(dic_cell[key], matching, union_ids)
                if j is None:
                    continue
                dic_vol[key] = dic_vol[j].copy()
                dic_vol[key].fictive = False
            before = canon_table(dic_vol)
            cnt = getattr(conv, 'new_cell_key', None)
            sc, cc = read_caches(conv)
            if case['rn'] is not None and len(dic_vol):
                # as convertMCNPGeometry does after the de-duplication
                dic_vol = renumber_surfaces(dic_vol, case['rn'])
                union_ids = tuple(case['rn'][surf] for surf in union_ids)
            remove_empty_volumes(dic_vol, union_ids)
            remove_unused_volumes(dic_vol)
    except Exception as exc:     # pylint: disable=broad-except
        name = type(exc).__name__
        if name not in ERRORS:
            raise
        return ('err', ERRORS[name]), None, None
    final = canon_table(dic_vol)
    text = write_table(dic_vol, case['skipped'])
    file_ = None
    lines = None
    if text is not None:
        file_, why = file_table(text)
        lines = volu_lines(text)
    return ('ok', cnt, before, sc, cc, final, file_, lines), dic_vol, text


def read_caches(conv):
    '''The two caches of CellConversion, sorted by key, through their
    attribute names; (None, None) when a rewrite renamed them: the cache tie
    is then skipped (the table and counter ties, which every cache effect
    reaches, stay).'''
    surf = getattr(conv, 'convert_surface_cache', None)
    cref = getattr(conv, 'convert_cellref_cache', None)
    if not isinstance(surf, dict) or not isinstance(cref, dict):
        return None, None
    return (sorted((int(k), int(v)) for k, v in surf.items()),
            sorted((int(k), int(v)) for k, v in cref.items()
                   if v is not None))


def effective_rn(case, obs):
    '''renumber_surfaces is not reached with an empty table (its progress
    meter takes max() of the keys): the case sent to Coq says so.'''
    if obs[0] == 'ok' and not obs[2]:
        return None
    return case['rn']


# --------------------------------------------------------------------------
# independent Boolean reference (the oracle of the sweep)
# --------------------------------------------------------------------------

def lit(sigma, t):
    return sigma[t] if t > 0 else not sigma[-t]


class NoVerdict(Exception):
    pass


def mden(case, tree, sigma, depth=0):
    '''MCNP meaning of a cell tree for a sense assignment of the T4 surfaces:
    a collection surface is positive iff the point is outside one facet.'''
    if depth > 60:
        raise NoVerdict('cyclic')
    tag = tree[0]
    if tag == 's':
        n, sub = tree[1], tree[2]
        ids = case['matching'].get(abs(n))
        if ids is None:
            raise NoVerdict('unknown surface')
        if sub is not None:
            if not 1 <= sub <= len(ids):
                raise NoVerdict('facet out of range')
            pos = lit(sigma, ids[sub - 1])
        else:
            pos = any(lit(sigma, t) for t in ids)
        return pos if n > 0 else not pos
    if tag == 'r':
        cell = case['cells'].get(tree[1])
        if cell is None:
            raise NoVerdict('unknown cell')
        return mden(case, cell['geom'], sigma, depth + 1)
    vals = [mden(case, k, sigma, depth + 1) for k in tree[1]]
    return all(vals) if tag == '*' else any(vals)


def vden(table, vid, sigma, depth=0):
    if depth > 200:
        raise NoVerdict('cyclic volumes')
    vol = table.get(vid)
    if vol is None:
        raise NoVerdict(f'volume {vid} is not defined')
    plus, minus, ops = vol[0], vol[1], vol[2]
    base = all(sigma[s] for s in plus) and not any(sigma[s] for s in minus)
    if ops is None:
        return base
    if any(a is None for a in ops[1]):
        raise NoVerdict('None operand')
    if ops[0] == 'UNION':
        return base or any(vden(table, a, sigma, depth + 1) for a in ops[1])
    return base and all(vden(table, a, sigma, depth + 1) for a in ops[1])


def assignments(case, rng, limit=1024):
    '''Consistent sense assignments: sigma(rn x) = sigma x for every x (classes
    of the renumbering, by closure), helper planes x=1 / x=-1 ordered.'''
    u0, u1 = case['u0'], case['u1']
    ids = sorted({abs(t) for v in case['matching'].values() for t in v}
                 | {u0, u1})
    rn = case['rn'] or {}
    parent = {t: t for t in ids}
    for a, b in rn.items():
        parent.setdefault(a, a)
        parent.setdefault(b, b)

    def find(x):
        while parent[x] != x:
            parent[x] = parent[parent[x]]
            x = parent[x]
        return x
    for a, b in rn.items():
        ra, rb = find(a), find(b)
        if ra != rb:
            parent[max(ra, rb)] = min(ra, rb)
    everything = sorted(parent)
    reps = sorted({find(t) for t in everything})
    total = 2 ** len(reps)
    if total <= limit:
        stream = itertools.product([False, True], repeat=len(reps))
    else:
        stream = ([rng.random() < 0.5 for _ in reps] for _ in range(limit))
    for bits in stream:
        val = dict(zip(reps, bits))
        sigma = {t: val[find(t)] for t in everything}
        if sigma[u0] and not sigma[u1]:
            continue
        yield sigma


def oracle(case, table, rng, file_level=True):
    '''Property on the volume table the implementation produced: every cell of
    the conversion list denotes its MCNP region under its own number, and no
    other non-FICTIVE volume exists.  Returns a list of failure strings.'''
    tab = {k: v for k, v in table}
    live = set(todo_of(case))
    fails = []
    for vid, vol in table:
        if not vol[4] and vid not in live:
            fails.append(f'non-FICTIVE volume {vid} is not a cell of the '
                         'conversion list')
    if file_level:
        for vid in tab:
            if vid in case['skipped'] and vid in live:
                pass
    try:
        for sigma in assignments(case, rng):
            owners = []
            for cid in live:
                want = mden(case, case['cells'][cid]['geom'], sigma)
                got = vden(tab, cid, sigma) if cid in tab else False
                if cid in tab and tab[cid][4]:
                    got = False       # FICTIVE volumes are not part of the geometry
                if want != got:
                    fails.append(
                        f'cell {cid}: MCNP region {want}, volume {cid} '
                        f'{"absent" if cid not in tab else got} at sigma='
                        f'{ {k: v for k, v in sorted(sigma.items())} }')
                    return fails
                if got:
                    owners.append(cid)
            if case.get('partition'):
                want_owner = [c for c in case['order']
                              if mden(case, case['cells'][c]['geom'], sigma)]
                if len(want_owner) == 1:
                    expect = [c for c in want_owner if c in live]
                    if owners != expect:
                        fails.append(f'partition: owners {owners} expected '
                                     f'{expect}')
                        return fails
    except NoVerdict as exc:
        if 'None operand' in str(exc):
            fails.append('None operand')
        elif 'is not defined' in str(exc):
            fails.append(str(exc))
    return fails


def has_none_operand(table):
    return any(v[2] is not None and any(a is None for a in v[2][1])
               for _, v in table)
