'''Drivers that run the implementation from /repo's working tree, and the
independent reader of written TRIPOLI-4 files (also the C08 validator).'''
import contextlib
import io
import os
import re
import shutil
import sys
import tempfile
import warnings
from pathlib import Path

SCRATCH_ROOT = Path(os.environ.get('T4GC_SCRATCH', tempfile.gettempdir()))


class ConvResult:
    def __init__(self):
        self.ok = False
        self.exc = None          # exception class name
        self.msg = ''
        self.text = None         # written .t4 (None if no file was written)
        self.stdout = ''
        self.warnings = []

    def __repr__(self):
        return (f'ConvResult(ok={self.ok}, exc={self.exc}, msg={self.msg[:80]!r}, '
                f'text={"yes" if self.text else "no"})')


@contextlib.contextmanager
def scratch_dir():
    path = Path(tempfile.mkdtemp(prefix='t4gc_', dir=SCRATCH_ROOT))
    try:
        yield path
    finally:
        shutil.rmtree(path, ignore_errors=True)


def convert(deck_text, extra_args=(), encoding='utf-8', keep_stdout=True):
    '''Run t4_geom_convert.main.conversion on `deck_text` in-process.'''
    from t4_geom_convert.main import conversion, parse_args
    res = ConvResult()
    with scratch_dir() as tmp:
        inp = tmp / 'deck.imcnp'
        out = tmp / 'deck.t4'
        inp.write_bytes(deck_text.encode(encoding))
        argv = [str(inp), '-o', str(out)] + list(extra_args)
        buf = io.StringIO()
        old_argv = sys.argv
        sys.argv = ['t4_geom_convert'] + list(extra_args)
        try:
            with contextlib.redirect_stdout(buf), \
                    contextlib.redirect_stderr(buf), \
                    warnings.catch_warnings(record=True) as caught:
                warnings.simplefilter('always')
                try:
                    args = parse_args(argv)
                    conversion(args)
                    res.ok = True
                except SystemExit as exc:
                    res.exc, res.msg = 'SystemExit', str(exc.code)
                except Exception as exc:     # pylint: disable=broad-except
                    res.exc, res.msg = type(exc).__name__, str(exc)
                res.warnings = [str(w.message) for w in caught]
        finally:
            sys.argv = old_argv
        res.stdout = buf.getvalue() if keep_stdout else ''
        if out.exists():
            res.text = out.read_text()
        res.input_unchanged = inp.read_bytes() == deck_text.encode(encoding)
    return res


def mip_parser(deck_text):
    '''Context manager yielding a MIP parser on a scratch copy of the deck.'''
    from MIP import mip

    @contextlib.contextmanager
    def manager():
        with scratch_dir() as tmp:
            inp = tmp / 'deck.imcnp'
            inp.write_text(deck_text)
            yield mip.MIP(str(inp), encoding='utf-8')
    return manager()


# --------------------------------------------------------------------------
# Reader of written files
# --------------------------------------------------------------------------

_T4_NUMBER = re.compile(r'[-+]?(\d+\.?\d*|\.\d+)([eE][-+]?\d+)?$')


def is_t4_number(tok):
    '''A plain C-style finite decimal number.'''
    return bool(_T4_NUMBER.match(tok))


def mcnp_float(tok):
    '''Independent reading of an MCNP/Fortran number spelling
    (1.5d-1, 6.25-2, 3.0+1, 1e3).'''
    m = re.fullmatch(r'([-+]?(?:\d+\.?\d*|\.\d+))(?:[eEdD]?([-+]?\d+))?', tok)
    if not m:
        raise ValueError(f'not an MCNP number: {tok!r}')
    mant, expo = m.group(1), m.group(2)
    return float(mant + ('e' + expo if expo else ''))


class T4File:
    '''Abstract form of a written file. Raises ValueError on anything the
    reader cannot understand (which is itself a C08 structural failure).'''

    def __init__(self, text):
        self.text = text
        self.header = []
        self.surfaces = {}      # id -> (type, [params], transform id or None)
        self.surf_order = []
        self.transforms = {}    # id -> [12 floats]
        self.volumes = {}       # id -> dict(plus, minus, op, args, fictive, comment)
        self.vol_order = []
        self.compositions = []  # dicts
        self.n_compositions = None
        self.geomcomp = []      # (name, [volumes])
        self.boundary = []      # (kind, surf)
        self.n_boundary = None
        self.errors = []
        self.numeric_errors = []   # fields that are not plain finite numbers
        self._parse(text)

    def _parse(self, text):
        lines = text.split('\n')
        i = 0
        while i < len(lines) and lines[i].startswith('//'):
            self.header.append(lines[i])
            i += 1
        section = None
        toks = []          # token stream for the non-geometry sections
        for line in lines[i:]:
            stripped = line.strip()
            if not stripped:
                continue
            if stripped in ('GEOMETRY', 'COMPOSITION', 'GEOMCOMP',
                            'BOUNDARY_CONDITION'):
                section = stripped
                continue
            if stripped in ('ENDG', 'END_COMPOSITION', 'END_GEOMCOMP',
                            'END_BOUNDARY_CONDITION'):
                self._close(section, toks)
                toks = []
                section = None
                continue
            if section == 'GEOMETRY':
                self._geometry_line(stripped)
            elif section is None:
                if stripped.startswith('LANG'):
                    continue
                self.errors.append(f'text outside any block: {stripped!r}')
            else:
                toks.extend(stripped.split())
        if section is not None:
            self.errors.append(f'block {section} is not closed')

    def _geometry_line(self, line):
        code, _, comment = line.partition('//')
        toks = code.split()
        if not toks:
            return
        head = toks[0]
        if head in ('TITLE', 'HASH_TABLE'):
            return
        try:
            if head == 'TRANSFORM':
                tid = int(toks[1])
                if toks[2] != 'MATRIX':
                    raise ValueError('expected MATRIX')
                vals = [float(x) for x in toks[3:]]
                if len(vals) != 12:
                    raise ValueError(f'TRANSFORM with {len(vals)} numbers')
                if tid in self.transforms:
                    self.errors.append(f'TRANSFORM {tid} defined twice')
                self.transforms[tid] = vals
            elif head == 'SURF':
                sid = int(toks[1])
                rest = toks[2:]
                tr = None
                if rest[0] == 'TRANSFORM':
                    tr = int(rest[1])
                    rest = rest[2:]
                typ = rest[0]
                params = [float(x) for x in rest[1:]]
                if sid in self.surfaces:
                    self.errors.append(f'SURF {sid} defined twice')
                self.surfaces[sid] = (typ, params, tr)
                self.surf_order.append(sid)
            elif head == 'VOLU':
                self._volume(toks, comment.strip())
            else:
                self.errors.append(f'unknown geometry line: {line!r}')
        except (ValueError, IndexError) as exc:
            self.errors.append(f'malformed line {line!r}: {exc}')

    def _volume(self, toks, comment):
        vid = int(toks[1])
        if toks[-1] != 'ENDV':
            raise ValueError('missing ENDV')
        body = toks[2:-1]
        if not body or body[0] != 'EQUA':
            raise ValueError('missing EQUA')
        vol = {'plus': [], 'minus': [], 'op': None, 'args': [],
               'fictive': False, 'comment': comment}
        k = 1
        while k < len(body):
            word = body[k]
            if word in ('PLUS', 'MINUS', 'UNION', 'INTE'):
                count = int(body[k + 1])
                items = body[k + 2:k + 2 + count]
                rest_word = body[k + 2 + count] if k + 2 + count < len(body) \
                    else None
                ids = [int(x) for x in items]     # ValueError on 'None'
                if len(ids) != count or (rest_word is not None and
                                         re.fullmatch(r'-?\d+', rest_word)):
                    raise ValueError(f'{word} count {count} does not match '
                                     'the items that follow')
                if word == 'PLUS':
                    vol['plus'] = ids
                elif word == 'MINUS':
                    vol['minus'] = ids
                else:
                    if vol['op'] is not None:
                        raise ValueError('two operators in one volume')
                    vol['op'], vol['args'] = word, ids
                k += 2 + count
            elif word == 'FICTIVE':
                vol['fictive'] = True
                k += 1
            else:
                raise ValueError(f'unexpected token {word!r}')
        if vid in self.volumes:
            self.errors.append(f'VOLU {vid} defined twice')
        self.volumes[vid] = vol
        self.vol_order.append(vid)

    def _close(self, section, toks):
        try:
            if section == 'COMPOSITION':
                self._compositions(toks)
            elif section == 'GEOMCOMP':
                self._geomcomp(toks)
            elif section == 'BOUNDARY_CONDITION':
                self._boundary(toks)
        except (ValueError, IndexError) as exc:
            self.errors.append(f'malformed {section} block: {exc}')

    def _compositions(self, toks):
        self.n_compositions = int(toks[0])
        k = 1
        while k < len(toks):
            typ = toks[k]
            if typ == 'POINT_WISE':
                temp, name, n = toks[k + 1], toks[k + 2], int(toks[k + 3])
                k += 4
                comp = {'type': typ, 'temp': temp, 'name': name,
                        'density': None, 'nb_atom': None}
            elif typ == 'DENSITY':
                temp, name, rho = toks[k + 1], toks[k + 2], toks[k + 3]
                k += 4
                nb_atom = False
                if toks[k] == 'NB_ATOM':
                    nb_atom = True
                    k += 1
                n = int(toks[k])
                k += 1
                comp = {'type': typ, 'temp': temp, 'name': name,
                        'density': rho, 'nb_atom': nb_atom}
            else:
                raise ValueError(f'unknown composition type {typ!r}')
            items = []
            for _ in range(n):
                iso, amount = toks[k], toks[k + 1]
                if not is_t4_number(amount):
                    self.numeric_errors.append(
                        f'composition {name}: amount {amount!r}')
                mcnp_float(amount)
                if not re.fullmatch(r'[A-Z]{1,2}(-NAT|\d+)', iso):
                    raise ValueError(f'bad nuclide name {iso!r}')
                items.append((iso, amount))
                k += 2
            comp['items'] = items
            comp['declared'] = n
            self.compositions.append(comp)

    def _geomcomp(self, toks):
        k = 0
        while k < len(toks):
            name, n = toks[k], int(toks[k + 1])
            vols = [int(x) for x in toks[k + 2:k + 2 + n]]
            if len(vols) != n:
                raise ValueError(f'GEOMCOMP {name}: count mismatch')
            self.geomcomp.append((name, vols))
            k += 2 + n

    def _boundary(self, toks):
        self.n_boundary = int(toks[0])
        k = 1
        while k < len(toks):
            if toks[k] != 'ALL_COMPLETE':
                raise ValueError(f'unexpected token {toks[k]!r}')
            self.boundary.append((toks[k + 1], int(toks[k + 2])))
            k += 3
