'''C05 tie for ParseMCNPCell.parse_fill_kw / parse_trcl_kw: which transformation
tuple a FILL / *FILL / TRCL / *TRCL keyword yields (empty tuple, TR card by
number, translation completed with the identity, normalised 12 entries).
The model (Model.parse_tr_params) works on tokens; the 12-entry results are
checked numerically here against the generator's ground truth.'''
import math

import deck as deckmod
from common import cz, cbool, clist, cpair

IDENTITY = [[1, 0, 0], [0, 1, 0], [0, 0, 1]]
KINDS = ['none', 'num', 'num', 'num_missing', 'three', 'three', 'null3',
         'null3', 'star3', 'star_null3', 'full12', 'ident12', 'star12',
         'star_ident12']


def spell(rng, v):
    '''A token float() reads back as v and that starts like a number.'''
    if v == int(v) and rng.random() < 0.5:
        txt = str(int(v))
        if v == 0 and math.copysign(1.0, v) < 0:
            txt = '-0'
        return txt
    txt = repr(float(v))
    if rng.random() < 0.15 and v > 0:
        txt = '+' + txt
    if rng.random() < 0.15 and 0 < abs(v) < 1:
        txt = txt.replace('0.', '.', 1)
    return txt


def gen_case(rng, is_fill=None, table=None):
    kind = rng.choice(KINDS)
    if is_fill is None:
        is_fill = rng.random() < 0.6
    star = kind.startswith('star') or (kind in ('num', 'none', 'three',
                                                'null3')
                                       and rng.random() < 0.2)
    fixed_table = table is not None
    table = {} if table is None else table
    for _ in range(0 if fixed_table else rng.randint(0, 3)):
        n = rng.randint(1, 40)
        r = rng.random()
        if r < 0.25:
            entries = [0.0, 0.0, 0.0, 1.0, 0.0, 0.0, 0.0, 1.0, 0.0,
                       0.0, 0.0, 1.0]                  # an identity card
        else:
            tr = deckmod.random_tr(rng, star=False, translate_only=False)
            entries = list(tr['O']) + list(tr['B'])
        if rng.random() < 0.3:
            entries = entries + [1.0]                    # explicit m = 1
        table[n] = [float(v) for v in entries]
    truth = None            # expected 12 numbers for the normalised branch
    params = []
    if kind == 'num':
        if not table:
            table[7] = [0.0, 0.0, 0.0, 1.0, 0.0, 0.0, 0.0, 1.0, 0.0, 0.0, 0.0,
                        1.0]
        params = [float(rng.choice(sorted(table)))]
    elif kind == 'num_missing':
        n = rng.randint(41, 60)
        while n in table:
            n = rng.randint(41, 60)
        params = [float(n)]
    elif kind in ('three', 'star3'):
        params = [rng.choice([0.0, 1.0, -1.0, 2.5, -3.0, 0.5, 0.0])
                  for _ in range(3)]
    elif kind in ('null3', 'star_null3'):
        params = [rng.choice([0.0, 0.0, -0.0]) for _ in range(3)]
    elif kind in ('full12', 'star12'):
        tr = deckmod.random_tr(rng, star=(kind == 'star12'),
                               translate_only=False)
        params = list(tr['print'])
        truth = list(tr['O']) + list(tr['B'])
    elif kind in ('ident12', 'star_ident12'):
        tr = deckmod.make_tr([0.0, 0.0, 0.0], IDENTITY,
                             kind == 'star_ident12')
        params = list(tr['print'])
        truth = list(tr['O']) + list(tr['B'])
    univ = rng.randint(1, 30)
    tail = rng.choice([[], ['imp:n', '1'], ['u', '3', 'imp:n', '1'],
                       ['lat', '1']])
    tokens = ([str(univ)] if is_fill else []) + \
        [spell(rng, v) for v in params] + tail
    return {'kind': kind, 'is_fill': is_fill, 'star': star, 'table': table,
            'params': params, 'tokens': tokens, 'univ': univ, 'truth': truth,
            'tail': tail}


class HelperMissing(Exception):
    '''The helper-level entry used by a tie (a method other than the ones the
    anchors name, or the internal attributes a bare ParseMCNPCell object
    needs) is not there any more: the helper-level tie is skipped, the same
    code is exercised through the public route (public_cell_check, sweep).'''


def stub_parser(table):
    '''A ParseMCNPCell object without a deck behind it.  This relies on the
    names of two internal attributes; when a rewrite of /repo changes them the
    calls below raise AttributeError on the stub, which is turned into
    HelperMissing (never into a verdict).'''
    from t4_geom_convert.Kernel.FileHandlers.Parser.ParseMCNPCell import \
        ParseMCNPCell
    obj = ParseMCNPCell.__new__(ParseMCNPCell)
    obj.transforms = {k: list(v) for k, v in table.items()}
    obj.importances = []
    obj.lattice_params = {}
    return obj


def _stub_call(obj, name, *args):
    method = getattr(obj, name, None)
    if method is None:
        raise HelperMissing(f'helper ParseMCNPCell.{name} not present')
    try:
        return method(*args)
    except AttributeError as exc:
        if "'ParseMCNPCell' object has no attribute" in str(exc):
            raise HelperMissing('bare ParseMCNPCell object lacks an internal '
                                f'attribute: {exc}') from None
        raise


def run_impl(case):
    '''('err', 1) | ('ok', tuple) ; HelperMissing when the helper-level entry
    is gone; other exceptions propagate.'''
    obj = stub_parser(case['table'])
    kw_list = list(reversed(case['tokens']))
    name = ('*' if case['star'] else '') + ('fill' if case['is_fill']
                                            else 'trcl')
    try:
        if case['is_fill']:
            # parse_fill_kw is named by the anchors: if it is gone the tie is
            # legitimately undischarged (AttributeError propagates)
            obj.parse_fill_kw               # noqa: B018
            bounds, univ, params = _stub_call(obj, 'parse_fill_kw', name,
                                              kw_list)
            if bounds is not None or univ != case['univ']:
                raise AssertionError(f'universe {univ!r}, bounds {bounds!r}')
        else:
            params = _stub_call(obj, 'parse_trcl_kw', name, kw_list)
    except KeyError:
        return ('err', 1)
    if list(reversed(kw_list)) != case['tail']:
        raise AssertionError(f'tokens left: {kw_list!r}')
    return ('ok', tuple(params))


def coq_case(case, outcome):
    codes = {0.0: 0, 1.0: 1}

    def code(v):
        v = float(v)
        if v not in codes:
            codes[v] = len(codes)
        return codes[v]
    params = clist(cz(code(v)) for v in case['params'])
    trid = int(case['params'][0]) if len(case['params']) == 1 else 0
    table = clist(cpair(cz(n), clist(cz(code(v)) for v in entries))
                  for n, entries in sorted(case['table'].items()))
    if outcome[0] == 'err':
        out = f'(KErr {cz(outcome[1])})'
    else:
        got = outcome[1]
        ok = False
        if case['truth'] is not None and len(got) == 12:
            ok = all(abs(float(a) - float(b)) < 1e-9
                     for a, b in zip(got, case['truth']))
        out = (f'(KOk {clist(cz(code(v)) for v in got)} {cbool(ok)})')
    return f'(mkKw {cbool(case["is_fill"])} {cbool(case["star"])} {cz(trid)} {params} {table} {out})'


# ---- whole cell cards: parse_one_cell_worker -> CellMCNP fields ---------------

def gen_cell_case(rng):
    table = {}
    for _ in range(rng.randint(0, 3)):
        n = rng.randint(1, 40)
        if rng.random() < 0.25:
            entries = [0.0, 0.0, 0.0, 1.0, 0.0, 0.0, 0.0, 1.0, 0.0, 0.0, 0.0,
                       1.0]
        else:
            tr = deckmod.random_tr(rng, star=False, translate_only=False)
            entries = list(tr['O']) + list(tr['B'])
        table[n] = [float(v) for v in entries]
    fill = gen_case(rng, True, table) if rng.random() < 0.75 else None
    trcl = gen_case(rng, False, table) if rng.random() < 0.7 else None
    univ = rng.choice([None, None, 1, 3, -2, -7, 0])
    parts = []
    if fill is not None:
        nums = fill['tokens'][1:len(fill['tokens']) - len(fill['tail'])]
        txt = ('*' if fill['star'] else '') + f'fill={fill["univ"]}'
        if nums:
            txt += ' (' + ' '.join(nums) + ')'
        parts.append(txt)
    if trcl is not None:
        nums = trcl['tokens'][:len(trcl['tokens']) - len(trcl['tail'])]
        if nums:
            sep = rng.random() < 0.5 or len(nums) > 1
            txt = ('*' if trcl['star'] else '') + 'trcl=' + \
                ('(' + ' '.join(nums) + ')' if sep else nums[0])
            parts.append(txt)
        elif rng.random() < 0.6:
            # malformed: a bare TRCL keyword (the tuple is (), or the identity
            # when starred)
            parts.append(('*' if trcl['star'] else '') + 'trcl')
        else:
            trcl = None
    if univ is not None:
        parts.append(f'u={univ}')
    parts.append('imp:n=1')
    rng.shuffle(parts)
    return {'table': table, 'fill': fill, 'trcl': trcl, 'u': univ,
            'option': ' '.join(parts)}


def run_cell_impl(case):
    """('err', 1) | ('ok', (universe, fillid, filltr, trcl list))"""
    obj = stub_parser(case['table'])
    try:
        cell = _stub_call(obj, 'parse_one_cell_worker', 0, None,
                          ('1 -1.0', '-1', case['option']))
    except KeyError:
        return ('err', 1)
    return ('ok', (cell.universe, cell.fillid, cell.filltr,
                   [tuple(t) for t in cell.trcl]))


def coq_cell_case(case, outcome):
    codes = {0.0: 0, 1.0: 1}

    def code(v):
        v = float(v)
        if v not in codes:
            codes[v] = len(codes)
        return codes[v]

    def clz(values):
        return clist(cz(code(v)) for v in values)

    def kw(sub, with_univ):
        if sub is None:
            return 'None'
        trid = int(sub['params'][0]) if len(sub['params']) == 1 else 0
        items = [cbool(sub['star'])] + ([cz(sub['univ'])] if with_univ else []) \
            + [cz(trid), clz(sub['params'])]
        return '(Some ' + cpair(*items) + ')'
    table = clist(cpair(cz(n), clz(entries))
                  for n, entries in sorted(case['table'].items()))
    norms, ok = [], True
    if outcome[0] == 'ok':
        univ, fillid, filltr, trcls = outcome[1]
        for sub, got in ((case['fill'], filltr),
                         (case['trcl'], trcls[0] if trcls else None)):
            if sub is not None and sub['truth'] is not None:
                if got is None or len(got) != 12 or any(
                        abs(float(a) - float(b)) > 1e-9
                        for a, b in zip(got, sub['truth'])):
                    ok = False
                else:
                    norms.append(cpair(clz(sub['params']), clz(got)))
        out = ('(COk ' + cz(int(univ)) + ' '
               + ('None' if fillid is None else f'(Some {cz(int(fillid))})')
               + ' ' + ('None' if filltr is None else f'(Some {clz(filltr)})')
               + ' ' + clist(clz(t) for t in trcls) + f' {cbool(ok)})')
    else:
        out = f'(CErr {cz(outcome[1])})'
    u = 'None' if case['u'] is None else f'(Some {cz(case["u"])})'
    return (f'(mkCk {table} {u} {kw(case["fill"], True)} '
            f'{kw(case["trcl"], False)} {clist(norms)} {out})')


# ---- the same cell cards through the PUBLIC route: a deck text, the MIP parser,
# ParseMCNPCell(parser, None, {}).parse() -----------------------------------------

def expected_tuple(sub, table):
    '''Independent reading of a FILL / TRCL keyword: the 12 numbers written
    (None = no transformation, 'KeyError' = unknown TR number).'''
    if sub is None:
        return None
    kind = sub['kind']
    if kind == 'none':
        # a bare starred TRCL goes through normalize_transform([])
        if sub['star'] and not sub['is_fill']:
            return [0., 0., 0., 1., 0., 0., 0., 1., 0., 0., 0., 1.]
        return []
    if kind in ('three', 'star3', 'null3', 'star_null3'):
        return list(sub['params']) + [1., 0., 0., 0., 1., 0., 0., 0., 1.]
    if kind == 'num':
        return list(table[int(sub['params'][0])][:12])
    if kind == 'num_missing':
        return 'KeyError'
    return list(sub['truth'])


def public_cell_check(case):
    '''Returns None when the CellMCNP built by the public route carries the
    universe / fillid / fill transformation / TRCL written on the card, else a
    description of the difference.'''
    import contextlib
    import io
    import impl
    from t4_geom_convert.Kernel.FileHandlers.Parser.ParseMCNPCell import \
        ParseMCNPCell
    lines = ['c05 cell card through the public route',
             '1 1 -1.0 -1 ' + case['option'], '2 0 1 imp:n=0', '', '1 so 5.0', '']
    for n, entries in sorted(case['table'].items()):
        lines.append(f'tr{n} ' + ' '.join(repr(float(v)) for v in entries))
    lines += ['m1 1001 1.0', '']
    want_fill = expected_tuple(case['fill'], case['table'])
    want_trcl = expected_tuple(case['trcl'], case['table'])
    try:
        with impl.mip_parser('\n'.join(lines) + '\n') as parser:
            with contextlib.redirect_stdout(io.StringIO()):
                cells, _skipped = ParseMCNPCell(parser, None, {}).parse()
    except KeyError:
        if 'KeyError' in (want_fill, want_trcl):
            return None
        return 'KeyError'
    if 'KeyError' in (want_fill, want_trcl):
        return 'an unknown TR number was accepted'
    cell = cells[1]

    def close(got, want):
        return (len(got) == len(want)
                and all(abs(float(a) - float(b)) < 1e-9
                        for a, b in zip(got, want)))
    univ = 0 if case['u'] is None else abs(case['u'])
    if int(cell.universe) != univ:
        return f'universe {cell.universe!r}, written {univ}'
    if case['fill'] is None:
        if cell.fillid is not None:
            return f'fillid {cell.fillid!r} without FILL'
    else:
        if cell.fillid is None or int(cell.fillid) != case['fill']['univ']:
            return f'fillid {cell.fillid!r}, written {case["fill"]["univ"]}'
        if not close(list(cell.filltr or ()), want_fill):
            return (f'fill transformation {cell.filltr!r}, written '
                    f'{want_fill!r}')
    got_trcl = [list(t) for t in cell.trcl]
    want_list = [] if not want_trcl else [want_trcl]
    if len(got_trcl) != len(want_list) or any(
            not close(g, w) for g, w in zip(got_trcl, want_list)):
        return f'TRCL {cell.trcl!r}, written {want_list!r}'
    return None
