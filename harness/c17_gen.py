'''C17 helpers: abstract decks at the level of the validation model, their
rendering to MCNP text, the Coq terms of the model inputs, the fault injector,
and the drivers of the individual implementation functions.

Abstract deck (every value is plain data so that it can be stored in a replay):
  {'title': str,
   'surfs': [{'id', 'tr': None|int, 'mn': str, 'params': [float]}],
   'trs':   [{'id', 'star': bool, 'entries': [float]}],
   'impcards': [[name, [token, ...]]],
   'cells': [{'id', 'mat': int, 'rho': str|None,
              'lits': [[signed surface id, facet|None]], 'compl': [cell id],
              'opts': str}],
   'mats':  [[num, [token, ...]]],
   'latopts': [str], 'skipcomp': bool}
'''
import math
import re

from common import cz, cnat, cbool, cfloat, cstr, clist, copt, cpair

ELEMENTARY = ['px', 'py', 'pz', 'p', 'so', 's', 'sx', 'sy', 'sz', 'c/x', 'c/y',
              'c/z', 'cx', 'cy', 'cz', 'c', 'k/x', 'k/y', 'k/z', 'kx', 'ky',
              'kz', 'k', 'sq', 'gq', 't', 'tx', 'ty', 'tz', 'x', 'y', 'z']
MACROS = ['box', 'rpp', 'sph', 'rcc', 'hex', 'rhp', 'rec', 'trc', 'ell', 'wed',
          'arb']
# arities MCNP accepts (manual, Table 3.1 / 3.2); 'c', 'k', 't' are not MCNP
# mnemonics (they are members of the converter's enum only)
MCNP_ARITY = {
    'px': [1], 'py': [1], 'pz': [1], 'p': [4, 9], 'so': [1], 's': [4],
    'sx': [2], 'sy': [2], 'sz': [2], 'c/x': [3], 'c/y': [3], 'c/z': [3],
    'cx': [1], 'cy': [1], 'cz': [1], 'k/x': [4, 5], 'k/y': [4, 5],
    'k/z': [4, 5], 'kx': [2, 3], 'ky': [2, 3], 'kz': [2, 3], 'sq': [10],
    'gq': [10], 'tx': [5, 6], 'ty': [5, 6], 'tz': [5, 6], 'x': [2, 4, 6],
    'y': [2, 4, 6], 'z': [2, 4, 6],
    'box': [12], 'rpp': [6], 'sph': [4], 'rcc': [7], 'hex': [9, 15],
    'rhp': [9, 15], 'rec': [10, 12], 'trc': [8], 'ell': [7], 'wed': [12],
    'arb': [30]}
# the mnemonics valid decks draw from (everything the converter supports)
VALID_MN = ['px', 'py', 'pz', 'p', 'so', 's', 'sx', 'sy', 'sz', 'c/x', 'c/y',
            'c/z', 'cx', 'cy', 'cz', 'k/x', 'k/y', 'k/z', 'kx', 'ky', 'kz',
            'sq', 'gq', 'tx', 'ty', 'tz', 'x', 'z'] + MACROS

EXC_MAP = {
    'TransformationError': 'ETransformation',
    'NotImplementedError': 'ENotImplemented',
    'MissingLatticeOptError': 'EMissingLatticeOpt',
    'LatticeError': 'ELattice',
    'ParseMCNPCellError': 'EParseCell',
    'MacroBodyError': 'EMacroBody',
    'CellConversionError': 'ECellConversion',
    'IndexError': 'EIndex', 'TypeError': 'EType', 'KeyError': 'EKey',
    'StopIteration': 'EStopIteration', 'AssertionError': 'EAssertion',
}


def err_of(exc_name, msg=''):
    '''Exception class (+ message for ValueError) -> constructor of Model.err.'''
    if exc_name == 'ValueError':
        for needle, name in (('no ranges specified', 'ELatNoRanges'),
                             ('too many ranges', 'ELatTooMany'),
                             ('cell number', 'ELatCellNotInt'),
                             ('needs exactly 2', 'ELatNeeds2'),
                             ('range bound', 'ELatBoundNotInt'),
                             ('same sign', 'EMixedSigns')):
            if needle in msg:
                return name
        return 'EValue'
    return EXC_MAP.get(exc_name, 'EOther')


def guarded(fun):
    '''Run fun(); ('ok', value) or ('err', constructor, class name, message).'''
    try:
        return ('ok', fun())
    except BaseException as exc:   # pylint: disable=broad-except
        if isinstance(exc, (KeyboardInterrupt, MemoryError)):
            raise
        return ('err', err_of(type(exc).__name__, str(exc)),
                type(exc).__name__, str(exc)[:200])


def cres(out, render):
    if out[0] == 'ok':
        return f'(Ok {render(out[1])})'
    return f'(Err {out[1]})'


# ---------------------------------------------------------------------------
# valid parameters of every supported mnemonic
# ---------------------------------------------------------------------------

def _c(rng):
    return rng.choice([-3.0, -2.0, -1.5, -1.0, -0.5, 0.5, 1.0, 1.5, 2.0, 3.0])


def _r(rng):
    return rng.choice([0.75, 1.0, 1.25, 1.5, 2.0, 2.5, 3.0]) \
        + rng.randrange(0, 64) / 1024.0


def valid_params(mn, rng, arity=None):
    '''Geometrically sound parameters; `arity` picks among the accepted
    lengths.'''
    c, r = (lambda: _c(rng)), (lambda: _r(rng))
    if mn in ('px', 'py', 'pz'):
        return [c() + rng.randrange(0, 64) / 1024.0]
    if mn == 'p':
        if arity is None:
            arity = rng.choice([4, 4, 9])
        if arity == 4:
            n = [rng.choice([-1.0, 0.0, 1.0, 2.0]) for _ in range(3)]
            if not any(n) or sum(1 for v in n if v) == 1:
                n = [1.0, rng.choice([1.0, -2.0]), 0.5]
            return n + [c() + rng.randrange(0, 64) / 1024.0]
        a = r()
        return [a, 0.0, 0.0, 0.0, a + 1.0, 0.0, 0.0, 0.5, a + 2.0]
    if mn in ('so', 'cx', 'cy', 'cz'):
        return [r()]
    if mn == 's':
        return [c(), c(), c(), r()]
    if mn in ('sx', 'sy', 'sz'):
        return [c(), r()]
    if mn in ('c/x', 'c/y', 'c/z'):
        return [c(), c(), r()]
    if mn in ('k/x', 'k/y', 'k/z'):
        if arity is None:
            arity = rng.choice([4, 5])
        prm = [c(), c(), c(), rng.choice([0.25, 1.0, 2.25]) + rng.randrange(0, 32) / 1024.0]
        return prm + ([rng.choice([1.0, -1.0])] if arity == 5 else [])
    if mn in ('kx', 'ky', 'kz'):
        if arity is None:
            arity = rng.choice([2, 3])
        prm = [c(), rng.choice([0.25, 1.0, 2.25]) + rng.randrange(0, 32) / 1024.0]
        return prm + ([rng.choice([1.0, -1.0])] if arity == 3 else [])
    if mn == 'sq':
        return [1.0, 2.0, rng.choice([1.0, 3.0]), 0.0, 0.0, 0.0,
                -(r() ** 2), c(), c(), c()]
    if mn == 'gq':
        return [1.0, 1.0, rng.choice([1.0, 2.0]), 0.0, 0.0, 0.0,
                c(), 0.0, 0.0, -(r() ** 2) - 4.0]
    if mn in ('tx', 'ty', 'tz'):
        if arity is None:
            arity = rng.choice([5, 6])
        a = rng.choice([0.25, 0.5]) + rng.randrange(0, 32) / 1024.0
        return [c(), c(), c(), r() + 1.0, a] + ([a] if arity == 6 else [])
    if mn in ('x', 'y', 'z'):
        if arity is None:
            arity = rng.choice([2, 4, 4, 4])
        if arity == 2:
            return [c(), r()]
        kind = rng.choice(['plane', 'cyl', 'cone'])
        x1, r1 = c(), r()
        if kind == 'plane':
            return [x1, r1, x1, r1 + 1.0]
        if kind == 'cyl':
            return [x1, r1, x1 + 2.0, r1]
        return [x1, r1, x1 + rng.choice([1.0, 2.0, -1.0]), r1 + rng.choice([0.5, 1.0])]
    if mn == 'c':
        return [c(), c(), c(), r(), 0.0, 0.0, 1.0]
    if mn == 'k':
        return [c(), c(), c(), 0.5, 0.0, 0.0, 1.0] + \
            ([] if arity in (None, 7) else [1.0] * (arity - 7))
    base = [c(), c(), c()]
    if mn == 'box':
        a, b, d = r(), r(), r()
        return base + [a, 0.0, 0.0, 0.0, b, 0.0, 0.0, 0.0, d]
    if mn == 'rpp':
        x, y, z = c(), c(), c()
        return [x, x + r(), y, y + r(), z, z + r()]
    if mn == 'sph':
        return base + [r()]
    if mn == 'rcc':
        return base + [0.0, 0.0, r() + 1.0, r()]
    if mn in ('rhp', 'hex'):
        if arity is None:
            arity = rng.choice([9, 9, 15])
        h, a = r() + 1.0, r()
        prm = base + [0.0, 0.0, h, a, 0.0, 0.0]
        if arity == 15:
            prm += [a * 0.5, a * math.sqrt(3) / 2, 0.0,
                    -a * 0.5, a * math.sqrt(3) / 2, 0.0]
        return prm
    if mn == 'rec':
        if arity is None:
            arity = rng.choice([10, 12])
        a, b = r() + 1.0, r()
        prm = base + [0.0, 0.0, r() + 1.0, a, 0.0, 0.0]
        return prm + ([b] if arity == 10 else [0.0, b, 0.0])
    if mn == 'trc':
        return base + [0.0, 0.0, r() + 1.0, 2.0 + r(), r() * 0.5]
    if mn == 'ell':
        d = r()
        return [-d, 0.0, 0.0, d, 0.0, 0.0, 2.0 * d + 1.0]
    if mn == 'wed':
        return base + [r(), 0.0, 0.0, 0.0, r(), 0.0, 0.0, 0.0, r()]
    if mn == 'arb':
        a = r()
        verts = [(0, 0, 0), (a, 0, 0), (a, a, 0), (0, a, 0),
                 (0, 0, a), (a, 0, a), (a, a, a), (0, a, a)]
        prm = []
        for v in verts:
            prm += [base[0] + v[0], base[1] + v[1], base[2] + v[2]]
        return prm + [1234.0, 5678.0, 1265.0, 2376.0, 3487.0, 1485.0]
    raise ValueError(mn)


def filler_params(n, rng):
    return [rng.choice([0.5, 1.5, 2.5, 0.25, 3.5, 1.75]) + k / 64.0
            for k in range(n)]


# number of TRIPOLI-4 surfaces of a valid surface (independent count, from the
# MCNP manual's facet tables: a macrobody has this many facets; a one-nappe
# cone is cone + plane)
def n_facets(surf):
    mn, n = surf['mn'], len(surf['params'])
    table = {'box': 6, 'rpp': 6, 'sph': 1, 'rcc': 3, 'rhp': 8, 'hex': 8,
             'rec': 3, 'trc': 3, 'ell': 1, 'wed': 5, 'arb': 6}
    return table.get(mn, 1)


# ---------------------------------------------------------------------------
# rendering
# ---------------------------------------------------------------------------

def num(x):
    if isinstance(x, str):
        return x
    if isinstance(x, int):
        return str(x)
    if x == int(x) and abs(x) < 1e12:
        return str(int(x))
    return repr(float(x))


def fortran_num(x, k):
    '''A Fortran spelling of x (MCNP reads 5.0+0, 5.0d0, 50.0-1), chosen by k;
    only for values whose decimal spelling is exact.'''
    if isinstance(x, str):
        return x
    x = float(x)
    style = k % 4
    if style == 0 or x != x or abs(x) > 1e6:
        return num(x)
    base = repr(x)
    if 'e' in base or 'inf' in base:
        return num(x)
    if style == 1:
        return base + '+0'
    if style == 2:
        return base + 'd0'
    ten = repr(x * 10.0)
    if 'e' in ten or float(ten) / 10.0 != x:
        return base + 'D+0'
    return ten + '-1'


def wrap(card, width=76):
    words = card.split(' ')
    lines, cur = [], ''
    for word in words:
        if cur and len(cur) + 1 + len(word) > width:
            lines.append(cur)
            cur = '      ' + word
        else:
            cur = word if not cur else cur + ' ' + word
    lines.append(cur)
    return '\n'.join(lines)


def lit_text(lit):
    sid, facet = lit
    return f'{sid}.{facet}' if facet is not None else str(sid)


def cell_text(cell):
    if cell.get('like') is not None:
        return f'{cell["id"]} like {cell["like"]} but {cell["opts"]}'.strip()
    head = f'{cell["id"]} {cell["mat"]}'
    if cell['mat'] != 0:
        head += f' {cell["rho"]}'
    geom = ' '.join([lit_text(l) for l in cell['lits']]
                    + [f'#{c}' for c in cell['compl']])
    return ' '.join(x for x in (head, geom, cell['opts']) if x)


def render(deck):
    out = [deck.get('title', 'c17 generated deck')]
    for cell in deck['cells']:
        out.append(wrap(cell_text(cell)))
    out.append('')
    fort = deck.get('fortran')
    count = [0]

    def spell(v):
        count[0] += 1
        return fortran_num(v, count[0]) if fort else num(v)
    for surf in deck['surfs']:
        tr = f' {surf["tr"]}' if surf.get('tr') is not None else ''
        out.append(wrap(f'{surf.get("bc", "")}{surf["id"]}{tr} {surf["mn"]} '
                        + ' '.join(spell(v) for v in surf['params'])))
    out.append('')
    for tr in deck['trs']:
        out.append(wrap(f'{"*" if tr["star"] else ""}tr{tr["id"]} '
                        + ' '.join(spell(v) for v in tr['entries'])))
    for name, toks in deck['impcards']:
        out.append(wrap(f'{name} ' + ' '.join(toks)))
    for number, toks in deck['mats']:
        out.append(wrap(f'm{number} ' + ' '.join(toks)))
    return '\n'.join(out) + '\n'


def cli_args(deck):
    args = []
    for opt in deck['latopts']:
        args += ['--lattice', opt]
    if deck.get('skipcomp'):
        args.append('--skip-compositions')
    if deck.get('skipbc'):
        args.append('--skip-boundary-conditions')
    args += list(deck.get('extra_args', []))
    return args


# ---------------------------------------------------------------------------
# model inputs as Coq terms
# ---------------------------------------------------------------------------

def opt_tokens(option):
    '''The token list parse_one_cell_worker hands to parse_keywords (written
    here from the three text operations it performs).'''
    option = re.sub(' *: *', ':', option)
    option = option.lower().replace('(', ' ').replace(')', ' ').replace('=', ' ')
    return option.split()


def py_float_or_none(tok):
    '''Value of a numeric token: float(), else the harness's own reading of
    the Fortran spellings MCNP accepts (impl.mcnp_float, written from the
    manual) -- not the converter's to_float.'''
    try:
        val = float(tok)
    except ValueError:
        import impl
        try:
            val = impl.mcnp_float(tok)
        except ValueError:
            return None
    if val != val or val in (float('inf'), float('-inf')):
        return None
    return val


def ctok(tok):
    val = py_float_or_none(tok)
    if val is None and tok[-1:].lower() == 'm' and len(tok) > 1:
        # xM of a data card: the value of the token is its multiplier
        val = py_float_or_none(tok[:-1])
    if val is None or abs(val) > 1e15:
        return f'(mkTok {cstr(tok)} 0%float 0%Z)'
    return f'(mkTok {cstr(tok)} {cfloat(val)} {cz(int(val))})'


def cbounds(bounds):
    return clist(cpair(cz(lo), cz(hi)) for lo, hi in bounds)


def csurf(surf):
    return (f'(mkSurf {cz(surf["id"])} {copt(surf.get("tr"), cz)} '
            f'{cstr(surf["mn"])} {clist(cfloat(v) for v in surf["params"])})')


def mip_tr_entries(tr):
    '''What MIP's get_transforms hands over, as far as the model looks at it
    (length; the 13th entry): three entries get the identity appended.'''
    entries = list(tr['entries'])
    if len(entries) == 3:
        entries += [1.0, 0.0, 0.0, 0.0, 1.0, 0.0, 0.0, 0.0, 1.0]
    return entries


def ctr(tr):
    return (f'(mkTr {cz(tr["id"])} '
            f'{clist(cfloat(v) for v in mip_tr_entries(tr))})')


def resolve_like(cell, deck):
    '''(literals, complements, option string) of a cell, LIKE n BUT resolved
    the way parse_one_cell/apply_but does: geometry of n, options of n
    followed by the BUT options.'''
    if cell.get('like') is None:
        return cell['lits'], cell['compl'], cell['opts']
    base = [c for c in deck['cells'] if c['id'] == cell['like']][0]
    lits, compl, opts = resolve_like(base, deck)
    return lits, compl, opts + ' ' + cell['opts']


def ccell(cell, deck):
    lits, compl, opts = resolve_like(cell, deck)
    lits = clist(f'(mkLit {cz(abs(sid))} {copt(facet, cnat)})'
                 for sid, facet in lits)
    return (f'(mkCellc {cz(cell["id"])} {lits} '
            f'{clist(cz(c) for c in compl)} '
            f'{clist(ctok(t) for t in opt_tokens(opts))})')


def imp_tokens(name, toks):
    '''get_cell_importances: (type_ + params).split() where type_ is the card
    number field (empty for IMP:N) -- the data tokens as written.'''
    return list(toks)


def cdeck(deck):
    return ('(mkDeck ' + clist(cstr(o) for o in deck['latopts']) + '\n    '
            + clist(csurf(s) for s in deck['surfs']) + '\n    '
            + clist(ctr(t) for t in deck['trs']) + '\n    '
            + clist(clist(ctok(t) for t in imp_tokens(n, toks))
                    for n, toks in deck['impcards']) + '\n    '
            + clist(ccell(c, deck) for c in deck['cells']) + '\n    '
            + clist(clist(cstr(t) for t in toks) for _, toks in deck['mats'])
            + ' ' + cbool(bool(deck.get('skipcomp'))) + ' '
            + clist(cz(sf['id']) for sf in deck['surfs'] if sf.get('bc'))
            + ' ' + cbool(bool(deck.get('skipbc'))) + ')')


# ---------------------------------------------------------------------------
# valid decks
# ---------------------------------------------------------------------------

def tr_entries(rng, kind=None, star=None):
    '''(star, entries as printed) of a valid transformation.'''
    import deck as D
    if kind is None:
        kind = rng.choice([3, 3, 12, 12, 13])
    if kind == 3:
        return False, [_c(rng), _c(rng), _c(rng)]
    if star is None:
        star = rng.random() < 0.4
    tr = D.random_tr(rng, star=star, translate_only=False)
    entries = [float(v) for v in tr['print']]
    if kind == 13:
        entries.append(1.0)
    return star, entries


def inline_tr_text(rng, star_ok=True):
    '''Text of an inline transformation in parentheses + star flag.'''
    kind = rng.choice([3, 12] if star_ok else [3])
    star, entries = tr_entries(rng, kind)
    return star, '(' + ' '.join(num(v) for v in entries) + ')'


FRACS = ['1', '0.5', '2.5e-2', '1.0', '0.25', '3', '7.5E-1', '0.125']
ZAIDS = ['1001', '8016', '92235', '26056', '6000', '13027', '92238.70c',
         '1002.80c', '40000', '103262', '104267.80c', '112285', '118294',
         '95241', '2004', '83209']


def gen_material(rng):
    neg = rng.random() < 0.5
    toks = []
    for _ in range(rng.choice([1, 2, 2, 3, 4])):
        if rng.random() < 0.15:
            toks.append(rng.choice(['nlib=70c', 'gas=1', 'estep=10']))
        toks += [rng.choice(ZAIDS), ('-' if neg else '') + rng.choice(FRACS)]
    return toks


def gen_valid_deck(rng, features=None):
    '''A deck inside what the converter supports.  `features`: subset of
    {'tr', 'surftr', 'fill', 'filltr', 'lat', 'latopt', 'trcl', 'impcards',
    'facets', 'compl', 'mats'}; None = random subset.'''
    allf = ['tr', 'surftr', 'fill', 'filltr', 'lat', 'latopt', 'trcl',
            'impcards', 'facets', 'compl', 'mats', 'like']
    if features is None:
        features = {f for f in allf if rng.random() < 0.5}
    features = set(features)
    if features & {'surftr', 'filltr', 'trcl'}:
        features.add('tr')
    deck = {'title': 'c17 generated deck', 'surfs': [], 'trs': [],
            'impcards': [], 'cells': [], 'mats': [], 'latopts': [],
            'skipcomp': False}
    # transformations
    if 'tr' in features:
        for tid in rng.sample(range(1, 30), rng.choice([1, 2, 3])):
            star, entries = tr_entries(rng)
            deck['trs'].append({'id': tid, 'star': star, 'entries': entries})
    trids = [t['id'] for t in deck['trs']]
    # surfaces
    nsurf = rng.randint(3, 8)
    sid = 0
    for _ in range(nsurf):
        sid += rng.choice([1, 1, 2, 5])
        mn = rng.choice(VALID_MN)
        surf = {'id': sid, 'tr': None, 'mn': mn,
                'params': valid_params(mn, rng)}
        if 'surftr' in features and rng.random() < 0.4 \
                and mn not in ('tx', 'ty', 'tz'):
            surf['tr'] = rng.choice(trids)
        deck['surfs'].append(surf)
    plain = list(deck['surfs'])

    def lits_of(k, facets):
        out = []
        for surf in rng.sample(plain, min(k, len(plain))):
            sign = rng.choice([1, -1])
            facet = None
            if facets and surf['mn'] in MACROS and rng.random() < 0.6:
                facet = rng.randint(1, n_facets(surf))
            out.append([sign * surf['id'], facet])
        return out

    mats = {}
    if 'mats' in features:
        for number in rng.sample(range(1, 40), rng.choice([1, 2])):
            mats[number] = gen_material(rng)
    deck['mats'] = [[n, t] for n, t in sorted(mats.items())]

    def matrho():
        if mats and rng.random() < 0.6:
            return rng.choice(sorted(mats)), rng.choice(['-1.0', '-2.7', '0.05'])
        return 0, None

    cells = []
    cid = 0

    def new_cell(lits, compl=(), opts=''):
        nonlocal cid
        cid += rng.choice([1, 1, 3])
        mat, rho = matrho()
        cell = {'id': cid, 'mat': mat, 'rho': rho, 'lits': lits,
                'compl': list(compl), 'opts': opts, 'imp': 1}
        cells.append(cell)
        return cell

    # plain universe-0 cells
    for _ in range(rng.randint(1, 3)):
        new_cell(lits_of(rng.randint(1, 3), 'facets' in features))
    if 'compl' in features:
        target = rng.choice(cells)
        new_cell(lits_of(rng.randint(0, 2), False), compl=[target['id']])
    if 'trcl' in features:
        cell = new_cell(lits_of(rng.randint(1, 2), False))
        how = rng.choice(['num', 'three', 'star12'])
        if how == 'num':
            cell['opts'] = f'trcl={rng.choice(trids)}'
        elif how == 'three':
            cell['opts'] = 'trcl=(' + ' '.join(
                num(_c(rng)) for _ in range(3)) + ')'
        else:
            _, entries = tr_entries(rng, 12, star=True)
            cell['opts'] = '*trcl=(' + ' '.join(num(v) for v in entries) + ')'
    if 'like' in features:
        kinds = {s['id']: s['mn'] for s in deck['surfs']}
        bases = [c for c in cells
                 if not c['opts'] and c['lits'] and not c['compl']
                 and all(kinds[abs(l[0])] not in ('sq', 'gq', 'tx', 'ty', 'tz')
                         for l in c['lits'])]
        if bases:
            base_cell = rng.choice(bases)
            hows = ['three', 'star12']
            if trids:
                hows.append('num')
            if mats:
                hows.append('mat')
            how = rng.choice(hows)
            if how == 'three':
                but = 'trcl=(' + ' '.join(num(_c(rng)) for _ in range(3)) + ')'
            elif how == 'star12':
                _, entries = tr_entries(rng, 12, star=True)
                but = '*trcl=(' + ' '.join(num(v) for v in entries) + ')'
            elif how == 'num':
                but = f'trcl={rng.choice(trids)}'
            else:
                but = f'mat={rng.choice(sorted(mats))} rho=-1.5 trcl=(0 0 {num(_r(rng) + 20)})'
            cid += rng.choice([1, 1, 3])
            cells.append({'id': cid, 'mat': 0, 'rho': None, 'lits': [],
                          'compl': [], 'opts': but, 'imp': 1,
                          'like': base_cell['id']})
    next_u = 1
    if 'fill' in features or 'filltr' in features:
        univ = next_u
        next_u += 1
        cell = new_cell(lits_of(rng.randint(1, 2), False))
        fill = f'fill={univ}'
        if 'filltr' in features:
            how = rng.choice(['num', 'three', 'twelve', 'star12'])
            if how == 'num':
                fill += f' ({rng.choice(trids)})'
            elif how == 'three':
                fill += ' (' + ' '.join(num(_c(rng)) for _ in range(3)) + ')'
            else:
                star, entries = tr_entries(rng, 12, star=(how == 'star12'))
                fill = ('*' if star else '') + fill + ' (' + ' '.join(
                    num(v) for v in entries) + ')'
        cell['opts'] = fill
        for _ in range(rng.randint(1, 2)):
            sub = new_cell(lits_of(rng.randint(1, 2), 'facets' in features))
            sub['opts'] = f'u={univ}'
    if 'lat' in features or 'latopt' in features:
        lat_u, elem_u = next_u, next_u + 1
        next_u += 2
        ndim = rng.choice([1, 2, 2, 3])
        hexa = ndim >= 2 and rng.random() < 0.3
        planes = []
        base = (max(s['id'] for s in deck['surfs']) // 10 + 1) * 10
        if hexa:
            # hexagonal prism: three pairs of side planes 60 degrees apart,
            # optionally two axial planes
            half = 1.0 + rng.randrange(0, 4) / 8.0
            c60, s60 = 0.5, 0.8660254037844386
            normals = [(1.0, 0.0), (c60, s60), (-c60, s60)]
            k = 0
            for nx, ny in normals:
                for sign in (1, -1):
                    k += 1
                    if ny == 0.0:
                        surf = {'id': base + k, 'tr': None, 'mn': 'px',
                                'params': [sign * half]}
                    else:
                        surf = {'id': base + k, 'tr': None, 'mn': 'p',
                                'params': [nx, ny, 0.0, sign * half]}
                    deck['surfs'].append(surf)
                    planes.append([-surf['id'] if sign == 1 else surf['id'], None])
            if ndim == 3:
                for sign in (1, -1):
                    k += 1
                    surf = {'id': base + k, 'tr': None, 'mn': 'pz',
                            'params': [sign * 2.5]}
                    deck['surfs'].append(surf)
                    planes.append([-surf['id'] if sign == 1 else surf['id'], None])
        for axis in range(0 if hexa else ndim):
            lo = -0.5 - axis - rng.randrange(0, 4) / 8.0
            hi = 0.5 + axis + rng.randrange(0, 4) / 8.0
            mn = ['px', 'py', 'pz'][axis]
            a = {'id': base + 2 * axis + 1, 'tr': None, 'mn': mn, 'params': [hi]}
            b = {'id': base + 2 * axis + 2, 'tr': None, 'mn': mn, 'params': [lo]}
            deck['surfs'] += [a, b]
            if rng.random() < 0.3:
                planes += [[b['id'], None], [-a['id'], None]]
            else:
                planes += [[-a['id'], None], [b['id'], None]]
        ranges = []
        for axis in range(ndim):
            lo = rng.choice([-1, 0, 0])
            # one-point ranges among the leading ones are legal
            ranges.append((lo, lo + rng.choice([0, 1, 1, 2])))
        # trailing trivial ranges are what MCNP users write for 1-D/2-D lattices
        written = list(ranges)
        while len(written) < 3 and rng.random() < 0.5:
            written.append((0, 0))
        size = 1
        for lo, hi in written:
            size *= hi - lo + 1
        latcell = new_cell(planes)
        host = new_cell(lits_of(rng.randint(1, 2), False))
        host['opts'] = f'fill={lat_u}'
        if 'latopt' in features:
            latcell['opts'] = f'u={lat_u} lat={2 if hexa else 1} fill={elem_u}'
            deck['latopts'].append(f'{latcell["id"]},' + ','.join(
                f'{lo}:{hi}' for lo, hi in written))
        else:
            array = [rng.choice([elem_u, elem_u, lat_u, 0]) for _ in range(size)]
            if rng.random() < 0.3 and size > 2:
                # nR abbreviation
                array = [str(elem_u), f'{size - 1}r']
            latcell['opts'] = (f'u={lat_u} lat={2 if hexa else 1} fill='
                               + ' '.join(f'{lo}:{hi}' for lo, hi in written)
                               + ' ' + ' '.join(str(u) for u in array))
        if 'trcl' in features and not hexa and rng.random() < 0.4:
            # a lattice cell moved as a whole
            latcell['opts'] = latcell['opts'].replace(
                ' fill=', ' trcl=(' + ' '.join(
                    num(_c(rng)) for _ in range(3)) + ') fill=', 1)
        latcell['ranges'] = written
        latcell['ndim'] = ndim
        sub = new_cell(lits_of(rng.randint(1, 2), False))
        sub['opts'] = f'u={elem_u}'
    outside = new_cell(lits_of(1, False))
    outside['imp'] = 0
    outside['mat'], outside['rho'] = 0, None
    # importances
    if 'impcards' in features:
        deck['impcards'].append(['imp:n', [str(c['imp']) for c in cells]])
        if rng.random() < 0.5:
            deck['impcards'].append(['imp:p', [str(c['imp']) for c in cells]])
    else:
        for cell in cells:
            if cell.get('like') is None:
                cell['opts'] = (cell['opts'] + f' imp:n={cell["imp"]}').strip()
    deck['cells'] = cells
    deck['features'] = sorted(features)
    deck['fortran'] = rng.random() < 0.3
    # option sets that must not change what is accepted
    how = rng.random()
    if how < 0.45:
        deck['extra_args'] = rng.choice([
            ['--skip-geomcomp'], ['--skip-deduplication'],
            ['--skip-geomcomp', '--skip-deduplication'],
            ['--always-inline-filling'], ['--always-inline-filled'],
            ['--max-inline-score', '0.5']])
    if rng.random() < 0.15:
        deck['skipcomp'] = True
    if rng.random() < 0.1:
        deck['skipbc'] = True
    # reflecting / white flags: supported on surfaces made of one piece
    for surf in plain:
        one_piece = surf['mn'] not in MACROS or surf['mn'] in ('sph', 'ell')
        if one_piece and surf.get('tr') is None and rng.random() < 0.1:
            surf['bc'] = rng.choice(['*', '+'])
    return deck


# ---------------------------------------------------------------------------
# fault injection: every function returns [(faulted deck, where)] for the
# applicable cards of the deck (possibly none)
# ---------------------------------------------------------------------------
import copy


def _clone(deck):
    return copy.deepcopy(deck)


def _twelve(rng):
    '''Origin + rotation matrix with no row along a coordinate axis (so that
    its first one or two rows alone are a valid abbreviated matrix).'''
    import deck as D
    mat = D.matmul(D.rotation(0, rng.choice([30, 60, 120])),
                   D.matmul(D.rotation(1, rng.choice([45, 30, 150])),
                            D.rotation(2, rng.choice([60, 15, 210]))))
    tr = D.make_tr([_c(rng) for _ in range(3)], mat)
    return [float(v) for v in tr['print']]


def _angles12(rng):
    _, entries = tr_entries(rng, 12, star=True)
    return entries


def _set_opt(cell, old_re, new):
    '''Replace the part of the option string matching old_re by new (or append
    when old_re is None).'''
    if old_re is None:
        cell['opts'] = (new + ' ' + cell['opts']).strip()
    else:
        cell['opts'], n = re.subn(old_re, lambda _m: new, cell['opts'], count=1)
        assert n == 1, (old_re, cell['opts'])


FILL_N_RE = r'\*?fill=\d+( \([^)]*\))?'     # FILL=n with optional transformation
TRCL_RE = r'\*?trcl=(\d+|\([^)]*\))'


def f_tr_card_m(deck, rng):
    '''TR card with 13 entries and m != 1.'''
    out = []
    cards = list(range(len(deck['trs'])))
    for k in cards or [None]:
        d = _clone(deck)
        if k is None:
            d['trs'].append({'id': 77, 'star': False, 'entries': _twelve(rng)})
            k = 0
        tr = d['trs'][k]
        if len(tr['entries']) == 3:
            tr['entries'] += [1.0, 0.0, 0.0, 0.0, 1.0, 0.0, 0.0, 0.0, 1.0] \
                if not tr['star'] else [0.0, 90.0, 90.0, 90.0, 0.0, 90.0, 90.0, 90.0, 0.0]
        tr['entries'] = tr['entries'][:12] + [rng.choice([-1.0, -1.0, 0.0, 2.0])]
        out.append((d, f'tr{tr["id"]}'))
    return out


def f_tr_card_m_twin(deck, rng):
    '''A second TR card that differs from an earlier, valid one only by a 13th
    entry m != 1 (a result remembered for the first 12 entries must not hide
    the check).'''
    out = []
    for k, tr0 in enumerate(deck['trs']):
        d = _clone(deck)
        tr = d['trs'][k]
        if len(tr['entries']) == 3:
            tr['entries'] += [1.0, 0.0, 0.0, 0.0, 1.0, 0.0, 0.0, 0.0, 1.0] \
                if not tr['star'] else [0.0, 90.0, 90.0, 90.0, 0.0, 90.0, 90.0, 90.0, 0.0]
        twin = {'id': max(t['id'] for t in d['trs']) + 11, 'star': tr['star'],
                'entries': tr['entries'][:12] + [rng.choice([-1.0, -1.0, 0.0, 2.0])]}
        d['trs'].insert(k + 1 + rng.randrange(len(d['trs']) - k), twin)
        out.append((d, f'tr{twin["id"]} = tr{tr["id"]} with m={twin["entries"][-1]}'))
    return out


def f_inline_m_twin(deck, rng):
    '''TRCL=(... m) / FILL=n (... m), m != 1, repeating the twelve entries of a
    TR card of the deck or of a valid inline transformation of another cell.'''
    out = []
    cards = [t for t in deck['trs'] if not t['star'] and len(t['entries']) >= 12]
    for k in _trcl_candidates(deck)[:2]:
        d = _clone(deck)
        cell = d['cells'][k]
        if cards and rng.random() < 0.6:
            twelve = rng.choice(cards)['entries'][:12]
            origin = 'a TR card'
        else:
            # a valid twin on another cell of the same deck, parsed earlier
            twelve = _twelve(rng)
            others = [c for j, c in enumerate(d['cells'])
                      if j < k and j in _trcl_candidates(deck) and 'trcl' not in c['opts']]
            if not others:
                continue
            _set_opt(others[0], None, 'trcl=(' + ' '.join(num(v) for v in twelve) + ')')
            origin = f'cell {others[0]["id"]}'
        text = 'trcl=(' + ' '.join(num(v) for v in twelve) + ' -1)'
        if 'trcl' in cell['opts']:
            _set_opt(cell, TRCL_RE, text)
        else:
            _set_opt(cell, None, text)
        out.append((d, f'cell {cell["id"]} TRCL repeating {origin} with m=-1'))
    for k in _fill_cells(deck, lattice=False)[:1]:
        if not cards:
            break
        d = _clone(deck)
        cell = d['cells'][k]
        univ = re.search(r'fill=(\d+)', cell['opts']).group(1)
        twelve = rng.choice(cards)['entries'][:12]
        _set_opt(cell, FILL_N_RE, f'fill={univ} (' + ' '.join(num(v) for v in twelve) + ' -1)')
        out.append((d, f'cell {cell["id"]} FILL repeating a TR card with m=-1'))
    return out


# fault classes for which the un-faulted deck is converted first in the same
# process (a fault must not be hidden by state left by an earlier conversion)
AFTER_VALID = {'tr_card_m', 'tr_card_m_twin', 'inline_m_twin', 'inline_fill_m',
               'inline_trcl_m', 'mixed_fractions', 'facet_range'}


def _fill_cells(deck, lattice=None):
    out = []
    for k, cell in enumerate(deck['cells']):
        if re.search(r'fill=\d+( |$)', cell['opts']):
            is_lat = 'lat=' in cell['opts']
            if lattice is None or lattice == is_lat:
                out.append(k)
    return out


def f_inline_fill_m(deck, rng, star=False):
    '''FILL=n (o1 o2 o3 b1..b9 m) with m != 1, inline.'''
    out = []
    for k in _fill_cells(deck, lattice=False):
        d = _clone(deck)
        cell = d['cells'][k]
        univ = re.search(r'fill=(\d+)', cell['opts']).group(1)
        entries = (_angles12(rng) if star else _twelve(rng)) + [
            rng.choice([-1, -1, '-1+0', '-1.0d0', '-10.0-1'])]
        _set_opt(cell, FILL_N_RE, ('*' if star else '') + f'fill={univ} ('
                 + ' '.join(num(v) for v in entries) + ')')
        out.append((d, f'cell {cell["id"]}'))
    return out


def f_inline_fill_m_star(deck, rng):
    return f_inline_fill_m(deck, rng, star=True)


def _trcl_candidates(deck):
    '''Universe-0, unfilled, non-lattice cells with at least one literal whose
    first literal is not a quadric or torus.'''
    kinds = {s['id']: s['mn'] for s in deck['surfs']}
    out = []
    for k, cell in enumerate(deck['cells']):
        if re.search(r'fill|lat=|u=', cell['opts']) or not cell['lits']:
            continue
        if any(kinds[abs(l[0])] in ('sq', 'gq', 'tx', 'ty', 'tz')
               for l in cell['lits']):
            continue
        out.append(k)
    return out


def f_inline_trcl_m(deck, rng, star=False):
    '''TRCL=(o1 o2 o3 b1..b9 m) with m != 1, inline.'''
    out = []
    for k in _trcl_candidates(deck)[:3]:
        d = _clone(deck)
        cell = d['cells'][k]
        entries = (_angles12(rng) if star else _twelve(rng)) + [
            rng.choice([-1, -1, '-1+0', '-1.0d0', '-10.0-1'])]
        text = ('*' if star else '') + 'trcl=(' + ' '.join(
            num(v) for v in entries) + ')'
        if 'trcl' in cell['opts']:
            _set_opt(cell, TRCL_RE, text)
        else:
            _set_opt(cell, None, text)
        out.append((d, f'cell {cell["id"]}'))
    return out


def f_inline_trcl_m_star(deck, rng):
    return f_inline_trcl_m(deck, rng, star=True)


def f_like_trcl_m(deck, rng):
    '''LIKE n BUT TRCL=(13 entries, m != 1), starred or not.'''
    out = []
    for k, cell0 in enumerate(deck['cells']):
        if cell0.get('like') is None:
            continue
        d = _clone(deck)
        cell = d['cells'][k]
        star = rng.random() < 0.5
        entries = (_angles12(rng) if star else _twelve(rng)) + [
            rng.choice([-1, -1, '-1+0', '-1.0d0', '-10.0-1'])]
        cell['opts'] = ('*' if star else '') + 'trcl=(' + ' '.join(
            num(v) for v in entries) + ')'
        out.append((d, f'cell {cell["id"]} like {cell["like"]}'))
    return out


def _lat_cells(deck):
    return [k for k, c in enumerate(deck['cells']) if 'lat=' in c['opts']]


def f_lattice_no_opt(deck, rng):
    '''LAT=1 FILL=n lattice without its --lattice option.'''
    out = []
    for k in _lat_cells(deck):
        d = _clone(deck)
        cell = d['cells'][k]
        if re.search(r'fill=-?\d+:', cell['opts']):
            # array form -> homogeneous form, no option given
            _set_opt(cell, r'fill=[-0-9: r]*', 'fill=1 ')
            cell['opts'] = cell['opts'].replace('  ', ' ')
        d['latopts'] = [o for o in d['latopts']
                        if not o.startswith(f'{cell["id"]},')]
        out.append((d, f'cell {cell["id"]}'))
    return out


def _ranges_text(ranges):
    return ' '.join(f'{lo}:{hi}' for lo, hi in ranges)


def f_lattice_dims(deck, rng):
    '''Ranges of the wrong dimensionality for the lattice cell: fewer ranges
    than lattice directions, or more with a different number of non-trivial
    ones.'''
    out = []
    for k in _lat_cells(deck):
        cell0 = deck['cells'][k]
        ndim = cell0['ndim']
        choices = []
        for nd in range(1, ndim):
            choices.append([(0, 1)] * nd)               # too few ranges
            choices.append([(0, rng.choice([0, 2]))] * nd)
        for nd in range(ndim + 1, 4):
            choices.append([(0, 1)] * nd)               # too many non-trivial
            if nd - 2 >= 1 and nd - 2 != ndim:
                choices.append([(0, 0)] * 2 + [(0, 1)] * (nd - 2))
        if ndim == 1:
            choices.append([(0, 0), (0, 1), (0, 1)])
        for ranges in rng.sample(choices, min(2, len(choices))):
            d = _clone(deck)
            cell = d['cells'][k]
            _set_ranges(d, cell, ranges)
            out.append((d, f'cell {cell["id"]} ranges {ranges} ndim {ndim}'))
    return out


def _set_ranges(d, cell, ranges):
    size = 1
    for lo, hi in ranges:
        size *= hi - lo + 1
    if re.search(r'fill=-?\d+:', cell['opts']):
        m = re.search(r'fill=((?:-?\d+:-?\d+ )+)(\d+)', cell['opts'])
        univ = m.group(2)
        _set_opt(cell, r'fill=[-0-9: r]*', 'fill=' + _ranges_text(ranges)
                 + ' ' + ' '.join([univ] * size) + ' ')
        cell['opts'] = cell['opts'].strip()
    else:
        d['latopts'] = [o for o in d['latopts']
                        if not o.startswith(f'{cell["id"]},')]
        d['latopts'].append(f'{cell["id"]},' + ','.join(
            f'{lo}:{hi}' for lo, hi in ranges))
    cell['ranges'] = ranges


def f_lattice_trailing(deck, rng):
    '''Leading trivial ranges and trailing non-trivial ones for a lattice of
    lower dimensionality (e.g. 0:0 0:1 0:1 for an x-y lattice): the number of
    non-trivial ranges is right, the surplus range is not trivial.'''
    out = []
    for k in _lat_cells(deck):
        ndim = deck['cells'][k]['ndim']
        if ndim == 3:
            continue
        ranges = [(0, 0)] * (3 - ndim) + [(0, 1)] * ndim
        d = _clone(deck)
        cell = d['cells'][k]
        _set_ranges(d, cell, ranges)
        out.append((d, f'cell {cell["id"]} ranges {ranges} ndim {ndim}'))
    return out


def f_surface_arity(deck, rng):
    '''Wrong number of parameters on an elementary surface card.'''
    out = []
    cands = [k for k, s in enumerate(deck['surfs']) if s['mn'] not in MACROS]
    for k in rng.sample(cands, min(3, len(cands))):
        d = _clone(deck)
        surf = d['surfs'][k]
        ok = MCNP_ARITY[surf['mn']]
        n = len(surf['params'])
        delta = rng.choice([-1, 1, 1, 2, 3])
        m = n + delta
        while m in ok or m < 1:
            m += 1
        if m < n:
            surf['params'] = surf['params'][:m]
        else:
            surf['params'] = surf['params'] + filler_params(m - n, rng)
        out.append((d, f'surface {surf["id"]} {surf["mn"]} with {m} parameters'))
    return out


def f_macro_arity(deck, rng):
    out = []
    cands = [k for k, s in enumerate(deck['surfs']) if s['mn'] in MACROS]
    for k in rng.sample(cands, min(3, len(cands))):
        d = _clone(deck)
        surf = d['surfs'][k]
        ok = MCNP_ARITY[surf['mn']]
        n = len(surf['params'])
        m = n + rng.choice([-1, 1, -2, 2, 3])
        while m in ok or m < 1:
            m += 1
        surf['params'] = surf['params'][:m] if m < n \
            else surf['params'] + filler_params(m - n, rng)
        out.append((d, f'macrobody {surf["id"]} {surf["mn"]} with {m} parameters'))
    return out


UNKNOWN_MN = ['foo', 'pw', 'cc', 'sxx', 'rc', 'boxx', 'k/w', 'c/', 'q', 'gqq',
              'tor', 'w', 'pp', 'hexa']


def f_unknown_mnemonic(deck, rng):
    out = []
    for k in rng.sample(range(len(deck['surfs'])), min(2, len(deck['surfs']))):
        d = _clone(deck)
        surf = d['surfs'][k]
        surf['mn'] = rng.choice(UNKNOWN_MN)
        out.append((d, f'surface {surf["id"]} mnemonic {surf["mn"]}'))
    return out


def _plain_cells(deck):
    '''Universe-0 cells without FILL/LAT/TRCL and not referenced by #n of a
    transformed cell: their literals go through pot_expand_surfs.'''
    out = []
    for k, cell in enumerate(deck['cells']):
        if re.search(r'fill|lat=|u=|trcl', cell['opts']) or not cell['lits']:
            continue
        if re.search(r'imp:n=0', cell['opts']) or cell.get('imp') == 0:
            continue
        out.append(k)
    return out


def f_facet_range(deck, rng, zero=False):
    '''Facet index beyond the facets of the surface (k = n+1, n+2, ...).'''
    out = []
    surfs = {s['id']: s for s in deck['surfs']}
    for k in _plain_cells(deck)[:3]:
        d = _clone(deck)
        cell = d['cells'][k]
        j = rng.randrange(len(cell['lits']))
        surf = surfs[abs(cell['lits'][j][0])]
        nfac = n_facets(surf)
        cone2 = (surf['mn'] in ('k/x', 'k/y', 'k/z') and len(surf['params']) == 5) \
            or (surf['mn'] in ('kx', 'ky', 'kz') and len(surf['params']) == 3) \
            or (surf['mn'] in ('x', 'z') and len(surf['params']) == 4)
        if surf['mn'] not in MACROS:
            # MCNP has facets on macrobodies only; the converter numbers the
            # TRIPOLI-4 pieces of a one-nappe cone too
            nfac = 2 if cone2 else 1
        cell['lits'][j][1] = 0 if zero else min(9, nfac + rng.choice([1, 1, 2, 5]))
        out.append((d, f'cell {cell["id"]} literal {lit_text(cell["lits"][j])} '
                       f'({surf["mn"]}, {nfac} facets)'))
    return out


def f_facet_zero(deck, rng):
    return f_facet_range(deck, rng, zero=True)


def f_facet_range_trcl(deck, rng):
    '''Facet beyond the range in a cell that carries a TRCL.'''
    out = []
    surfs = {s['id']: s for s in deck['surfs']}
    for k, cell0 in enumerate(deck['cells']):
        if 'trcl' not in cell0['opts'] or not cell0['lits']:
            continue
        d = _clone(deck)
        cell = d['cells'][k]
        surf = surfs[abs(cell['lits'][0][0])]
        cell['lits'][0][1] = min(9, n_facets(surf) + rng.choice([1, 2, 7]))
        out.append((d, f'cell {cell["id"]} literal {lit_text(cell["lits"][0])}'))
    return out


def f_facet_range_skipped(deck, rng):
    '''Facet beyond the range in a cell that is not converted: importance 0.'''
    out = []
    surfs = {s['id']: s for s in deck['surfs']}
    for k, cell0 in enumerate(deck['cells']):
        if cell0.get('imp') != 0 or not cell0['lits'] or 'u=' in cell0['opts']:
            continue
        d = _clone(deck)
        cell = d['cells'][k]
        surf = surfs[abs(cell['lits'][0][0])]
        cell['lits'][0][1] = min(9, n_facets(surf) + rng.choice([2, 3]))
        out.append((d, f'cell {cell["id"]} (importance 0) literal '
                       f'{lit_text(cell["lits"][0])}'))
    return out


def f_facet_range_filler(deck, rng):
    '''Facet beyond the range in a cell of a universe that fills a cell of
    the real world (directly, not through a lattice).'''
    out = []
    surfs = {s['id']: s for s in deck['surfs']}
    used = set()
    for cell in deck['cells']:
        m = re.search(r'fill=(\d+)( |$)', cell['opts'])
        if m and 'lat=' not in cell['opts'] and 'u=' not in cell['opts']:
            used.add(m.group(1))
    for k, cell0 in enumerate(deck['cells']):
        m = re.search(r'u=(\d+)', cell0['opts'])
        if not m or m.group(1) not in used or not cell0['lits'] \
                or re.search(r'fill|lat=', cell0['opts']):
            continue
        d = _clone(deck)
        cell = d['cells'][k]
        j = rng.randrange(len(cell['lits']))
        surf = surfs[abs(cell['lits'][j][0])]
        cell['lits'][j][1] = min(9, n_facets(surf) + rng.choice([2, 3]))
        out.append((d, f'cell {cell["id"]} (u={m.group(1)}) literal '
                       f'{lit_text(cell["lits"][j])}'))
    return out


def f_flagged_macrobody(deck, rng):
    '''Boundary flag on a macrobody made of several surfaces (unsupported),
    under any option set that still writes the boundary conditions.'''
    out = []
    cands = [k for k, s in enumerate(deck['surfs'])
             if s['mn'] in MACROS and s['mn'] not in ('sph', 'ell')]
    for k in rng.sample(cands, min(2, len(cands))):
        d = _clone(deck)
        d['surfs'][k]['bc'] = rng.choice(['*', '+'])
        d['skipbc'] = False
        if rng.random() < 0.6:
            d['extra_args'] = rng.choice([['--skip-geomcomp'],
                                          ['--skip-geomcomp', '--skip-deduplication'],
                                          ['--skip-deduplication']])
            d['skipcomp'] = rng.random() < 0.4
        out.append((d, f'surface {d["surfs"][k]["id"]} {d["surfs"][k]["mn"]} flagged '
                       f'{d["surfs"][k]["bc"]} options {cli_args(d)}'))
    return out


def f_facet_zero_trcl(deck, rng):
    '''Facet 0 in a cell that carries a TRCL (looked up in the MCNP surface
    dictionary, which refuses it).'''
    out = []
    for k, cell0 in enumerate(deck['cells']):
        if 'trcl' not in cell0['opts'] or not cell0['lits']:
            continue
        d = _clone(deck)
        cell = d['cells'][k]
        j = rng.randrange(len(cell['lits']))
        cell['lits'][j][1] = 0
        out.append((d, f'cell {cell["id"]} literal {lit_text(cell["lits"][j])}'))
    return out


def f_tr_card_arity(deck, rng):
    '''TR card with a number of entries that is no transformation (4, 5, 7,
    8, 10, 11 entries).'''
    out = []
    for k in range(len(deck['trs'])):
        d = _clone(deck)
        tr = d['trs'][k]
        full = tr['entries'] if len(tr['entries']) >= 12 else \
            tr['entries'][:3] + _twelve(rng)[3:]
        tr['entries'] = full[:rng.choice([4, 5, 7, 8, 10, 11])]
        out.append((d, f'tr{tr["id"]} with {len(tr["entries"])} entries'))
    return out


def f_tr_card_short(deck, rng):
    '''TR card with one or two entries (legal MCNP: missing entries are 0; the
    converter keeps a 10/11-entry list that fails only where it is used).
    Not a fault of the property: exercised for the correspondence only.'''
    out = []
    for k in range(len(deck['trs'])):
        d = _clone(deck)
        tr = d['trs'][k]
        tr['entries'] = tr['entries'][:rng.choice([1, 2])]
        tr['star'] = False
        out.append((d, f'tr{tr["id"]} with {len(tr["entries"])} entries'))
    return out


NEUTRAL = {'tr_card_short'}
# fault classes whose outcome depends on geometry the validation model does not
# hold (C07 models the hexagon walk, C02 the numbering of cone pieces): swept
# with the property oracle, not compared with the model
SWEEP_ONLY = {'hex_nonprism', 'cone_selector'}


def f_hex_nonprism(deck, rng):
    '''LAT=2 cell bounded by six planes that are no hexagonal prism (the first
    two are not even parallel).'''
    out = []
    for k in _lat_cells(deck):
        cell0 = deck['cells'][k]
        if 'lat=2' not in cell0['opts'] or cell0['ndim'] != 2:
            continue
        d = _clone(deck)
        cell = d['cells'][k]
        ids = [abs(l[0]) for l in cell['lits']]
        surfs = {s['id']: s for s in d['surfs']}
        while True:
            normals = [[rng.choice([-1.0, 0.0, 1.0, 0.5, -0.5, 2.0]) for _ in range(3)]
                       for _ in range(6)]
            a, b = normals[0], normals[1]
            cross = (a[1] * b[2] - a[2] * b[1], a[2] * b[0] - a[0] * b[2],
                     a[0] * b[1] - a[1] * b[0])
            if all(any(n) for n in normals) and any(cross):
                break
        for sid, nrm in zip(ids, normals):
            surfs[sid]['mn'] = 'p'
            surfs[sid]['params'] = nrm + [rng.choice([-2.0, -1.0, -0.5, 0.5, 1.0, 1.5, 2.0])]
        cell['lits'] = [[rng.choice([1, -1]) * sid, None] for sid in ids]
        out.append((d, f'cell {cell["id"]} six arbitrary planes'))
    return out


def f_cone_selector(deck, rng):
    '''One-sheet selector of a cone card that is not +1 / -1.'''
    out = []
    for k, surf0 in enumerate(deck['surfs']):
        n = len(surf0['params'])
        if not ((surf0['mn'] in ('kx', 'ky', 'kz') and n in (2, 3))
                or (surf0['mn'] in ('k/x', 'k/y', 'k/z') and n in (4, 5))):
            continue
        d = _clone(deck)
        surf = d['surfs'][k]
        base = 2 if surf['mn'] in ('kx', 'ky', 'kz') else 4
        surf['params'] = surf['params'][:base] + [rng.choice([2.0, -2.0, 3.0, -3.0, 5.0])]
        out.append((d, f'surface {surf["id"]} {surf["mn"]} selector {surf["params"][-1]}'))
    return out[:3]


def _array_cells(deck):
    return [k for k, c in enumerate(deck['cells'])
            if re.search(r'fill=-?\d+:', c['opts'])]


def f_fill_array_len(deck, rng, delta=None):
    '''FILL array shorter/longer than its ranges.'''
    out = []
    for k in _array_cells(deck):
        deltas = [delta] if delta is not None else \
            rng.sample([-1, -2, 1, 2, 4, 5, 7], 3)
        for dl in deltas:
            d = _clone(deck)
            cell = d['cells'][k]
            m = re.search(r'fill=((?:-?\d+:-?\d+ )+)([-0-9r ]*?)( imp|$)', cell['opts'])
            ranges, array = m.group(1), m.group(2).split()
            if any(t.endswith('r') for t in array):
                univ = array[0]
                size = 1
                for lo, hi in cell['ranges']:
                    size *= hi - lo + 1
                array = [univ] * size
            if dl < 0:
                if len(array) + dl < 1:
                    continue
                array = array[:dl]
            else:
                # surplus values: 1 would be read as a TR number
                array = array + [str(rng.choice([40, 41, 45]))] * dl
            _set_opt(cell, r'fill=((?:-?\d+:-?\d+ )+)([-0-9r ]*?)(?= imp|$)',
                     'fill=' + ranges + ' '.join(array))
            out.append((d, f'cell {cell["id"]} array length {dl:+d}'))
    return out


def f_fill_array_plus3(deck, rng):
    return f_fill_array_len(deck, rng, delta=3)


def f_fill_array_surplus_tr(deck, rng):
    '''Surplus array entries that happen to be a transformation: one entry
    naming an existing TR card, or 6 / 9 / 12 entries of a rotation.'''
    out = []
    for k in _array_cells(deck):
        for how in ('trnum', 'matrix'):
            d = _clone(deck)
            cell = d['cells'][k]
            m = re.search(r'fill=((?:-?\d+:-?\d+ )+)([-0-9r ]*?)( imp|$)', cell['opts'])
            ranges, array = m.group(1), m.group(2).split()
            if how == 'trnum':
                if not d['trs']:
                    continue
                extra = [str(rng.choice(d['trs'])['id'])]
            else:
                extra = [num(v) for v in _twelve(rng)[:rng.choice([6, 9, 12])]]
            _set_opt(cell, r'fill=((?:-?\d+:-?\d+ )+)([-0-9r ]*?)(?= imp|$)',
                     'fill=' + ranges + ' '.join(array + extra))
            out.append((d, f'cell {cell["id"]} array followed by {" ".join(extra)}'))
    return out


def f_imp_unequal(deck, rng):
    '''IMP cards of unequal lengths.'''
    d = _clone(deck)
    n = len(d['cells'])
    if not d['impcards']:
        for cell in d['cells']:
            cell['opts'] = re.sub(r' ?imp:n=\d+', '', cell['opts']).strip()
        d['impcards'].append(['imp:n', [str(c['imp']) for c in d['cells']]])
    if len(d['impcards']) == 1:
        d['impcards'].append(['imp:p', [str(c['imp']) for c in d['cells']]])
    k = rng.randrange(2)
    toks = d['impcards'][k][1]
    if rng.random() < 0.5 and len(toks) > 1:
        d['impcards'][k][1] = toks[:-rng.choice([1, min(2, len(toks) - 1)])]
    else:
        d['impcards'][k][1] = toks + ['1'] * rng.choice([1, 2])
    return [(d, f'{d["impcards"][k][0]} with {len(d["impcards"][k][1])} '
                f'entries for {n} cells')]


def f_imp_short(deck, rng):
    '''A single IMP card shorter than the number of cells (no inline IMP).'''
    d = _clone(deck)
    for cell in d['cells']:
        cell['opts'] = re.sub(r' ?imp:n=\d+', '', cell['opts']).strip()
    vals = [str(c['imp']) for c in d['cells']]
    d['impcards'] = [['imp:n', vals[:-rng.choice([1, 1, 2])] or ['1']]]
    if len(d['impcards'][0][1]) >= len(vals):
        return []
    return [(d, f'imp:n with {len(d["impcards"][0][1])} entries for '
                f'{len(vals)} cells')]


def f_mixed_fractions(deck, rng):
    d = _clone(deck)
    d['skipcomp'] = False
    if not d['mats']:
        d['mats'].append([rng.randint(50, 60), gen_material(rng)])
    k = rng.randrange(len(d['mats']))
    toks = d['mats'][k][1]
    idx = [i for i, t in enumerate(toks) if '=' not in t]
    fracs = idx[1::2]
    if len(fracs) < 2:
        toks += ['8016', toks[fracs[0]]]
        idx = [i for i, t in enumerate(toks) if '=' not in t]
        fracs = idx[1::2]
    # flip a later fraction (first one keeps the sign of the card), or the
    # first one: both orders of the two signs occur
    j = rng.choice(fracs[1:]) if rng.random() < 0.7 else fracs[0]
    toks[j] = toks[j][1:] if toks[j].startswith('-') else '-' + toks[j]
    return [(d, f'm{d["mats"][k][0]} fraction {toks[j]}')]


BAD_LATOPT = ['{c}', '{c},', '{c},0:1,0:1,0:1,0:1', 'x{c},0:1', '{c},0-1',
              '{c},0:1:2', '{c},0:1.5', '{c},a:b', '{c};0:1', '{c},0:1,0:',
              '{c} 0:1', ',0:1', '{c},0:1,,0:1', '{c}.0,0:1', '{c},0:1e1']


def f_latopt_malformed(deck, rng):
    '''Malformed --lattice argument.'''
    out = []
    cells = _lat_cells(deck)
    cid = deck['cells'][cells[0]]['id'] if cells else deck['cells'][0]['id']
    for tmpl in rng.sample(BAD_LATOPT, 3):
        d = _clone(deck)
        d['latopts'] = list(d['latopts']) + [tmpl.format(c=cid)]
        if rng.random() < 0.5:
            d['latopts'].reverse()
        out.append((d, f'--lattice {tmpl.format(c=cid)!r}'))
    return out


def f_lattice_nsurf(deck, rng):
    '''Lattice cell bounded by an odd number of planes.'''
    out = []
    for k in _lat_cells(deck):
        d = _clone(deck)
        cell = d['cells'][k]
        if rng.random() < 0.5 and len(cell['lits']) > 1:
            cell['lits'] = cell['lits'][:-1]
        else:
            extra = [s for s in d['surfs'] if s['mn'] in ('px', 'py', 'pz', 'p')
                     and all(abs(l[0]) != s['id'] for l in cell['lits'])]
            if not extra:
                continue
            cell['lits'].append([-extra[0]['id'], None])
        out.append((d, f'cell {cell["id"]} with {len(cell["lits"])} surfaces'))
    return out


# class name -> (injector, features the deck needs, narrow known-finding
# classifier or None)
FAULTS = {
    'tr_card_m': (f_tr_card_m, ['tr']),
    'tr_card_m_twin': (f_tr_card_m_twin, ['tr']),
    'inline_m_twin': (f_inline_m_twin, ['tr', 'fill']),
    'inline_fill_m': (f_inline_fill_m, ['fill']),
    'inline_fill_m_star': (f_inline_fill_m_star, ['fill']),
    'inline_trcl_m': (f_inline_trcl_m, []),
    'inline_trcl_m_star': (f_inline_trcl_m_star, []),
    'like_trcl_m': (f_like_trcl_m, ['like']),
    'lattice_no_opt': (f_lattice_no_opt, ['lat']),
    'lattice_dims': (f_lattice_dims, ['lat']),
    'lattice_trailing': (f_lattice_trailing, ['lat']),
    'lattice_nsurf': (f_lattice_nsurf, ['lat']),
    'surface_arity': (f_surface_arity, []),
    'macro_arity': (f_macro_arity, []),
    'unknown_mnemonic': (f_unknown_mnemonic, []),
    'flagged_macrobody': (f_flagged_macrobody, []),
    'facet_range': (f_facet_range, ['facets']),
    'facet_zero': (f_facet_zero, ['facets']),
    'facet_range_trcl': (f_facet_range_trcl, ['trcl', 'facets']),
    'facet_zero_trcl': (f_facet_zero_trcl, ['trcl']),
    'facet_range_skipped': (f_facet_range_skipped, []),
    'facet_range_filler': (f_facet_range_filler, ['fill']),
    'tr_card_arity': (f_tr_card_arity, ['tr']),
    'tr_card_short': (f_tr_card_short, ['tr']),
    'hex_nonprism': (f_hex_nonprism, ['lat']),
    'cone_selector': (f_cone_selector, []),
    'fill_array_len': (f_fill_array_len, ['lat']),
    'fill_array_plus3': (f_fill_array_plus3, ['lat']),
    'fill_array_surplus_tr': (f_fill_array_surplus_tr, ['lat', 'tr']),
    'imp_unequal': (f_imp_unequal, []),
    'imp_short': (f_imp_short, []),
    'mixed_fractions': (f_mixed_fractions, ['mats']),
    'latopt_malformed': (f_latopt_malformed, []),
}
