'''C11 helper: line coverage of the anchored Python functions of C11
(sys.settrace restricted to their code objects) while the hand-written corpora
run.  Lines outside the property's input language are listed, by their source
text, in UNREACHABLE; every other line must be executed at least once.'''
import linecache
import sys
import types


def _codes(func):
    out, stack = [func.__code__], [func.__code__]
    while stack:
        for const in stack.pop().co_consts:
            if isinstance(const, types.CodeType):
                out.append(const)
                stack.append(const)
    return out


class LineCov:
    def __init__(self, funcs):
        self.codes = {}
        for func in funcs:
            func = getattr(func, '__func__', func)
            for code in _codes(func):
                self.codes[code] = func.__qualname__
        self.hit = {code: set() for code in self.codes}
        self._prev = None

    def _global(self, frame, event, arg):
        if frame.f_code in self.codes:
            self.hit[frame.f_code].add(frame.f_lineno)
            return self._local
        return None

    def _local(self, frame, event, arg):
        if event == 'line':
            self.hit[frame.f_code].add(frame.f_lineno)
        return self._local

    def __enter__(self):
        self._prev = sys.gettrace()
        sys.settrace(self._global)
        return self

    def __exit__(self, *exc):
        sys.settrace(self._prev)
        return False

    def missing(self, unreachable):
        '''(number of executable lines, [(qualname, lineno, text)] never hit)'''
        out, total = [], 0
        for code, name in self.codes.items():
            lines = {ln for _, _, ln in code.co_lines() if ln is not None}
            lines.discard(code.co_firstlineno)
            total += len(lines)
            for ln in sorted(lines - self.hit[code]):
                text = linecache.getline(code.co_filename, ln).strip()
                if not text or any(pat in text for pat in unreachable):
                    continue
                out.append((name, ln, text))
        return total, out


UNREACHABLE = [
    # LIKE n BUT cards: C15's input language
    "return geom.split()[1]", "name, geom, opts = re_likebut.findall(txt)[0]",
    "mat = ''",
    # extract_surfaces_list called on a bare Cell: never happens, a Cell only
    # occurs inside ('^', Cell), which returns before looking at it
    "return []",
]


def anchored_functions():
    '''(functions found, names not present).  Names are resolved tolerantly:
    a helper a rewrite renamed or removed is only reported.'''
    import importlib
    wanted = [
        ('MIP.geom.parsegeom', ['normalize', 'get_ast']),
        ('MIP.geom.semantics', ['GeomSemantics.surface', 'GeomSemantics.complcell',
                                'GeomSemantics.operand', 'GeomSemantics.isect',
                                'GeomSemantics.union', 'GeomExpression.inverse',
                                'Surface.inverse', 'Surface.__init__',
                                'Surface.__neg__']),
        ('MIP.geom.main', ['extract_surfaces_list']),
        ('MIP.mip.cellcard', ['split']),
        ('t4_geom_convert.Kernel.Volume.CellConversion',
         ['CellConversion.pot_complement']),
    ]
    funcs, missing = [], []
    for modname, names in wanted:
        try:
            mod = importlib.import_module(modname)
        except Exception:               # noqa: BLE001
            missing.extend(f'{modname}.{n}' for n in names)
            continue
        for name in names:
            obj = mod
            for part in name.split('.'):
                obj = getattr(obj, part, None)
                if obj is None:
                    break
            if obj is None or not hasattr(getattr(obj, '__func__', obj),
                                          '__code__'):
                missing.append(f'{modname}.{name}')
            else:
                funcs.append(obj)
    return funcs, missing
