'''Property-level geometry oracle: a written file against the reference
semantics of the abstract deck it was converted from, at sample points.'''
import re

import numpy as np

import impl
import mcnpref
import t4eval


def parse_provenance(comment):
    '''"(1, 10); (1, 20)" -> [(1, 10), (1, 20)]'''
    return [tuple(int(x) for x in m.groups())
            for m in re.finditer(r'\((-?\d+),\s*(-?\d+)\)', comment)]


def sample_points(rng, n, half=5.0):
    pts = []
    for _ in range(n):
        mode = rng.random()
        if mode < 0.7:
            pts.append([rng.uniform(-half, half) for _ in range(3)])
        elif mode < 0.85:
            # on a coarse grid shifted off the typical surface positions
            pts.append([rng.choice([-2.2, -1.3, -0.7, -0.2, 0.3, 0.8, 1.2,
                                    1.7, 2.3]) for _ in range(3)])
        else:
            pts.append([rng.gauss(0, 1.5) for _ in range(3)])
    return pts


def expected_leaf(ref, chain):
    '''(leaf cell id or None, level-0 cell id)'''
    if chain is None:
        return None, None
    top = chain[0][0]
    if chain[-1] is None:
        return None, top
    return chain[-1][0], top


def importance_zero(cell):
    imp = cell.get('imp')
    if imp is None:
        return False
    return all(v == 0 for v in imp.values())


def compare(deck, t4, points, check_ids=True, eps=1e-6):
    '''Returns (n_checked, failures). A failure is a dict with the point and a
    description. Points that are ambiguous for either evaluator are skipped.'''
    ref = mcnpref.Reference(deck, eps=eps)
    ev = t4eval.Evaluator(t4, eps=eps)
    comp_of = {}
    for name, vols in t4.geomcomp:
        for vid in vols:
            comp_of.setdefault(vid, []).append(name)
    failures = []
    checked = 0
    for p in points:
        try:
            chain = ref.locate(np.array(p, float))
        except mcnpref.Ambiguous:
            continue
        try:
            owners = ev.owners(p)
        except t4eval.T4EvalError as exc:
            if 'within eps' in str(exc):
                continue
            failures.append({'point': list(p), 'why': f'T4 evaluation: {exc}'})
            continue
        checked += 1
        leaf, top = expected_leaf(ref, chain)
        live = leaf is not None and not importance_zero(ref.resolve(top))
        if not live:
            if owners:
                failures.append({'point': list(p), 'why':
                                 f'point owned by no live MCNP cell (chain '
                                 f'{chain}) lies in volume(s) {owners}'})
            continue
        if len(owners) != 1:
            failures.append({'point': list(p), 'why':
                             f'point of MCNP cell chain {chain} lies in '
                             f'{len(owners)} volumes {owners}'})
            continue
        vid = owners[0]
        vol = t4.volumes[vid]
        if check_ids and len(chain) == 1 and vid != leaf:
            failures.append({'point': list(p), 'why':
                             f'point of level-0 cell {leaf} lies in volume '
                             f'{vid}'})
            continue
        prov = parse_provenance(vol['comment'])
        if check_ids and len(chain) > 1:
            if not prov or prov[0][0] != leaf:
                has_lat = any(idx is not None for _, idx in chain
                              if _ is not None) if chain[-1] is not None \
                    else False
                if not has_lat:
                    failures.append({'point': list(p), 'why':
                                     f'chain {chain}: volume {vid} has '
                                     f'provenance {prov}, expected leaf '
                                     f'{leaf} first'})
                    continue
        # composition
        if t4.geomcomp:
            cell = ref.resolve(leaf)
            lat_own = chain[-1][1] is not None   # lattice filled by itself
            names = comp_of.get(vid, [])
            if len(names) != 1:
                failures.append({'point': list(p), 'why':
                                 f'volume {vid} is in {len(names)} GEOMCOMP '
                                 'lines'})
                continue
            want = expected_comp_name(cell)
            if want is not None and not lat_own and names[0] != want:
                failures.append({'point': list(p), 'why':
                                 f'volume {vid} (leaf cell {leaf}) is '
                                 f'attached to {names[0]}, expected {want}'})
    return checked, failures


def expected_comp_name(cell):
    '''m<material>_<density>, modulo the spelling of the density (compared
    numerically by the callers that care: C09).'''
    if cell['mat'] == 0:
        return 'm0'
    return None    # spelling-dependent; checked by C09's own oracle


def convert_and_compare(deck, rng, extra_args=(), n_points=300, **kw):
    '''Returns (conv, t4 or None, checked, failures).'''
    import deck as deckmod
    text = deckmod.render(deck)
    args = list(extra_args) + deckmod.lattice_args(deck)
    conv = impl.convert(text, args)
    if not conv.ok or conv.text is None:
        return conv, None, 0, []
    t4 = impl.T4File(conv.text)
    pts = sample_points(rng, n_points)
    checked, failures = compare(deck, t4, pts, **kw)
    return conv, t4, checked, failures
