'''Line coverage of the anchored Python functions of C15 during the tied calls
(sys.settrace restricted to those code objects).  Lines the tied calls cannot
reach are listed, by their source text, in UNREACHABLE with the reason;
everything else must be executed at least once per run.'''
import linecache
import sys
import types


def _codes(func):
    out, stack = [func.__code__], [func.__code__]
    while stack:
        cur = stack.pop()
        for const in cur.co_consts:
            if isinstance(const, types.CodeType):
                out.append(const)
                stack.append(const)
    return out


class LineCov:
    def __init__(self, funcs):
        self.codes = {}
        for func in funcs:
            func = getattr(func, '__func__', func)
            for code in _codes(func):
                self.codes[code] = func.__qualname__
        self.hit = {code: set() for code in self.codes}
        self._prev = None

    def _global(self, frame, event, arg):
        if frame.f_code in self.codes:
            self.hit[frame.f_code].add(frame.f_lineno)
            return self._local
        return None

    def _local(self, frame, event, arg):
        if event == 'line':
            self.hit[frame.f_code].add(frame.f_lineno)
        return self._local

    def __enter__(self):
        self._prev = sys.gettrace()
        sys.settrace(self._global)
        return self

    def __exit__(self, *exc):
        sys.settrace(self._prev)
        return False

    def missing(self, unreachable):
        out, total = [], 0
        for code, name in self.codes.items():
            lines = {ln for _, _, ln in code.co_lines() if ln is not None}
            lines.discard(code.co_firstlineno)
            total += len(lines)
            for ln in sorted(lines - self.hit[code]):
                text = linecache.getline(code.co_filename, ln).strip()
                if any(pat in text for pat in unreachable):
                    continue
                out.append((name, ln, text))
        return total, out


UNREACHABLE = []


MISSING = []     # anchored names that the repository no longer has (information)


def anchored_functions():
    '''The functions named by the anchors of C15, resolved tolerantly: a name
    that a rewrite removed or renamed is skipped and recorded, never an error
    (coverage is information only).'''
    funcs = []
    del MISSING[:]
    try:
        from MIP.mip import cellcard
        funcs.append(cellcard.split)
    except Exception:                          # pylint: disable=broad-except
        MISSING.append('cellcard.split')
    try:
        from t4_geom_convert.Kernel.FileHandlers.Parser.ParseMCNPCell import \
            ParseMCNPCell as P
    except Exception:                          # pylint: disable=broad-except
        MISSING.append('ParseMCNPCell')
        return funcs
    for name in ('parse_all_cells', 'parse_one_cell', 'parse_one_cell_worker',
                 'parse_material', 'apply_but', 'to_fillid', 'parse_keywords',
                 'parse_fill_kw', 'parse_lat_kw', 'parse_trcl_kw'):
        func = getattr(P, name, None)
        func = getattr(func, '__func__', func)
        if func is None or not hasattr(func, '__code__'):
            MISSING.append('ParseMCNPCell.' + name)
        else:
            funcs.append(func)
    return funcs
