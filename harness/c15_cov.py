'''Line coverage of the anchored Python functions of C15 during the tied calls
(sys.settrace restricted to those code objects).  Lines the tied calls cannot
reach are listed, by their source text, in UNREACHABLE with the reason;
everything else must be executed at least once per run.'''
import linecache
import sys
import types


def _codes(func):
    out, stack = [func.__code__], [func.__code__]
    while stack:
        cur = stack.pop()
        for const in cur.co_consts:
            if isinstance(const, types.CodeType):
                out.append(const)
                stack.append(const)
    return out


class LineCov:
    def __init__(self, funcs):
        self.codes = {}
        for func in funcs:
            func = getattr(func, '__func__', func)
            for code in _codes(func):
                self.codes[code] = func.__qualname__
        self.hit = {code: set() for code in self.codes}
        self._prev = None

    def _global(self, frame, event, arg):
        if frame.f_code in self.codes:
            self.hit[frame.f_code].add(frame.f_lineno)
            return self._local
        return None

    def _local(self, frame, event, arg):
        if event == 'line':
            self.hit[frame.f_code].add(frame.f_lineno)
        return self._local

    def __enter__(self):
        self._prev = sys.gettrace()
        sys.settrace(self._global)
        return self

    def __exit__(self, *exc):
        sys.settrace(self._prev)
        return False

    def missing(self, unreachable):
        out, total = [], 0
        for code, name in self.codes.items():
            lines = {ln for _, _, ln in code.co_lines() if ln is not None}
            lines.discard(code.co_firstlineno)
            total += len(lines)
            for ln in sorted(lines - self.hit[code]):
                text = linecache.getline(code.co_filename, ln).strip()
                if any(pat in text for pat in unreachable):
                    continue
                out.append((name, ln, text))
        return total, out


UNREACHABLE = []


def anchored_functions():
    from MIP.mip import cellcard
    from t4_geom_convert.Kernel.FileHandlers.Parser.ParseMCNPCell import \
        ParseMCNPCell as P
    return [cellcard.split, P.parse_all_cells, P.parse_one_cell,
            P.parse_one_cell_worker, P.parse_material, P.apply_but,
            P.to_fillid, P.parse_keywords, P.parse_fill_kw, P.parse_lat_kw,
            P.parse_trcl_kw]
