'''C18 — worker process of the runtime sweep.

    python c18_worker.py <jobs.json> <out.json>

jobs.json: {"runs": [{"deck": text, "args": [...], "encoding": "utf-8",
                      "slot": null | "name", "want_text": bool}, ...]}
The runs are executed IN ORDER in this one interpreter (so a job with one run
is a conversion in a fresh process, a job with several runs exercises a warm
process).  Runs with the same non-null slot share one directory and one input
path (the input file is rewritten, the output file is pre-filled with a
sentinel, anything else the earlier runs left there stays).

For every run the worker reports: ok / exception class, sha256 of the written
file without the header's command-line line (None when no file was written),
whether the input file is byte-identical afterwards, and the names of files
that appeared beside input and output.  The hash seed comes from the
environment (PYTHONHASHSEED) set by the parent.'''
import contextlib
import hashlib
import io
import json
import os
import shutil
import sys
import tempfile
import warnings
from pathlib import Path

REPO_PREFIXES = ('t4_geom_convert', 'MIP')


class LogEnviron(os._Environ):      # pylint: disable=protected-access
    '''os.environ that records the variables looked up by code of the
    converter (frames whose file lies under <repo>/t4_geom_convert or
    <repo>/MIP); look-ups made by the standard library on its own account are
    not recorded.'''

    def __init__(self, base, repo, log):
        # share the underlying data of the real environment
        self.__dict__.update(base.__dict__)
        self._c18_repo = repo
        self._c18_log = log

    def __getitem__(self, key):
        frame = sys._getframe(1)    # pylint: disable=protected-access
        hops = 0
        while frame is not None and hops < 12:
            name = frame.f_code.co_filename
            if name.endswith(('os.py', '_collections_abc.py')) \
                    or name.startswith('<frozen'):
                frame = frame.f_back
                hops += 1
                continue
            if name.startswith(self._c18_repo) and any(
                    f'/{p}/' in name for p in REPO_PREFIXES):
                self._c18_log.append(
                    f'{key} ({os.path.basename(name)}:'
                    f'{frame.f_code.co_name})')
            break
        return os._Environ.__getitem__(self, key)


def _fingerprint(value, depth=0):
    import types
    import re as _re
    if isinstance(value, (types.ModuleType, types.FunctionType,
                          types.BuiltinFunctionType, types.MethodType,
                          staticmethod, classmethod, property)):
        return 'callable/module'
    if isinstance(value, type):
        if depth >= 1:
            return 'class'
        items = []
        for name, sub in sorted(vars(value).items()):
            if name.startswith('__') and name.endswith('__'):
                continue
            items.append((name, _fingerprint(sub, depth + 1)))
        return ('class', tuple(items))
    if isinstance(value, _re.Pattern):
        return ('re', value.pattern)
    if isinstance(value, (int, float, str, bytes, bool, type(None))):
        return repr(value)
    if isinstance(value, (list, tuple, set, frozenset)):
        if depth >= 2:
            return (type(value).__name__, len(value))
        parts = [_fingerprint(v, depth + 1) for v in value]
        if isinstance(value, (set, frozenset)):
            parts = sorted(map(repr, parts))
        return (type(value).__name__, tuple(parts))
    if isinstance(value, dict):
        if depth >= 2:
            return ('dict', len(value))
        return ('dict', tuple((repr(k), _fingerprint(v, depth + 1))
                              for k, v in value.items()))
    state = getattr(value, '__dict__', None)
    if isinstance(state, dict) and depth < 2:
        return (type(value).__name__,
                tuple((k, _fingerprint(v, depth + 1))
                      for k, v in sorted(state.items())))
    return type(value).__name__


def module_state():
    '''Fingerprint of every module-level and class-level binding of the
    converter's modules (a runtime counterpart of the audit's CStore RModule /
    RGlobal / RClass entries).'''
    snap = {}
    for name, module in list(sys.modules.items()):
        if module is None or not name.split('.')[0] in REPO_PREFIXES:
            continue
        for attr, value in list(vars(module).items()):
            if attr.startswith('__') and attr.endswith('__'):
                continue
            if type(value).__module__.startswith('shim_peg'):
                continue        # the harness's parser replacing TatSu's
            try:
                snap[f'{name}.{attr}'] = repr(_fingerprint(value))
            except Exception:       # pylint: disable=broad-except
                snap[f'{name}.{attr}'] = 'unprintable'
    return snap


def module_changes(before, after):
    out = []
    modules_before = {k.rpartition('.')[0] for k in before}
    for key, val in after.items():
        if key.rpartition('.')[0] not in modules_before:
            continue            # a module imported lazily by this run
        if key not in before:
            out.append(f'{key} (new)')
        elif before[key] != val:
            out.append(f'{key} (changed)')
    for key in before:
        if key not in after:
            out.append(f'{key} (deleted)')
    return sorted(out)


_STATE = {}       # last module-state snapshot (reused as the next 'before')

SENTINEL = '// C18 sentinel: no output written\n'


def strip_cmdline(text):
    '''Remove the header line echoing the command line.'''
    lines = text.split('\n')
    return '\n'.join(line for line in lines
                     if not line.startswith('// t4_geom_convert command line:'))


def digest(text):
    return hashlib.sha256(text.encode('utf-8', 'surrogateescape')).hexdigest()


def one_run(run, directory):
    from t4_geom_convert.main import conversion, parse_args
    encoding = run.get('encoding', 'utf-8')
    raw = run['deck'].encode(encoding)
    inp = directory / 'deck.imcnp'
    out = directory / 'deck.t4'
    before_names = {p.name for p in directory.iterdir()}
    inp.write_bytes(raw)
    out.write_text(SENTINEL)
    mtime_in = inp.stat().st_mtime_ns
    args = list(run.get('args', []))
    argv = [str(inp), '-o', str(out)] + args
    # current working directory: None = whatever the worker has; 'deckdir' =
    # the deck's directory, with RELATIVE input / output names; 'elsewhere' =
    # a fresh empty directory (absolute names), which must stay empty
    mode = run.get('cwd')
    old_cwd = os.getcwd()
    other = None
    if mode == 'deckdir':
        os.chdir(directory)
        argv = ['deck.imcnp', '-o', 'deck.t4'] + args
    elif mode == 'elsewhere':
        other = Path(tempfile.mkdtemp(prefix='cwd_', dir=directory.parent))
        os.chdir(other)
    res = {'ok': False, 'exc': None, 'msg': ''}
    buf = io.StringIO()
    old_argv = sys.argv
    sys.argv = ['t4_geom_convert'] + args
    env_log = []
    real_environ = os.environ
    repo = os.path.realpath(os.environ.get('T4GC_REPO', '/repo'))
    state_before = _STATE.get('last') or module_state()
    os.environ = LogEnviron(real_environ, repo, env_log)
    try:
        with contextlib.redirect_stdout(buf), contextlib.redirect_stderr(buf), \
                warnings.catch_warnings():
            warnings.simplefilter('ignore')
            try:
                conversion(parse_args(argv))
                res['ok'] = True
            except SystemExit as exc:
                res['exc'], res['msg'] = 'SystemExit', str(exc.code)[:200]
            except Exception as exc:    # pylint: disable=broad-except
                res['exc'], res['msg'] = type(exc).__name__, str(exc)[:200]
    finally:
        os.environ = real_environ
        sys.argv = old_argv
        os.chdir(old_cwd)
    res['env_reads'] = sorted(set(env_log))
    state_after = module_state()
    res['module_changes'] = module_changes(state_before, state_after)
    _STATE['last'] = state_after
    text = out.read_text(encoding='utf-8', errors='surrogateescape') \
        if out.exists() else None
    if text == SENTINEL:
        text = None
    res['sha'] = None if text is None else digest(strip_cmdline(text))
    res['len'] = None if text is None else len(text)
    if run.get('want_text') and text is not None:
        res['text'] = strip_cmdline(text)
    res['input_exists'] = inp.exists()
    res['input_unchanged'] = inp.exists() and inp.read_bytes() == raw
    res['input_mtime_unchanged'] = inp.exists() and \
        inp.stat().st_mtime_ns == mtime_in
    after = {p.name for p in directory.iterdir()}
    res['new_files'] = sorted(after - before_names
                              - {'deck.imcnp', 'deck.t4'})
    if other is not None:
        res['new_files'] += ['<cwd>/' + p.name for p in other.iterdir()]
        shutil.rmtree(other, ignore_errors=True)
    return res


def main():
    jobs = json.loads(Path(sys.argv[1]).read_text())
    repo = os.environ.get('T4GC_REPO', '/repo')
    here = str(Path(__file__).resolve().parent)
    for path in (repo, here):
        if path not in sys.path:
            sys.path.insert(0, path)
    import shim_peg
    shim_peg.install()
    root = Path(tempfile.mkdtemp(prefix='c18w_', dir=os.environ.get(
        'T4GC_SCRATCH', tempfile.gettempdir())))
    results = []
    slots = {}
    try:
        if jobs.get('fork_each'):
            # every run in a forked child of this interpreter, which has
            # imported the converter but never converted anything: a process
            # that is fresh as far as conversions go, at the cost of a fork
            # instead of a cold start (a sample of decks is also run in
            # cold-started processes by the parent)
            import t4_geom_convert.main     # noqa: F401  pylint: disable=W0611
            _STATE['last'] = module_state()     # inherited by every child
            for k, run in enumerate(jobs['runs']):
                directory = root / f'run{k}'
                directory.mkdir()
                rfd, wfd = os.pipe()
                pid = os.fork()
                if pid == 0:
                    os.close(rfd)
                    try:
                        blob = json.dumps(one_run(run, directory))
                    except BaseException as exc:  # pylint: disable=W0703
                        blob = json.dumps({'worker_error': repr(exc)})
                    with os.fdopen(wfd, 'w') as pipe:
                        pipe.write(blob)
                    os._exit(0)
                os.close(wfd)
                with os.fdopen(rfd) as pipe:
                    blob = pipe.read()
                os.waitpid(pid, 0)
                results.append(json.loads(blob) if blob
                               else {'worker_error': 'child died'})
                shutil.rmtree(directory, ignore_errors=True)
            jobs['runs'] = []
        for k, run in enumerate(jobs['runs']):
            slot = run.get('slot')
            if slot is None:
                directory = root / f'run{k}'
                directory.mkdir()
            else:
                directory = slots.get(slot)
                if directory is None:
                    directory = root / f'slot_{len(slots)}'
                    directory.mkdir()
                    slots[slot] = directory
            results.append(one_run(run, directory))
            if slot is None:
                shutil.rmtree(directory, ignore_errors=True)
    finally:
        shutil.rmtree(root, ignore_errors=True)
    Path(sys.argv[2]).write_text(json.dumps(
        {'hashseed': os.environ.get('PYTHONHASHSEED'), 'results': results}))


if __name__ == '__main__':
    main()
