'''C10 — line coverage of the modelled composition functions by the tied runs.

The ties of props/c10.py (split, materials, card, text) run under sys.settrace
restricted to the code objects of the functions the model re-implements.
Obligation: every executable line of those functions is executed by at least
one tied case, except the lines listed in UNREACHED (function, stripped source
text) with the reason.  A line no tied case executes is a line the
correspondence says nothing about.'''
import linecache
import sys

UNREACHED = {
    ('extract_isotopes_fractions', 'mass_number = str(int(mass_number))'):
        'dead: the label comes from str(int(..)) in convert_isotope, so it '
        'starts with 0 only when it IS "0", which '
        'compositionConversionMCNPToT4 has already turned into "-NAT" '
        '(model: isotope_name keeps the branch; C10_card_converted never '
        'takes it)',
}


# (module, attribute path) of the anchored functions; what a rewrite removed or
# renamed is skipped and listed in MISSING (coverage is information only)
TARGETS = [
    ('MIP.mip.datacard', 'split'),
    ('MIP.geom.composition', 'get_material_composition'),
    ('t4_geom_convert.Kernel.Composition.CCompositionMCNP',
     'CCompositionMCNP.__init__'),
    ('t4_geom_convert.Kernel.FileHandlers.Parser.ParseMCNPComposition',
     'parseMCNPComposition'),
    ('t4_geom_convert.Kernel.Composition.CompositionConversionMCNPToT4',
     'compositionConversionMCNPToT4'),
    ('t4_geom_convert.Kernel.Composition.CompositionConversionMCNPToT4',
     'str_fabs'),
    ('t4_geom_convert.Kernel.Composition.ConvertIsotope', 'convert_isotope'),
    ('t4_geom_convert.Kernel.Composition.ConstructCompositionT4',
     'constructCompositionT4'),
    ('t4_geom_convert.Kernel.Composition.ConstructCompositionT4',
     'extract_isotopes_fractions'),
    ('t4_geom_convert.Kernel.Composition.ConstructCompositionT4',
     'rescale_fractions'),
    ('t4_geom_convert.Kernel.FileHandlers.Writer.WriteT4Composition',
     'writeT4Composition'),
]
MISSING = []


def target_functions():
    import importlib
    found = []
    del MISSING[:]
    for module, path in TARGETS:
        try:
            obj = importlib.import_module(module)
            for part in path.split('.'):
                obj = getattr(obj, part)
            if not hasattr(getattr(obj, '__func__', obj), '__code__'):
                raise AttributeError(path)
            found.append(obj)
        except Exception:           # pylint: disable=broad-except
            MISSING.append(f'{module}.{path}')
    return found


def _codes(code, out):
    out.append(code)
    for const in code.co_consts:
        if hasattr(const, 'co_code'):
            _codes(const, out)


class Coverage:
    def __init__(self):
        self.targets = {}
        self.n_functions = 0
        for func in target_functions():
            func = getattr(func, '__func__', func)
            self.n_functions += 1
            codes = []
            _codes(func.__code__, codes)
            for code in codes:
                self.targets[code] = func.__qualname__
        self.hit = set()

    def _local(self, frame, event, _arg):
        if event == 'line':
            self.hit.add((frame.f_code, frame.f_lineno))
        return self._local

    def _global(self, frame, event, _arg):
        if event == 'call' and frame.f_code in self.targets:
            return self._local
        return None

    def __enter__(self):
        self.previous = sys.gettrace()
        sys.settrace(self._global)
        return self

    def __exit__(self, *_exc):
        sys.settrace(self.previous)
        return False

    def report(self):
        '''(number of executable lines, [(function, text) never executed and
        not in UNREACHED], [UNREACHED entries that were executed or do not
        exist]).'''
        total = 0
        missing_texts = set()
        for code, name in self.targets.items():
            lines = {ln for _, _, ln in code.co_lines()
                     if ln is not None and ln != code.co_firstlineno}
            for ln in sorted(lines):
                text = linecache.getline(code.co_filename, ln).strip()
                if not text or text.startswith(("'''", '"""', '>>>')):
                    continue
                total += 1
                if (code, ln) not in self.hit:
                    missing_texts.add((name, text))
        missing = sorted(m for m in missing_texts if m not in UNREACHED)
        stale = sorted(k for k in UNREACHED if k not in missing_texts)
        return total, missing, stale
