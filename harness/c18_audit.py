'''C18 — effect-footprint audit (translator from the Python `ast` of the
sources to Coq data, regenerated on every run).

For every ``*.py`` under <repo>/t4_geom_convert and <repo>/MIP the translator
emits *entries* (file, function, construct text, live?, construct):

  CBinding sc v     module-/class-level ``name = value``; v = VImmutable |
                    VMutable | VUnknown (syntactic class of the value)
  CMutDefault v     a default argument whose value is mutable / unknown
  CGlobalDecl       ``global`` / ``nonlocal`` declaration inside a function
  CStore r          attribute store, subscript store, ``del``, augmented
                    assignment or mutating method call whose target is rooted
                    at r = RModule (an imported module/object) | RGlobal (module-level name, class
                    name, alias of one) | RClass (cls, type(self),
                    self.__class__) | RUnknown (call result, ...).  Stores
                    rooted at a local / parameter / self are counted only.
  CSetLoop k s      an order-revealing use of a set-valued expression
                    (for, comprehension, list(), tuple(), enumerate(), join,
                    str(), pop(), extend(), star) with the inferred element
                    kind k and s = SinkInsensitive when the loop's result is
                    immediately consumed by an order-insensitive consumer
  CSetEscape        a set-valued expression flows where the translator cannot
                    follow it (unknown callee, container, tuple, yield)
  COpen m           open()/.open(); m = WRead | WWrite | WUnknownMode
  CFileEffect f     f = FPickleWrite (pickle/json dump) | FPickleRead (pickle
                    load: state of an earlier run read back) | FWriteCall
                    (write_text, ...) | FFsChange (unlink, rename, mkdir, ...)
  CNondet n         ambient input: n = NEnv (environment, cwd, host) | NArgv |
                    NClock | NRandom (random, uuid, pid, temp names) |
                    NIdentity (id()/hash() called or used as a key function)
                    | NListing (listdir, glob) | NOther
  CDynamic          exec, eval, __import__, importlib, setattr, globals(), ...
  CUnknown          a construct the translator does not understand in a
                    position that matters

The translator is deliberately syntactic and fail-closed: anything it cannot
resolve becomes RUnknown / KUnknown / CSetEscape / CUnknown, and the Coq
decision function (coq/C18/Audit.v) accepts those only through the allow-list
(coq/C18/Allow.v, keyed by file + function + construct text).

``live`` is false for code that a conversion cannot execute: files outside the
static import closure of t4_geom_convert/main.py and ``if __name__ ==
'__main__'`` blocks.  Dynamic imports would defeat that and are CDynamic.'''
import ast
import os
from pathlib import Path

MUTATORS = {'append', 'extend', 'add', 'update', 'setdefault', 'pop',
            'popitem', 'clear', 'remove', 'discard', 'insert', 'sort',
            'reverse', '__setitem__', '__delitem__', 'appendleft',
            'extendleft', 'popleft', 'move_to_end', 'difference_update',
            'intersection_update', 'symmetric_difference_update', 'write',
            'writelines', 'seek', 'truncate'}
SET_METHODS_RET_SET = {'union', 'intersection', 'difference',
                       'symmetric_difference', 'copy'}
SET_METHODS_OK = {'add', 'update', 'discard', 'remove', 'clear', 'issubset',
                  'issuperset', 'isdisjoint', 'difference_update',
                  'intersection_update', 'symmetric_difference_update',
                  '__contains__'} | SET_METHODS_RET_SET
INSENSITIVE_CONSUMERS = {'set', 'frozenset', 'sorted', 'any', 'all', 'len',
                         'bool', 'isinstance'}
ORDERED_CONSUMERS = {'list', 'tuple', 'enumerate', 'zip', 'map', 'filter',
                     'iter', 'next', 'reversed', 'str', 'repr', 'print',
                     'format', 'dict', 'OrderedDict', 'deque', 'Counter',
                     'array', 'fsum'}
IMMUTABLE_CALLS = {'frozenset', 'Enum', 'IntEnum', 'Flag', 'namedtuple', 'tuple', 'int',
                   'float', 'str', 'bool', 'bytes', 'len', 'TypeVar',
                   'getLogger', 'range', 'object', 'property', 'staticmethod',
                   'classmethod', 'auto', 'decode', 'format', 'join', 'radians',
                   'cos', 'sin', 'sqrt', 'version', 'get_data', 'Path',
                   'abs', 'min', 'max', 'round', 'partial'}
MUTABLE_CALLS = {'dict', 'list', 'set', 'defaultdict', 'OrderedDict', 'deque',
                 'Counter', 'bytearray', 'array', 'zeros', 'ones', 'empty'}
NONDET_CALLS = {
    'now', 'today', 'utcnow', 'time', 'time_ns', 'perf_counter', 'monotonic',
    'process_time', 'clock', 'urandom', 'getpid', 'getppid', 'listdir',
    'scandir', 'iterdir', 'glob', 'rglob', 'iglob', 'walk', 'getenv',
    'getcwd', 'cwd', 'gethostname', 'getuser', 'uuid1', 'uuid4', 'random',
    'randint', 'randrange', 'choice', 'shuffle', 'sample', 'uniform',
    'mkstemp', 'mkdtemp', 'NamedTemporaryFile', 'TemporaryDirectory',
    'gettempdir', 'id', 'hash', 'node', 'platform', 'getrandbits',
    'token_hex', 'cpu_count', 'get_ident', 'expanduser', 'home', 'stat',
    'getmtime'}
NONDET_MODULES = {'random', 'time', 'uuid', 'secrets', 'socket', 'platform',
                  'getpass', 'threading', 'multiprocessing', 'concurrent',
                  'asyncio', 'tempfile', 'glob', 'signal'}
FILE_EFFECT_METHODS = {'write_text', 'write_bytes', 'unlink', 'mkdir',
                       'makedirs', 'rmdir', 'rmtree', 'copy2', 'copyfile',
                       'copytree', 'touch', 'symlink', 'symlink_to',
                       'hardlink_to', 'chmod', 'chown', 'utime', 'removedirs',
                       'savetxt', 'to_csv', 'tofile', 'rename', 'truncate'}
FILE_EFFECT_QUALIFIED = {'dump', 'remove', 'replace', 'copy', 'move', 'save',
                         'link', 'savez', 'write'}
FILE_MODULES = {'os', 'shutil', 'pickle', 'json', 'marshal', 'np', 'numpy',
                'yaml', 'cPickle', 'dill', 'sys', 'stdout', 'stderr'}
PROCESS_STATE_CALLS = {'setrecursionlimit', 'filterwarnings', 'simplefilter',
                       'seterr', 'chdir', 'putenv', 'unsetenv', 'seed',
                       'setlocale', 'register', 'basicConfig', 'setLevel',
                       'addHandler', 'set_printoptions', 'setswitchinterval',
                       'settrace', 'setprofile', 'install', 'cache_clear',
                       'resetwarnings', 'reload', 'fork', 'system', 'popen',
                       'run', 'Popen', 'call', 'check_call', 'check_output',
                       'exit', '_exit', 'kill', 'abort'}
DYNAMIC_CALLS = {'exec', 'eval', '__import__', 'import_module', 'setattr',
                 'delattr', 'globals', 'vars', 'locals', 'compile_command',
                 'execfile', 'load_module', 'exec_module'}
HARMLESS_DECORATORS = {'staticmethod', 'classmethod', 'property', 'wraps',
                       'abstractmethod', 'setter', 'getter', 'deleter',
                       'total_ordering', 'dataclass', 'unique', 'overload'}
CACHE_DECORATORS = {'lru_cache', 'cache', 'cached_property', 'memoize',
                    'memoized', 'singledispatch'}

NK_ENV = {'getenv', 'getcwd', 'cwd', 'gethostname', 'getuser', 'node',
          'platform', 'cpu_count', 'expanduser', 'home'}
NK_CLOCK = {'now', 'today', 'utcnow', 'time', 'time_ns', 'perf_counter',
            'monotonic', 'process_time', 'clock', 'stat', 'getmtime'}
NK_RANDOM = {'urandom', 'getpid', 'getppid', 'uuid1', 'uuid4', 'random',
             'randint', 'randrange', 'choice', 'shuffle', 'sample', 'uniform',
             'mkstemp', 'mkdtemp', 'NamedTemporaryFile', 'TemporaryDirectory',
             'gettempdir', 'getrandbits', 'token_hex', 'get_ident'}
NK_LISTING = {'listdir', 'scandir', 'iterdir', 'glob', 'rglob', 'iglob',
              'walk'}
NK_MODULE = {'random': 'NRandom', 'uuid': 'NRandom', 'secrets': 'NRandom',
             'tempfile': 'NRandom', 'time': 'NClock', 'glob': 'NListing',
             'socket': 'NEnv', 'platform': 'NEnv', 'getpass': 'NEnv'}


def nkind_of(name):
    if name in ('id', 'hash'):
        return 'NIdentity'
    if name in NK_ENV:
        return 'NEnv'
    if name in NK_CLOCK:
        return 'NClock'
    if name in NK_RANDOM:
        return 'NRandom'
    if name in NK_LISTING:
        return 'NListing'
    return 'NOther'


KINDS = ('KEmpty', 'KInt', 'KStr', 'KFloat', 'KOther', 'KUnknown')


def kjoin(a, b):
    if a == 'KEmpty':
        return b
    if b == 'KEmpty':
        return a
    return a if a == b else 'KUnknown'


def kmeet(a, b):
    '''kind of an intersection (contained in both operands).'''
    if a == 'KEmpty' or b == 'KEmpty':
        return 'KEmpty'
    if a == 'KUnknown':
        return b
    if b == 'KUnknown':
        return a
    return a if a == b else 'KEmpty'


def text_of(node, limit=160):
    try:
        txt = ast.unparse(node)
    except Exception:     # pylint: disable=broad-except
        txt = f'<{type(node).__name__}>'
    txt = ' '.join(txt.split())
    txt = ''.join(ch if 32 <= ord(ch) < 127 else '?' for ch in txt)
    if len(txt) > limit:
        txt = txt[:limit] + '...'
    return txt


def call_name(func):
    '''Last component of the callee and its dotted prefix (or None).'''
    if isinstance(func, ast.Name):
        return func.id, None
    if isinstance(func, ast.Attribute):
        return func.attr, func.value
    return None, None


def root_of(node):
    '''Root of an attribute/subscript chain.  A method call is crossed
    towards its receiver (the object is taken to be reachable from it, e.g.
    ``d.setdefault(k, []).append(v)`` mutates something owned by ``d``); the
    result of a plain function call is a root of its own: (call node, True).'''
    while True:
        if isinstance(node, (ast.Attribute, ast.Subscript, ast.Starred)):
            node = node.value
        elif isinstance(node, ast.Call):
            if isinstance(node.func, ast.Attribute):
                node = node.func.value
            else:
                return node, True
        else:
            return node, False


# --------------------------------------------------------------------------
# import closure
# --------------------------------------------------------------------------

def module_name(repo, path):
    rel = path.relative_to(repo).with_suffix('')
    parts = list(rel.parts)
    if parts[-1] == '__init__':
        parts = parts[:-1]
    return '.'.join(parts)


def imports_of(tree, modname, is_pkg):
    '''Absolute dotted names this module may import (over-approximation:
    ``from a import b`` yields both ``a`` and ``a.b``).'''
    out = set()
    pkg = modname if is_pkg else modname.rpartition('.')[0]
    for node in ast.walk(tree):
        if isinstance(node, ast.Import):
            for alias in node.names:
                out.add(alias.name)
        elif isinstance(node, ast.ImportFrom):
            base = node.module or ''
            if node.level:
                parts = pkg.split('.') if pkg else []
                parts = parts[:len(parts) - (node.level - 1)]
                base = '.'.join(parts + ([base] if base else []))
            out.add(base)
            for alias in node.names:
                out.add(f'{base}.{alias.name}')
    return out


def live_modules(mods, entry='t4_geom_convert.main'):
    '''mods: {name: (tree, is_pkg)} -> set of names reachable from entry.'''
    seen = set()
    todo = [entry]
    while todo:
        name = todo.pop()
        # importing a.b.c imports a and a.b too
        parts = name.split('.')
        for k in range(1, len(parts) + 1):
            sub = '.'.join(parts[:k])
            if sub in mods and sub not in seen:
                seen.add(sub)
                tree, is_pkg = mods[sub]
                todo.extend(imports_of(tree, sub, is_pkg))
    return seen


# --------------------------------------------------------------------------
# pass 1: package-wide summaries (names only)
# --------------------------------------------------------------------------

class Summary:
    def __init__(self):
        self.set_funcs = {}     # function/method name -> element kind
        self.set_meths = {}     # the same for functions defined in a class
        self.set_attrs = {}     # attribute name -> element kind
        self.set_params = {}    # (function name, param name) -> kind
        self.func_params = {}   # function name -> [list of param-name lists]
        # function name -> (arity, {position: kind}) for functions returning a
        # tuple display some components of which are sets; arity None = the
        # returns disagree (not tracked: fail-closed)
        self.tuple_funcs = {}
        self.changed = False

    def note_tuple(self, name, arity, pos):
        old = self.tuple_funcs.get(name)
        if old is None:
            new = (arity, dict(pos))
        elif old[0] is None or old[0] != arity:
            new = (None, {})
        else:
            merged = dict(old[1])
            for j, kind in pos.items():
                merged[j] = kjoin(merged.get(j, 'KEmpty'), kind)
            new = (arity, merged)
        if new != old:
            self.tuple_funcs[name] = new
            self.changed = True

    def note(self, table, key, kind):
        old = table.get(key)
        new = kind if old is None else kjoin(old, kind)
        if new != old:
            table[key] = new
            self.changed = True


class FuncInfo:
    '''Scope information of one function (or of the module body).'''

    def __init__(self, node, name, parent=None, cls=None):
        self.node, self.name, self.parent, self.cls = node, name, parent, cls
        self.params = []
        self.locals = set()
        self.globals_decl = set()
        self.aliases = set()        # locals assigned from a global-rooted expr
        self.set_locals = {}        # local name -> kind (set-valued)
        self.list_kinds = {}        # local list name -> element kind
        self.int_locals = set()
        self.local_imports = set()
        self.self_name = None
        self.cls_name = None


def own_nodes(func_node):
    '''Nodes of a function body excluding nested function/class bodies (their
    headers — decorators, defaults — belong to the enclosing scope).'''
    todo = list(ast.iter_child_nodes(func_node))
    while todo:
        node = todo.pop()
        yield node
        if isinstance(node, (ast.FunctionDef, ast.AsyncFunctionDef,
                             ast.Lambda, ast.ClassDef)):
            if not isinstance(node, ast.Lambda):
                todo.extend(node.decorator_list)
            if not isinstance(node, ast.ClassDef):
                todo.extend(d for d in node.args.defaults)
                todo.extend(d for d in node.args.kw_defaults if d is not None)
            continue
        todo.extend(ast.iter_child_nodes(node))


def bound_names(target, out):
    if isinstance(target, ast.Name):
        out.add(target.id)
    elif isinstance(target, (ast.Tuple, ast.List)):
        for elt in target.elts:
            bound_names(elt, out)
    elif isinstance(target, ast.Starred):
        bound_names(target.value, out)


class FileAudit:
    def __init__(self, repo, path, tree, live, summary):
        self.repo, self.path, self.tree = repo, path, tree
        self.rel = str(path.relative_to(repo))
        self.live = live
        self.summary = summary
        self.entries = []
        self.counts = {}
        self.module_names = set()    # names bound at module level
        self.imported = set()
        self.class_names = set()
        self.emit_enabled = False
        self.handled_calls = set()

    # ---- helpers ----
    def emit(self, func, node_or_text, construct, live=None):
        if not self.emit_enabled:
            return
        txt = node_or_text if isinstance(node_or_text, str) \
            else text_of(node_or_text)
        self.entries.append({'file': self.rel, 'func': func, 'text': txt,
                             'live': self.live if live is None else live,
                             'c': construct})

    def count(self, key):
        if self.emit_enabled:
            self.counts[key] = self.counts.get(key, 0) + 1

    # ---- value classes ----
    def value_class(self, node):
        if node is None:
            return 'VImmutable'
        if isinstance(node, ast.Constant):
            return 'VImmutable'
        if isinstance(node, (ast.JoinedStr, ast.Lambda, ast.Compare,
                             ast.BoolOp)):
            return 'VImmutable'
        if isinstance(node, ast.Tuple):
            classes = [self.value_class(e) for e in node.elts]
            if all(c == 'VImmutable' for c in classes):
                return 'VImmutable'
            return 'VMutable' if 'VMutable' in classes else 'VUnknown'
        if isinstance(node, (ast.List, ast.Dict, ast.Set, ast.ListComp,
                             ast.DictComp, ast.SetComp)):
            return 'VMutable'
        if isinstance(node, ast.UnaryOp):
            return self.value_class(node.operand)
        if isinstance(node, ast.BinOp):
            a, b = self.value_class(node.left), self.value_class(node.right)
            if a == b == 'VImmutable':
                return 'VImmutable'
            return 'VMutable' if 'VMutable' in (a, b) else 'VUnknown'
        if isinstance(node, ast.IfExp):
            a, b = self.value_class(node.body), self.value_class(node.orelse)
            if a == b == 'VImmutable':
                return 'VImmutable'
            return 'VMutable' if 'VMutable' in (a, b) else 'VUnknown'
        if isinstance(node, ast.Call):
            name, recv = call_name(node.func)
            if name in MUTABLE_CALLS:
                return 'VMutable'
            if name in IMMUTABLE_CALLS:
                return 'VImmutable'
            if name == 'compile' and isinstance(recv, ast.Name) \
                    and recv.id == 're':
                return 'VImmutable'
            return 'VUnknown'
        if isinstance(node, ast.Name):
            # alias of another module-level thing (function, class, constant)
            return 'VUnknown' if node.id in self.mutable_module_names \
                else 'VImmutable'
        if isinstance(node, ast.Attribute):
            # e.g. Enum member, module attribute
            return 'VImmutable' if isinstance(root_of(node)[0], ast.Name) \
                else 'VUnknown'
        return 'VUnknown'

    # ---- scopes ----
    def build_scope(self, node, name, parent, cls):
        info = FuncInfo(node, name, parent, cls)
        if isinstance(node, ast.Lambda) or isinstance(
                node, (ast.FunctionDef, ast.AsyncFunctionDef)):
            args = node.args
            allargs = args.posonlyargs + args.args + args.kwonlyargs
            info.params = [a.arg for a in allargs]
            if args.vararg:
                info.params.append(args.vararg.arg)
            if args.kwarg:
                info.params.append(args.kwarg.arg)
            info.locals.update(info.params)
            if cls is not None and not isinstance(node, ast.Lambda) \
                    and args.args:
                decos = {call_name(d.func if isinstance(d, ast.Call) else d)[0]
                         for d in node.decorator_list}
                if 'staticmethod' in decos:
                    pass
                elif 'classmethod' in decos:
                    info.cls_name = args.args[0].arg
                else:
                    info.self_name = args.args[0].arg
        if parent is not None and parent.node is not self.tree:
            # closures see the enclosing function's locals
            info.locals |= parent.locals
            info.aliases |= parent.aliases
            info.local_imports |= parent.local_imports
            info.self_name = info.self_name or parent.self_name
            info.cls_name = info.cls_name or parent.cls_name
            for k, v in parent.set_locals.items():
                info.set_locals.setdefault(k, v)
        body_nodes = list(own_nodes(node))
        for sub in body_nodes:
            if isinstance(sub, (ast.Global, ast.Nonlocal)):
                info.globals_decl.update(sub.names)
        for sub in body_nodes:
            names = set()
            if isinstance(sub, ast.Assign):
                for tgt in sub.targets:
                    bound_names(tgt, names)
            elif isinstance(sub, (ast.AnnAssign, ast.AugAssign)):
                bound_names(sub.target, names)
            elif isinstance(sub, (ast.For, ast.AsyncFor)):
                bound_names(sub.target, names)
            elif isinstance(sub, ast.comprehension):
                bound_names(sub.target, names)
            elif isinstance(sub, ast.NamedExpr):
                bound_names(sub.target, names)
            elif isinstance(sub, (ast.With, ast.AsyncWith)):
                for item in sub.items:
                    if item.optional_vars is not None:
                        bound_names(item.optional_vars, names)
            elif isinstance(sub, ast.ExceptHandler) and sub.name:
                names.add(sub.name)
            elif isinstance(sub, (ast.Import, ast.ImportFrom)):
                for alias in sub.names:
                    names.add((alias.asname or alias.name).split('.')[0])
                    info.local_imports.add(
                        (alias.asname or alias.name).split('.')[0])
            elif isinstance(sub, (ast.FunctionDef, ast.AsyncFunctionDef,
                                  ast.ClassDef)):
                names.add(sub.name)
            info.locals |= names
        info.locals -= info.globals_decl
        return info

    def is_global_name(self, info, name):
        '''True when `name`, read inside scope `info`, denotes a module-level
        / imported / builtin object.'''
        if info.node is self.tree:
            return True
        if name in info.locals:
            return False
        return True

    def root_class(self, info, target):
        '''Classify the root of a store target / mutated receiver.'''
        root, crossed = root_of(target)
        if crossed:
            # f(...).x = v : a call result; type(self) / super() special
            fname, _ = call_name(root.func)
            if fname in ('type', 'super', 'globals', 'vars', 'locals'):
                return 'RClass'
            if fname in ('list', 'dict', 'set', 'sorted', 'tuple',
                         'OrderedDict', 'defaultdict'):
                return 'RLocal'     # a fresh container
            return 'RUnknown'
        if isinstance(root, ast.Name):
            name = root.id
            # self.__class__.x = v
            node = target
            while isinstance(node, (ast.Attribute, ast.Subscript, ast.Call)):
                if isinstance(node, ast.Call):
                    node = node.func
                    continue
                if isinstance(node, ast.Attribute) and node.attr in (
                        '__class__', '__dict__', '__globals__', '__module__',
                        '__defaults__', '__builtins__'):
                    return 'RClass'
                node = node.value
            if info.cls_name and name == info.cls_name:
                return 'RClass'
            if info.self_name and name == info.self_name:
                return 'RSelf'
            if info.node is self.tree:
                return 'RModuleInit'
            if name in info.aliases:
                return 'RGlobal'
            if name in info.local_imports:
                return 'RModule'
            if name in info.locals:
                return 'RLocal'
            if name in self.imported and name not in self.module_names \
                    and name not in self.class_names:
                return 'RModule'
            return 'RGlobal'
        if isinstance(root, (ast.Constant, ast.JoinedStr, ast.List, ast.Dict,
                             ast.Set, ast.ListComp, ast.Tuple, ast.BinOp)):
            return 'RLocal'     # a fresh value
        return 'RUnknown'

    # ---- set typing ----
    def elem_kind(self, info, node, comp_env=None):
        '''Kind of one element expression.'''
        comp_env = comp_env or {}
        if isinstance(node, ast.Constant):
            if isinstance(node.value, bool):
                return 'KOther'
            if isinstance(node.value, int):
                return 'KInt'
            if isinstance(node.value, str):
                return 'KStr'
            if isinstance(node.value, float):
                return 'KFloat'
            return 'KOther'
        if isinstance(node, ast.JoinedStr):
            return 'KStr'
        if isinstance(node, ast.Tuple):
            return 'KOther'
        if isinstance(node, ast.UnaryOp) and isinstance(
                node.op, (ast.USub, ast.UAdd)):
            return self.elem_kind(info, node.operand, comp_env)
        if isinstance(node, ast.BinOp) and isinstance(
                node.op, (ast.Add, ast.Sub, ast.Mult, ast.FloorDiv, ast.Mod)):
            a = self.elem_kind(info, node.left, comp_env)
            b = self.elem_kind(info, node.right, comp_env)
            return 'KInt' if a == b == 'KInt' else 'KUnknown'
        if isinstance(node, ast.Call):
            name, _ = call_name(node.func)
            if name in ('int', 'len', 'ord'):
                return 'KInt'
            if name == 'abs' and node.args:
                return self.elem_kind(info, node.args[0], comp_env)
            if name in ('str', 'repr', 'format', 'join', 'lower', 'upper',
                        'strip'):
                return 'KStr'
            if name == 'float':
                return 'KFloat'
            return 'KUnknown'
        if isinstance(node, ast.Name):
            if node.id in comp_env:
                return comp_env[node.id]
            if node.id in info.int_locals:
                return 'KInt'
            return 'KUnknown'
        return 'KUnknown'

    def iter_elem_kind(self, info, node, comp_env=None):
        '''Kind of the elements produced by iterating `node`.'''
        if isinstance(node, (ast.List, ast.Tuple, ast.Set)):
            kind = 'KEmpty'
            for elt in node.elts:
                kind = kjoin(kind, self.elem_kind(info, elt, comp_env))
            return kind
        if isinstance(node, (ast.ListComp, ast.SetComp, ast.GeneratorExp)):
            env = dict(comp_env or {})
            for gen in node.generators:
                kind = self.iter_elem_kind(info, gen.iter, env)
                if isinstance(gen.target, ast.Name):
                    env[gen.target.id] = kind
            return self.elem_kind(info, node.elt, env)
        skind = self.set_kind(info, node)
        if skind is not None:
            return skind
        if isinstance(node, ast.Name) and node.id in info.list_kinds:
            return info.list_kinds[node.id]
        if isinstance(node, ast.Call):
            name, _ = call_name(node.func)
            if name == 'range':
                return 'KInt'
            if name in ('sorted', 'list', 'tuple', 'reversed') and node.args:
                return self.iter_elem_kind(info, node.args[0], comp_env)
        return 'KUnknown'

    def set_kind(self, info, node):
        '''None when `node` is not (known to be) set-valued, else the kind of
        its elements.'''
        if isinstance(node, ast.Set):
            return self.iter_elem_kind(info, node)
        if isinstance(node, ast.SetComp):
            return self.iter_elem_kind(info, node)
        if isinstance(node, ast.Call):
            name, recv = call_name(node.func)
            if name in ('set', 'frozenset') and recv is None:
                if not node.args:
                    return 'KEmpty'
                return self.iter_elem_kind(info, node.args[0])
            if recv is not None and name in SET_METHODS_RET_SET:
                kind = self.set_kind(info, recv)
                if kind is not None:
                    if name == 'union':
                        for arg in node.args:
                            kind = kjoin(kind, self.iter_elem_kind(info, arg))
                    return kind
            # plain call f(...): a module-level function; self.f(...) / cls.f(...):
            # a method; anything else (module.f, obj.f): either
            plain = self.summary.set_funcs.get(name)
            meth = self.summary.set_meths.get(name)
            if recv is None:
                return plain
            if isinstance(recv, ast.Name) and recv.id in (info.self_name,
                                                          info.cls_name):
                return meth
            if plain is None or meth is None:
                return plain if meth is None else meth
            return kjoin(plain, meth)
        if isinstance(node, ast.BinOp) and isinstance(
                node.op, (ast.BitOr, ast.BitAnd, ast.Sub, ast.BitXor)):
            a = self.set_kind(info, node.left)
            b = self.set_kind(info, node.right)
            view = any(isinstance(x, ast.Call)
                       and call_name(x.func)[0] in ('keys', 'items')
                       for x in (node.left, node.right))
            if a is None and b is None and not view:
                return None
            a = 'KUnknown' if a is None else a
            b = 'KUnknown' if b is None else b
            if isinstance(node.op, ast.Sub):
                return a
            if isinstance(node.op, ast.BitAnd):
                return kmeet(a, b)
            return kjoin(a, b)
        if isinstance(node, ast.IfExp):
            a = self.set_kind(info, node.body)
            b = self.set_kind(info, node.orelse)
            if a is None and b is None:
                return None
            return kjoin(a or 'KEmpty', b or 'KEmpty')
        if isinstance(node, ast.Name):
            if node.id in info.set_locals:
                return info.set_locals[node.id]
            key = (info.name.rpartition('.')[2], node.id)
            if node.id in info.params and key in self.summary.set_params:
                return self.summary.set_params[key]
            return None
        if isinstance(node, ast.Attribute):
            if node.attr in self.summary.set_attrs:
                return self.summary.set_attrs[node.attr]
            return None
        if isinstance(node, ast.NamedExpr):
            return self.set_kind(info, node.value)
        return None

    # ---- the walk ----
    def run(self, emit):
        self.emit_enabled = emit
        self.entries, self.counts = [], {}
        tree = self.tree
        # module-level names
        self.mutable_module_names = set()
        for node in tree.body:
            names = set()
            if isinstance(node, ast.Assign):
                for tgt in node.targets:
                    bound_names(tgt, names)
            elif isinstance(node, (ast.AnnAssign, ast.AugAssign)):
                bound_names(node.target, names)
            elif isinstance(node, (ast.Import, ast.ImportFrom)):
                for alias in node.names:
                    self.imported.add((alias.asname or alias.name)
                                      .split('.')[0])
            elif isinstance(node, ast.ClassDef):
                self.class_names.add(node.name)
            self.module_names |= names
        modinfo = self.build_scope(tree, '<module>', None, None)
        self.visit_body(tree.body, modinfo, '<module>', main_block=False)

    def visit_body(self, body, info, func, main_block):
        for stmt in body:
            self.visit_stmt(stmt, info, func, main_block)

    def is_main_guard(self, node):
        if not isinstance(node, ast.If):
            return False
        test = node.test
        return (isinstance(test, ast.Compare)
                and isinstance(test.left, ast.Name)
                and test.left.id == '__name__'
                and len(test.comparators) == 1
                and isinstance(test.comparators[0], ast.Constant)
                and test.comparators[0].value == '__main__')

    def visit_stmt(self, stmt, info, func, main_block):
        at_module = info.node is self.tree
        at_class = isinstance(info.node, ast.ClassDef)
        live = self.live and not main_block
        if at_module and self.is_main_guard(stmt):
            self.visit_body(stmt.body, info, '<module>.__main__', True)
            self.visit_body(stmt.orelse, info, func, main_block)
            return
        if isinstance(stmt, (ast.FunctionDef, ast.AsyncFunctionDef)):
            qual = stmt.name if at_module else f'{func}.{stmt.name}'
            if at_module and main_block:
                qual = f'{func}.{stmt.name}'
            for deco in stmt.decorator_list:
                dname, _ = call_name(deco.func if isinstance(deco, ast.Call)
                                     else deco)
                if dname in CACHE_DECORATORS:
                    self.emit(qual, '@' + text_of(deco),
                              'CBinding ScModule VMutable', live)
                elif dname not in HARMLESS_DECORATORS \
                        and dname not in getattr(self, 'registrars', set()):
                    # the name is bound to whatever the decorator returns: an
                    # object the translator knows nothing about (a memoising
                    # closure, for instance)
                    self.emit(qual, '@' + text_of(deco),
                              'CBinding ScModule VUnknown', live)
                self.visit_expr(deco, info, func, live)
            args = stmt.args
            for default in list(args.defaults) + [d for d in args.kw_defaults
                                                  if d is not None]:
                vclass = self.value_class(default)
                if vclass != 'VImmutable':
                    self.emit(qual, 'default ' + text_of(default),
                              f'CMutDefault {vclass}', live)
                self.visit_expr(default, info, func, live)
            cls = info.node if at_class else None
            sub = self.build_scope(stmt, qual, info if not at_class
                                   else info.parent_info, cls)
            self.prescan(sub)
            self.visit_body(stmt.body, sub, qual, main_block)
            return
        if isinstance(stmt, ast.ClassDef):
            qual = stmt.name if at_module else f'{func}.{stmt.name}'
            for deco in stmt.decorator_list:
                self.visit_expr(deco, info, func, live)
            for base in stmt.bases:
                self.visit_expr(base, info, func, live)
            cinfo = FuncInfo(stmt, qual, info, None)
            cinfo.parent_info = info
            cinfo.locals = set(info.locals)
            cinfo.aliases = set(info.aliases)
            self.visit_body(stmt.body, cinfo, qual, main_block)
            return
        if isinstance(stmt, (ast.Global, ast.Nonlocal)):
            self.emit(func, text_of(stmt), 'CGlobalDecl', live)
            return
        # bindings at module / class level
        if (at_module or at_class) and isinstance(
                stmt, (ast.Assign, ast.AnnAssign, ast.AugAssign)):
            value = stmt.value
            targets = stmt.targets if isinstance(stmt, ast.Assign) \
                else [stmt.target]
            scope = 'ScModule' if at_module else 'ScClass'
            for tgt in targets:
                names = set()
                bound_names(tgt, names)
                if not names:
                    # attribute / subscript store at module level
                    self.store(tgt, info, func, live, stmt)
                    continue
                vclass = self.value_class(value)
                if vclass != 'VImmutable' and isinstance(stmt, ast.Assign) \
                        and names and names <= getattr(self, 'frozen', set()) \
                        and table_kind(value) is not None:
                    # a literal table of immutable entries that the whole
                    # package only reads (frozen_tables)
                    vclass = 'VImmutable'
                    self.count('frozen-table')
                if isinstance(stmt, ast.AugAssign):
                    vclass = 'VUnknown' if vclass != 'VImmutable' \
                        else 'VImmutable'
                if vclass != 'VImmutable' and at_module:
                    self.mutable_module_names |= names
                for name in sorted(names):
                    self.emit(func, f'{name} = {text_of(value, 100)}',
                              f'CBinding {scope} {vclass}', live)
                    self.note_set_assign(info, tgt, value)
            if value is not None:
                self.visit_expr(value, info, func, live)
            return
        # ordinary statements
        if isinstance(stmt, ast.Assign) and len(stmt.targets) == 1 \
                and isinstance(stmt.targets[0], (ast.Tuple, ast.List)) \
                and isinstance(stmt.value, (ast.Tuple, ast.List)) \
                and len(stmt.targets[0].elts) == len(stmt.value.elts) \
                and not any(isinstance(e, ast.Starred)
                            for e in stmt.targets[0].elts + stmt.value.elts):
            # a, b = x, y : the displays are never seen as objects; element
            # by element (Python evaluates the right-hand sides first, which
            # the flow-insensitive tracking does not distinguish)
            for tgt, val in zip(stmt.targets[0].elts, stmt.value.elts):
                fake = ast.Assign(targets=[tgt], value=val)
                ast.copy_location(fake, stmt)
                self.store(tgt, info, func, live, fake)
                self.note_set_assign(info, tgt, val)
                kind = self.set_kind(info, val)
                if kind is not None and isinstance(tgt, ast.Name):
                    info.set_locals[tgt.id] = kjoin(
                        info.set_locals.get(tgt.id, 'KEmpty'), kind)
                self.visit_expr(val, info, func, live)
            return
        if isinstance(stmt, ast.Assign):
            self.unpack_tuple_call(info, stmt)
            for tgt in stmt.targets:
                self.store(tgt, info, func, live, stmt)
                self.note_set_assign(info, tgt, stmt.value)
            self.visit_expr(stmt.value, info, func, live)
            return
        if isinstance(stmt, ast.AnnAssign):
            self.store(stmt.target, info, func, live, stmt)
            if stmt.value is not None:
                self.note_set_assign(info, stmt.target, stmt.value)
                self.visit_expr(stmt.value, info, func, live)
            return
        if isinstance(stmt, ast.AugAssign):
            self.store(stmt.target, info, func, live, stmt)
            self.visit_expr(stmt.value, info, func, live)
            return
        if isinstance(stmt, ast.Delete):
            for tgt in stmt.targets:
                self.store(tgt, info, func, live, stmt)
            return
        if isinstance(stmt, (ast.For, ast.AsyncFor)):
            self.store(stmt.target, info, func, live, stmt)
            if not self.display_loop(stmt.target, stmt.iter, info, func,
                                     live):
                sink = 'SinkInsensitive' if self.commutative_body(stmt) \
                    else 'SinkOrdered'
                self.loop_over(stmt.iter, info, func, live, sink)
                self.visit_expr(stmt.iter, info, func, live, skip_loop=True)
            self.visit_body(stmt.body, info, func, main_block)
            self.visit_body(stmt.orelse, info, func, main_block)
            return
        if isinstance(stmt, ast.Return):
            if stmt.value is not None:
                if self.tuple_return(info, stmt.value, func, live):
                    return
                self.flow_out(stmt.value, info, func, live, 'return')
                self.visit_expr(stmt.value, info, func, live)
            return
        if isinstance(stmt, ast.Expr):
            self.visit_expr(stmt.value, info, func, live)
            return
        if isinstance(stmt, (ast.With, ast.AsyncWith)):
            for item in stmt.items:
                self.visit_expr(item.context_expr, info, func, live)
                if item.optional_vars is not None:
                    self.store(item.optional_vars, info, func, live, stmt)
            self.visit_body(stmt.body, info, func, main_block)
            return
        if isinstance(stmt, (ast.If, ast.While)):
            self.visit_expr(stmt.test, info, func, live)
            self.visit_body(stmt.body, info, func, main_block)
            self.visit_body(stmt.orelse, info, func, main_block)
            return
        if isinstance(stmt, ast.Try) or type(stmt).__name__ == 'TryStar':
            self.visit_body(stmt.body, info, func, main_block)
            for handler in stmt.handlers:
                if handler.type is not None:
                    self.visit_expr(handler.type, info, func, live)
                self.visit_body(handler.body, info, func, main_block)
            self.visit_body(stmt.orelse, info, func, main_block)
            self.visit_body(stmt.finalbody, info, func, main_block)
            return
        if isinstance(stmt, ast.Raise):
            for sub in (stmt.exc, stmt.cause):
                if sub is not None:
                    self.visit_expr(sub, info, func, live)
            return
        if isinstance(stmt, ast.Assert):
            self.visit_expr(stmt.test, info, func, live)
            if stmt.msg is not None:
                self.visit_expr(stmt.msg, info, func, live)
            return
        if isinstance(stmt, (ast.Import, ast.ImportFrom)):
            for alias in stmt.names:
                top = alias.name.split('.')[0]
                mod = (stmt.module or '').split('.')[0] \
                    if isinstance(stmt, ast.ImportFrom) else top
                if mod in NONDET_MODULES or top in NONDET_MODULES:
                    kind = NK_MODULE.get(mod, NK_MODULE.get(top, 'NOther'))
                    self.emit(func, text_of(stmt), f'CNondet {kind}', live)
                    break
            return
        if isinstance(stmt, (ast.Pass, ast.Break, ast.Continue)):
            return
        if isinstance(stmt, ast.Match):
            self.emit(func, text_of(stmt, 60), 'CUnknown', live)
            return
        self.emit(func, text_of(stmt, 60), 'CUnknown', live)

    # ---- pre-scan of a function: set-valued / list-kind / alias locals ----
    def prescan(self, info):
        nodes = list(own_nodes(info.node))
        # int-valued locals (for element kinds)
        for _ in range(2):
            for sub in nodes:
                if isinstance(sub, ast.Assign) and len(sub.targets) == 1 \
                        and isinstance(sub.targets[0], ast.Name):
                    name = sub.targets[0].id
                    if self.elem_kind(info, sub.value) == 'KInt':
                        info.int_locals.add(name)
        # element kinds of local lists
        for _ in range(2):
            for sub in nodes:
                if isinstance(sub, ast.Assign) and len(sub.targets) == 1 \
                        and isinstance(sub.targets[0], ast.Name) \
                        and isinstance(sub.value, (ast.List, ast.ListComp)):
                    name = sub.targets[0].id
                    kind = self.iter_elem_kind(info, sub.value)
                    info.list_kinds[name] = kjoin(
                        info.list_kinds.get(name, 'KEmpty'), kind)
                elif isinstance(sub, ast.Call):
                    mname, recv = call_name(sub.func)
                    if isinstance(recv, ast.Name) \
                            and recv.id in info.list_kinds and sub.args:
                        if mname == 'append':
                            kind = self.elem_kind(info, sub.args[0])
                        elif mname == 'extend':
                            kind = self.iter_elem_kind(info, sub.args[0])
                        else:
                            continue
                        info.list_kinds[recv.id] = kjoin(
                            info.list_kinds[recv.id], kind)
        # set-valued locals and aliases of globals (flow-insensitive)
        for _ in range(3):
            for sub in nodes:
                if isinstance(sub, ast.Assign):
                    self.unpack_tuple_call(info, sub)
                pairs = []
                if isinstance(sub, ast.Assign):
                    pairs = [(t, sub.value) for t in sub.targets]
                    if len(sub.targets) == 1 and isinstance(
                            sub.targets[0], (ast.Tuple, ast.List)) \
                            and isinstance(sub.value, (ast.Tuple, ast.List)) \
                            and len(sub.targets[0].elts) == len(sub.value.elts):
                        pairs = list(zip(sub.targets[0].elts, sub.value.elts))
                elif isinstance(sub, ast.AnnAssign) and sub.value is not None:
                    pairs = [(sub.target, sub.value)]
                elif isinstance(sub, ast.AugAssign):
                    pairs = [(sub.target, sub.value)]
                elif isinstance(sub, ast.NamedExpr):
                    pairs = [(sub.target, sub.value)]
                if isinstance(sub, ast.Call):
                    mname, recv = call_name(sub.func)
                    if isinstance(recv, ast.Name) \
                            and recv.id in info.set_locals and sub.args:
                        if mname == 'add':
                            kind = self.elem_kind(info, sub.args[0])
                        elif mname == 'update':
                            kind = self.iter_elem_kind(info, sub.args[0])
                        else:
                            kind = None
                        if kind is not None:
                            info.set_locals[recv.id] = kjoin(
                                info.set_locals[recv.id], kind)
                for tgt, value in pairs:
                    if not isinstance(tgt, ast.Name):
                        continue
                    kind = self.set_kind(info, value)
                    if kind is not None:
                        info.set_locals[tgt.id] = kjoin(
                            info.set_locals.get(tgt.id, 'KEmpty'), kind)
                    root, crossed = root_of(value)
                    if isinstance(value, (ast.Name, ast.Attribute,
                                          ast.Subscript)) \
                            and isinstance(root, ast.Name) and not crossed:
                        rname = root.id
                        if rname in info.aliases or (
                                rname not in info.locals
                                and rname != info.self_name
                                and (rname in self.module_names
                                     or rname in self.imported
                                     or rname in self.class_names)):
                            if isinstance(value, ast.Name) \
                                    and rname in self.class_names:
                                pass    # X = ClassName: alias of a class
                            info.aliases.add(tgt.id)

    def note_set_assign(self, info, tgt, value):
        '''Record package-wide facts about set-valued assignments.'''
        kind = self.set_kind(info, value)
        if kind is None:
            return
        if isinstance(tgt, ast.Attribute):
            self.summary.note(self.summary.set_attrs, tgt.attr, kind)
        elif isinstance(tgt, ast.Name):
            if info.node is self.tree or isinstance(info.node, ast.ClassDef):
                info.set_locals[tgt.id] = kind
                if isinstance(info.node, ast.ClassDef):
                    self.summary.note(self.summary.set_attrs, tgt.id, kind)

    # ---- stores ----
    def store(self, tgt, info, func, live, stmt):
        if isinstance(tgt, (ast.Tuple, ast.List)):
            for elt in tgt.elts:
                self.store(elt, info, func, live, stmt)
            return
        if isinstance(tgt, ast.Starred):
            self.store(tgt.value, info, func, live, stmt)
            return
        if isinstance(tgt, ast.Name):
            if tgt.id in info.globals_decl:
                self.emit(func, f'global store {tgt.id}', 'CStore RGlobal',
                          live)
            return
        if isinstance(tgt, (ast.Attribute, ast.Subscript)):
            rclass = self.root_class(info, tgt)
            # a set stored into a container is lost to the translator
            if isinstance(tgt, ast.Subscript) and isinstance(
                    stmt, (ast.Assign, ast.AnnAssign)) \
                    and stmt.value is not None \
                    and self.set_kind(info, stmt.value) is not None:
                self.emit(func, text_of(stmt), 'CSetEscape', live)
            if rclass == 'RGlobal' and id(info.node) in getattr(
                    self, 'import_nodes', set()):
                rclass = 'RModuleInit'      # inside a registrar decorator
            if rclass in ('RLocal', 'RSelf', 'RModuleInit'):
                self.count('store:' + rclass)
                return
            self.emit(func, text_of(tgt) + (' (del)' if isinstance(
                stmt, ast.Delete) else ' ='), f'CStore {rclass}', live)
            return
        self.emit(func, text_of(tgt), 'CUnknown', live)

    # ---- loops whose body commutes ----
    @staticmethod
    def commutative_body(stmt):
        '''``for x in S:`` whose body is nothing but ``del d[x]`` /
        ``d.pop(x[, default])`` / ``s.discard(x)`` / ``s.remove(x)`` /
        ``s.add(x)`` on containers named by plain local names other than the
        iterated expression: for the distinct elements of a set these
        operations commute, so the final state does not depend on the order
        (C18_remove_keys_order_irrelevant is the Coq statement for `del`).'''
        if not isinstance(stmt.target, ast.Name) or stmt.orelse \
                or not stmt.body:
            return False
        var = stmt.target.id
        iter_names = {n.id for n in ast.walk(stmt.iter)
                      if isinstance(n, ast.Name)}
        # `del d[x]` may name a dictionary that the iterable was COMPUTED from
        # (a set operator / a call building a new set: evaluated once, before
        # the loop); a bare name / attribute / view of it may not
        computed = isinstance(stmt.iter, (ast.BinOp, ast.SetComp)) or (
            isinstance(stmt.iter, ast.Call)
            and isinstance(stmt.iter.func, ast.Name))
        del_names = set() if computed else iter_names

        def is_var(node):
            return isinstance(node, ast.Name) and node.id == var

        for sub in stmt.body:
            if isinstance(sub, ast.Delete):
                for tgt in sub.targets:
                    if not (isinstance(tgt, ast.Subscript)
                            and isinstance(tgt.value, ast.Name)
                            and tgt.value.id not in del_names
                            and tgt.value.id != var and is_var(tgt.slice)):
                        return False
                continue
            if isinstance(sub, ast.Expr) and isinstance(sub.value, ast.Call):
                call = sub.value
                if isinstance(call.func, ast.Attribute) \
                        and call.func.attr in ('discard', 'remove', 'add',
                                               'pop') \
                        and isinstance(call.func.value, ast.Name) \
                        and call.func.value.id not in iter_names \
                        and call.func.value.id != var \
                        and call.args and is_var(call.args[0]) \
                        and not call.keywords \
                        and len(call.args) <= (2 if call.func.attr == 'pop'
                                               else 1) \
                        and all(isinstance(a, ast.Constant)
                                for a in call.args[1:]):
                    continue
            return False
        return True

    # ---- a literal tuple/list of sets used ONLY as the iterable of a loop ----
    def display_loop(self, target, iterable, info, func, live):
        '''``for x in (s1, s2):`` / ``for k, x in ((a, s1), (b, s2)):`` where
        some s_i are set-valued.  The display is anonymous (it cannot be
        reached from anywhere else), its own order is the textual order, and
        the sets it holds are reachable only through the loop variable at the
        matching position: that variable is made set-valued (one step, joined
        element kind) and every use of it is then judged by the ordinary rules
        (sorted / len / truth / membership are order-insensitive, anything else
        is reported).  Any other shape (nesting, starred elements, arity
        mismatch, non-name targets at a set position) is NOT handled here and
        falls back to the fail-closed CSetEscape.  Returns True when handled.'''
        if not isinstance(iterable, (ast.Tuple, ast.List)) or not iterable.elts:
            return False
        elts = iterable.elts
        if any(isinstance(e, ast.Starred) for e in elts):
            return False
        tracked = {}        # target name -> kind
        leaves = []         # expressions still to be visited
        if isinstance(target, ast.Name):
            kinds = [self.set_kind(info, e) for e in elts]
            if all(k is None for k in kinds):
                return False
            if any(isinstance(e, (ast.Tuple, ast.List, ast.Dict)) for e in elts):
                return False
            kind = 'KEmpty'
            for k in kinds:
                if k is not None:
                    kind = kjoin(kind, k)
            tracked[target.id] = kind
            leaves = list(elts)
        elif isinstance(target, (ast.Tuple, ast.List)):
            arity = len(target.elts)
            if not all(isinstance(e, (ast.Tuple, ast.List))
                       and len(e.elts) == arity
                       and not any(isinstance(x, ast.Starred) for x in e.elts)
                       for e in elts):
                return False
            found = False
            for j, tgt in enumerate(target.elts):
                column = [e.elts[j] for e in elts]
                kinds = [self.set_kind(info, x) for x in column]
                if any(isinstance(x, (ast.Tuple, ast.List, ast.Dict))
                       and any(self.set_kind(info, y) is not None
                               for y in ast.walk(x)
                               if isinstance(y, ast.expr) and y is not x)
                       for x in column):
                    return False        # a set nested deeper: not handled
                if all(k is None for k in kinds):
                    continue
                if not isinstance(tgt, ast.Name):
                    return False
                kind = 'KEmpty'
                for k in kinds:
                    if k is not None:
                        kind = kjoin(kind, k)
                tracked[tgt.id] = kind
                found = True
            if not found:
                return False
            leaves = [x for e in elts for x in e.elts]
        else:
            return False
        for name, kind in tracked.items():
            if name in info.globals_decl:
                return False
            info.set_locals[name] = kjoin(info.set_locals.get(name, 'KEmpty'),
                                          kind)
        for leaf in leaves:
            self.visit_expr(leaf, info, func, live)
        self.count('display-loop')
        return True

    # ---- set uses ----
    def loop_over(self, iterable, info, func, live, sink):
        '''`iterable` is iterated in order: report it when set-valued.'''
        kind = self.set_kind(info, iterable)
        if kind is not None:
            self.emit(func, 'iterate ' + text_of(iterable),
                      f'CSetLoop {kind} {sink}', live)
            return True
        return False

    # ---- tuples of sets crossing a function boundary ----
    def tuple_shape(self, info, value):
        '''(arity, {position: kind}) when `value` is a tuple display (no
        starred element, no set nested deeper) with at least one set-valued
        component, or a call of a function already known to return one.'''
        if isinstance(value, ast.Tuple) and value.elts:
            if any(isinstance(e, ast.Starred) for e in value.elts):
                return None
            pos = {}
            for j, elt in enumerate(value.elts):
                kind = self.set_kind(info, elt)
                if kind is not None:
                    pos[j] = kind
                elif isinstance(elt, (ast.Tuple, ast.List, ast.Dict, ast.Set)) \
                        and any(self.set_kind(info, y) is not None
                                for y in ast.walk(elt)
                                if isinstance(y, ast.expr) and y is not elt):
                    return None
            return (len(value.elts), pos) if pos else None
        if isinstance(value, ast.Call):
            name, _ = call_name(value.func)
            shape = self.summary.tuple_funcs.get(name)
            if shape is not None and shape[0] is not None:
                return shape
        return None

    def tuple_return(self, info, value, func, live):
        '''``return a, b, c`` with set-valued components (or ``return f(...)``
        with f such a function): the function is summarised by (arity,
        positions of the sets); callers must unpack the result into names of
        the same arity, which then become set-valued (unpack_tuple_call) — any
        other use of the call is reported at the call site.  Returns True when
        the return has been dealt with.'''
        shape = self.tuple_shape(info, value)
        if shape is None:
            return False
        fname = info.name.rpartition('.')[2]
        self.summary.note_tuple(fname, shape[0], shape[1])
        if self.summary.tuple_funcs[fname][0] is None:
            return False        # the returns disagree: old fail-closed path
        if isinstance(value, ast.Tuple):
            for elt in value.elts:
                self.visit_expr(elt, info, func, live)
        else:
            self.handled_calls.add(id(value))
            self.visit_expr(value, info, func, live)
        return True

    def unpack_tuple_call(self, info, stmt):
        '''``x, y, z = f(...)`` with f summarised by tuple_return: the names at
        the set positions become set-valued locals.'''
        value = stmt.value
        if not isinstance(value, ast.Call) or len(stmt.targets) != 1:
            return False
        name, _ = call_name(value.func)
        shape = self.summary.tuple_funcs.get(name)
        target = stmt.targets[0]
        if shape is None or shape[0] is None \
                or not isinstance(target, (ast.Tuple, ast.List)) \
                or len(target.elts) != shape[0] \
                or any(isinstance(e, ast.Starred) for e in target.elts):
            return False
        for j in shape[1]:
            if not isinstance(target.elts[j], ast.Name) \
                    or target.elts[j].id in info.globals_decl:
                return False
        for j, kind in shape[1].items():
            tgt = target.elts[j].id
            info.set_locals[tgt] = kjoin(info.set_locals.get(tgt, 'KEmpty'),
                                         kind)
        self.handled_calls.add(id(value))
        return True

    def flow_out(self, value, info, func, live, how):
        '''A value leaves the function (return / yield).'''
        kind = self.set_kind(info, value)
        if kind is not None and how == 'return':
            self.summary.note(self.summary.set_meths if info.cls is not None
                              else self.summary.set_funcs,
                              info.name.rpartition('.')[2], kind)
            return
        if isinstance(value, ast.Tuple):
            for elt in value.elts:
                if self.set_kind(info, elt) is not None:
                    self.emit(func, f'{how} tuple with set {text_of(elt)}',
                              'CSetEscape', live)

    def comp_sink(self, parent_call):
        if parent_call in INSENSITIVE_CONSUMERS or parent_call in (
                'max', 'min'):
            return 'SinkInsensitive'
        return 'SinkOrdered'

    def visit_expr(self, node, info, func, live, parent_call=None,
                   skip_loop=False):
        '''Walk an expression, reporting order-revealing uses of sets, file
        effects, nondeterminism sources, dynamic features and global
        mutation through method calls.'''
        if node is None:
            return
        if isinstance(node, ast.Lambda):
            sub = self.build_scope(node, func + '.<lambda>', info, None)
            self.visit_expr(node.body, sub, func, live)
            return
        if isinstance(node, (ast.ListComp, ast.SetComp, ast.GeneratorExp,
                             ast.DictComp)):
            if isinstance(node, ast.SetComp):
                sink = 'SinkInsensitive'
            elif isinstance(node, ast.GeneratorExp) and parent_call:
                sink = self.comp_sink(parent_call)
            else:
                sink = 'SinkOrdered'
            sub = FuncInfo(node, info.name, info, info.cls)
            sub.node = info.node
            sub.params = info.params
            sub.locals = set(info.locals)
            sub.aliases = set(info.aliases)
            sub.set_locals = dict(info.set_locals)
            sub.list_kinds = info.list_kinds
            sub.int_locals = info.int_locals
            sub.self_name, sub.cls_name = info.self_name, info.cls_name
            sub.globals_decl = info.globals_decl
            for gen in node.generators:
                names = set()
                bound_names(gen.target, names)
                sub.locals |= names
                for name in names:
                    sub.set_locals.pop(name, None)
                if not self.display_loop(gen.target, gen.iter, sub, func,
                                         live):
                    self.loop_over(gen.iter, sub, func, live, sink)
                    self.visit_expr(gen.iter, sub, func, live,
                                    skip_loop=True)
                for cond in gen.ifs:
                    self.visit_expr(cond, sub, func, live)
            if isinstance(node, ast.DictComp):
                self.visit_expr(node.key, sub, func, live)
                self.visit_expr(node.value, sub, func, live)
            else:
                self.visit_expr(node.elt, sub, func, live)
            return
        if isinstance(node, ast.Call):
            self.visit_call(node, info, func, live, skip_loop)
            return
        if isinstance(node, ast.JoinedStr):
            for value in node.values:
                if isinstance(value, ast.FormattedValue):
                    if self.set_kind(info, value.value) is not None:
                        self.loop_over(value.value, info, func, live,
                                       'SinkOrdered')
                    self.visit_expr(value.value, info, func, live)
            return
        if isinstance(node, ast.Starred):
            self.loop_over(node.value, info, func, live, 'SinkOrdered')
            self.visit_expr(node.value, info, func, live)
            return
        if isinstance(node, (ast.Yield, ast.YieldFrom)):
            if node.value is not None:
                if isinstance(node, ast.YieldFrom):
                    self.loop_over(node.value, info, func, live,
                                   'SinkOrdered')
                elif self.set_kind(info, node.value) is not None:
                    self.emit(func, 'yield ' + text_of(node.value),
                              'CSetEscape', live)
                self.flow_out(node.value, info, func, live, 'yield')
                self.visit_expr(node.value, info, func, live)
            return
        if isinstance(node, ast.BinOp) and isinstance(node.op, ast.Mod) \
                and isinstance(node.left, (ast.Constant, ast.JoinedStr)):
            # '%s' % x : rendering
            for sub in ([node.right] if not isinstance(node.right, ast.Tuple)
                        else node.right.elts):
                if self.set_kind(info, sub) is not None:
                    self.loop_over(sub, info, func, live, 'SinkOrdered')
        if isinstance(node, ast.Attribute):
            if isinstance(node.value, ast.Name) and node.value.id == 'sys' \
                    and node.attr in ('argv', 'flags', 'hash_info'):
                self.emit(func, text_of(node), 'CNondet NArgv'
                          if node.attr == 'argv' else 'CNondet NEnv', live)
            if isinstance(node.value, ast.Name) and node.value.id == 'os' \
                    and node.attr == 'environ':
                self.emit(func, text_of(node), 'CNondet NEnv', live)
        if isinstance(node, (ast.Tuple, ast.List, ast.Dict)):
            elts = node.elts if not isinstance(node, ast.Dict) \
                else [v for v in node.values if v is not None]
            for elt in elts:
                if self.set_kind(info, elt) is not None \
                        and not isinstance(elt, ast.Starred):
                    self.emit(func, 'set inside a container display: '
                              + text_of(elt), 'CSetEscape', live)
        if isinstance(node, ast.NamedExpr):
            self.visit_expr(node.value, info, func, live)
            return
        for child in ast.iter_child_nodes(node):
            if isinstance(child, ast.expr):
                self.visit_expr(child, info, func, live)
            elif isinstance(child, ast.comprehension):
                pass
            elif isinstance(child, ast.keyword):
                self.visit_expr(child.value, info, func, live)

    def visit_call(self, node, info, func, live, skip_loop):
        name, recv = call_name(node.func)
        dotted = text_of(node.func, 80)
        argl = list(node.args) + [k.value for k in node.keywords]
        has_key = any(k.arg == 'key' for k in node.keywords)

        # --- files ---
        if name == 'open':
            mode = None
            pos = 1 if recv is None else 0     # open(f, mode) / p.open(mode)
            if recv is not None and isinstance(recv, ast.Name) \
                    and recv.id in ('os', 'io', 'codecs', 'gzip', 'bz2'):
                pos = 1
            if len(node.args) > pos:
                mode = node.args[pos]
            for k in node.keywords:
                if k.arg == 'mode':
                    mode = k.value
            if mode is None:
                self.emit(func, text_of(node), 'COpen WRead', live)
            elif isinstance(mode, ast.Constant) and isinstance(mode.value, str):
                if any(ch in mode.value for ch in 'wax+'):
                    self.emit(func, text_of(node), 'COpen WWrite', live)
                else:
                    self.emit(func, text_of(node), 'COpen WRead', live)
            else:
                self.emit(func, text_of(node), 'COpen WUnknownMode', live)
        elif recv is not None and (name in FILE_EFFECT_METHODS or (
                name in FILE_EFFECT_QUALIFIED
                and isinstance(root_of(recv)[0], ast.Name)
                and root_of(recv)[0].id in FILE_MODULES
                and not (name == 'write'
                         and root_of(recv)[0].id == 'sys'))):
            if name == 'dump':
                fkind = 'FPickleWrite'
            elif name in ('write_text', 'write_bytes', 'savetxt', 'to_csv',
                          'tofile', 'save', 'savez', 'write', 'truncate'):
                fkind = 'FWriteCall'
            else:
                fkind = 'FFsChange'
            self.emit(func, text_of(node), f'CFileEffect {fkind}', live)
        elif recv is not None and name in ('load', 'loads') \
                and isinstance(root_of(recv)[0], ast.Name) \
                and root_of(recv)[0].id in ('pickle', 'cPickle', 'dill',
                                            'marshal', 'shelve', 'joblib'):
            # state persisted by an earlier run is read back
            self.emit(func, text_of(node), 'CFileEffect FPickleRead', live)
        elif name in PROCESS_STATE_CALLS and (
                recv is not None or name in ('exit',)):
            rroot, _ = root_of(recv) if recv is not None else (None, False)
            if recv is None or (isinstance(rroot, ast.Name)
                                and self.is_global_name(info, rroot.id)):
                self.emit(func, text_of(node), 'CStore RModule', live)
        # --- nondeterminism / dynamic features ---
        if name in DYNAMIC_CALLS:
            if name == 'setattr' and recv is None and node.args \
                    and isinstance(node.args[0], ast.Name) \
                    and info.self_name is not None \
                    and node.args[0].id == info.self_name:
                self.count('store:RSelf')       # setattr(self, name, value)
            else:
                self.emit(func, text_of(node), 'CDynamic', live)
        if name in NONDET_CALLS:
            flag = False
            if recv is None:
                flag = name in ('id', 'hash', 'getpid', 'urandom', 'getenv',
                                'getcwd', 'listdir', 'glob', 'time', 'random',
                                'mkdtemp', 'mkstemp', 'uuid4', 'uuid1') \
                    and not (name == 'hash' and func.endswith('__hash__')) \
                    and self.is_global_name(info, name)
            else:
                rroot, _ = root_of(recv)
                flag = isinstance(rroot, ast.Name) and (
                    self.is_global_name(info, rroot.id)
                    or rroot.id in NONDET_MODULES
                    or rroot.id in ('os', 'datetime', 'Path', 'sys')
                    or name in ('iterdir', 'glob', 'rglob', 'stat'))
                if name in ('choice', 'sample', 'shuffle', 'random', 'time',
                            'copy', 'run', 'node', 'platform', 'id', 'hash',
                            'stat', 'home', 'walk', 'clock') \
                        and isinstance(rroot, ast.Name) \
                        and rroot.id not in NONDET_MODULES \
                        and rroot.id not in ('os', 'Path', 'datetime'):
                    flag = False
            if flag:
                self.emit(func, text_of(node), f'CNondet {nkind_of(name)}',
                          live)

        # hash / id handed over as a function (sorted(..., key=hash))
        for sub in argl:
            if isinstance(sub, ast.Name) and sub.id in ('hash', 'id') \
                    and self.is_global_name(info, sub.id):
                self.emit(func, text_of(node), 'CNondet NIdentity', live)

        # --- mutation of a global through a method call ---
        if recv is not None and name in MUTATORS:
            rclass = self.root_class(info, recv)
            if name in ('pop', 'copy', 'update', 'add', 'remove', 'discard',
                        'clear') and self.set_kind(info, recv) is not None \
                    and name == 'pop':
                self.emit(func, 'set.pop ' + text_of(node),
                          f'CSetLoop {self.set_kind(info, recv)} SinkOrdered',
                          live)
            if rclass == 'RGlobal' and id(info.node) in getattr(
                    self, 'import_nodes', set()):
                rclass = 'RModuleInit'
            if rclass in ('RGlobal', 'RClass', 'RModule'):
                self.emit(func, text_of(node, 100) + ' (call)',
                          f'CStore {rclass}', live)
            elif rclass == 'RUnknown' and name not in ('write', 'pop', 'seek'):
                self.emit(func, text_of(node, 100) + ' (call)',
                          'CStore RUnknown', live)
            else:
                self.count('mutcall:' + rclass)

        # --- sets passed to callees ---
        recv_is_set = recv is not None and \
            self.set_kind(info, recv) is not None
        for idx, arg in enumerate(node.args):
            inner = arg.value if isinstance(arg, ast.Starred) else arg
            kind = self.set_kind(info, inner)
            comp = isinstance(inner, (ast.GeneratorExp, ast.ListComp))
            if kind is None:
                continue
            if isinstance(arg, ast.Starred):
                continue        # reported by visit_expr(Starred)
            if recv is None and name in INSENSITIVE_CONSUMERS and not (
                    name == 'sorted' and has_key):
                continue
            if recv is None and name in ('max', 'min') and not has_key:
                continue
            if recv is None and name == 'sum':
                if kind == 'KInt':
                    continue
                self.emit(func, text_of(node), f'CSetLoop {kind} SinkOrdered',
                          live)
                continue
            if recv is None and (name in ORDERED_CONSUMERS
                                 or name in ('sorted', 'max', 'min')):
                if not skip_loop:
                    self.emit(func, text_of(node),
                              f'CSetLoop {kind} SinkOrdered', live)
                elif name not in ('enumerate', 'zip', 'reversed', 'iter',
                                  'list', 'tuple', 'sorted'):
                    self.emit(func, text_of(node),
                              f'CSetLoop {kind} SinkOrdered', live)
                else:
                    # for ... in enumerate(<set>): the For reports nothing by
                    # itself (enumerate(...) is not a set), so report here
                    self.emit(func, 'iterate ' + text_of(node),
                              f'CSetLoop {kind} SinkOrdered', live)
                continue
            if recv is not None and recv_is_set and name in SET_METHODS_OK:
                continue
            if recv is not None and name == 'join':
                self.emit(func, text_of(node), f'CSetLoop {kind} SinkOrdered',
                          live)
                continue
            if recv is not None and name in ('extend', 'update', 'append',
                                             'insert', 'add', 'writelines',
                                             'setdefault', 'fromkeys'):
                if name in ('append', 'insert', 'add', 'setdefault'):
                    self.emit(func, text_of(node), 'CSetEscape', live)
                else:
                    self.emit(func, text_of(node),
                              f'CSetLoop {kind} SinkOrdered', live)
                continue
            # a callee defined in the package (matched by name)?
            plists = self.summary.func_params.get(name)
            if plists:
                for params, is_method in plists:
                    offs = 1 if (is_method and recv is not None) else 0
                    if recv is None and is_method and params \
                            and params[0] in ('self', 'cls'):
                        offs = 1     # ClassName(...) -> __init__ etc.
                    if idx + offs < len(params):
                        self.summary.note(self.summary.set_params,
                                          (name, params[idx + offs]), kind)
                continue
            self.emit(func, f'set {text_of(inner, 60)} passed to '
                      f'{dotted}(...)', 'CSetEscape', live)
        for k in node.keywords:
            kind = self.set_kind(info, k.value)
            if kind is None:
                continue
            plists = self.summary.func_params.get(name)
            if plists and k.arg is not None:
                for params, _ in plists:
                    if k.arg in params:
                        self.summary.note(self.summary.set_params,
                                          (name, k.arg), kind)
                continue
            self.emit(func, f'set {text_of(k.value, 60)} passed to '
                      f'{dotted}({k.arg}=...)', 'CSetEscape', live)

        # --- the set constructor handed over as a factory (defaultdict(set),
        #     setdefault(k, set) ...): sets the translator never sees ---
        for sub in argl:
            if isinstance(sub, ast.Name) and sub.id in ('set', 'frozenset') \
                    and self.is_global_name(info, sub.id):
                self.emit(func, f'set factory passed to {dotted}(...)',
                          'CSetEscape', live)

        # --- a tuple holding sets, returned by a package function, must be
        #     unpacked by its caller (or returned on) ---
        shape = self.summary.tuple_funcs.get(name)
        if shape is not None and shape[0] is not None \
                and id(node) not in self.handled_calls:
            self.emit(func, f'tuple with sets returned by {name}(...) is not '
                      'unpacked into names', 'CSetEscape', live)

        # --- iteration hidden in the call on a set receiver ---
        if recv_is_set and name not in SET_METHODS_OK and name != 'pop':
            self.emit(func, text_of(node), 'CSetEscape', live)

        # --- recurse ---
        loopers = ('enumerate', 'zip', 'reversed', 'iter', 'list', 'tuple',
                   'sorted')
        self.visit_expr(node.func, info, func, live)
        for arg in node.args:
            self.visit_expr(arg, info, func, live,
                            parent_call=name if recv is None else None,
                            skip_loop=(skip_loop and name in loopers))
        for k in node.keywords:
            self.visit_expr(k.value, info, func, live)


# --------------------------------------------------------------------------
# driver
# --------------------------------------------------------------------------

# --------------------------------------------------------------------------
# read-only literal tables
# --------------------------------------------------------------------------
READ_CALLS = {'len', 'sorted', 'list', 'tuple', 'dict', 'set', 'frozenset',
              'enumerate', 'reversed', 'min', 'max', 'any', 'all', 'bool',
              'isinstance', 'sum', 'zip', 'iter', 'map', 'filter'}
READ_METHODS = {'get', 'items', 'keys', 'values', 'index', 'count', 'copy',
                '__contains__', '__getitem__'}


def _imm(node):
    '''An expression whose value cannot be mutated through the table:
    constants, names of functions / classes / enum members, tuples of those.'''
    if isinstance(node, (ast.Constant, ast.Lambda)):
        return True
    if isinstance(node, ast.Name):
        return True
    if isinstance(node, ast.Attribute):
        return _imm(node.value)
    if isinstance(node, ast.Tuple):
        return all(_imm(e) for e in node.elts)
    if isinstance(node, ast.UnaryOp):
        return _imm(node.operand)
    return False


def table_kind(node):
    ''''dict' / 'seq' / 'set' / 'trans' when `node` is a literal table of
    immutable entries, else None.'''
    if isinstance(node, ast.Dict) and not node.keys:
        return 'dict-init'  # an empty dict: eligible only when filled by
                            # module-level statements alone (frozen_tables)
    if isinstance(node, (ast.List, ast.Set)) and not node.elts:
        return None         # an empty literal is there to be filled
    if isinstance(node, ast.Tuple):
        return 'seq' if node.elts and all(_imm(e) for e in node.elts) \
            else None
    if isinstance(node, ast.Dict):
        for key, val in zip(node.keys, node.values):
            if key is None:
                inner = table_kind(val)
                fromkeys = (isinstance(val, ast.Call)
                            and isinstance(val.func, ast.Attribute)
                            and val.func.attr == 'fromkeys'
                            and isinstance(val.func.value, ast.Name)
                            and val.func.value.id == 'dict'
                            and 1 <= len(val.args) <= 2
                            and all(_imm(a) for a in val.args)
                            and not val.keywords)
                if inner != 'dict' and not fromkeys:
                    return None
            elif not (_imm(key) and _imm(val)):
                return None
        return 'dict'
    if isinstance(node, ast.List):
        return 'seq' if all(_imm(e) for e in node.elts) else None
    if isinstance(node, ast.Set):
        return 'set' if all(_imm(e) for e in node.elts) else None
    if isinstance(node, ast.Call) and isinstance(node.func, ast.Attribute) \
            and node.func.attr == 'maketrans' \
            and isinstance(node.func.value, ast.Name) \
            and node.func.value.id == 'str' \
            and all(isinstance(a, ast.Constant) for a in node.args) \
            and not node.keywords:
        return 'trans'
    if isinstance(node, ast.Call) and isinstance(node.func, ast.Name) \
            and node.func.id == 'frozenset' and len(node.args) == 1 \
            and table_kind(node.args[0]) in ('set', 'seq'):
        return 'set'
    return None


def _parents(tree):
    parent = {}
    for node in ast.walk(tree):
        for child in ast.iter_child_nodes(node):
            parent[child] = node
    return parent


def _enclosing_functions(node, parent):
    out = []
    while node in parent:
        node = parent[node]
        if isinstance(node, (ast.FunctionDef, ast.AsyncFunctionDef,
                             ast.Lambda)):
            out.append(node)
    return out          # innermost first


def _closure_stateless(func):
    """No store / mutating call / nonlocal on a name that is not bound inside
    `func` itself: the closure cannot keep state between its calls."""
    bound = {a.arg for a in func.args.posonlyargs + func.args.args
             + func.args.kwonlyargs}
    if func.args.vararg:
        bound.add(func.args.vararg.arg)
    if func.args.kwarg:
        bound.add(func.args.kwarg.arg)
    body = func.body if isinstance(func.body, list) else [func.body]
    nodes = [n for stmt in body for n in ast.walk(stmt)]
    for n in nodes:
        if isinstance(n, ast.Name) and isinstance(n.ctx, ast.Store):
            bound.add(n.id)
    for n in nodes:
        if isinstance(n, (ast.Nonlocal, ast.Global)):
            return False
        target = None
        if isinstance(n, (ast.Subscript, ast.Attribute)) \
                and isinstance(n.ctx, (ast.Store, ast.Del)):
            target = n
        elif isinstance(n, ast.Call) and isinstance(n.func, ast.Attribute) \
                and n.func.attr in MUTATORS:
            target = n.func.value
        if target is not None:
            root, crossed = root_of(target)
            if crossed or not isinstance(root, ast.Name) \
                    or root.id not in bound:
                return False
    return True


def registrars(trees):
    """Module-level functions that are used ONLY as decorators (``@f`` or
    ``@f(...)`` on definitions), i.e. that run at import time only, and whose
    run-time closures are stateless.  Returns {name: ids of the function nodes
    that execute at import time (f itself and, for the call form, the nested
    decorator it returns)}."""
    defs = {}
    for tree in trees:
        for stmt in tree.body:
            if isinstance(stmt, ast.FunctionDef):
                defs.setdefault(stmt.name, []).append(stmt)
    uses = {name: [] for name in defs}
    for tree in trees:
        parent = _parents(tree)
        for node in ast.walk(tree):
            if isinstance(node, ast.Name) and node.id in uses:
                par = parent.get(node)
                form = None
                if isinstance(par, (ast.FunctionDef, ast.AsyncFunctionDef,
                                    ast.ClassDef)) \
                        and node in par.decorator_list:
                    form = 'bare'
                elif isinstance(par, ast.Call) and par.func is node:
                    gp = parent.get(par)
                    if isinstance(gp, (ast.FunctionDef, ast.AsyncFunctionDef,
                                       ast.ClassDef)) \
                            and par in gp.decorator_list:
                        form = 'call'
                uses[node.id].append(form)
            elif isinstance(node, ast.Attribute) and node.attr in uses:
                uses[node.attr].append(None)    # reached some other way
    out = {}
    for name, nodes in defs.items():
        forms = uses[name]
        if len(nodes) != 1 or not forms or any(f is None for f in forms) \
                or len(set(forms)) != 1:
            continue
        func = nodes[0]
        import_time = [func]
        nested = [n for n in ast.walk(func)
                  if isinstance(n, (ast.FunctionDef, ast.AsyncFunctionDef,
                                    ast.Lambda)) and n is not func]
        if forms[0] == 'call':
            returned = [st.value.id for st in ast.walk(func)
                        if isinstance(st, ast.Return)
                        and isinstance(st.value, ast.Name)]
            direct = [n for n in func.body
                      if isinstance(n, ast.FunctionDef)
                      and n.name in returned]
            if len(direct) != 1:
                continue
            import_time.append(direct[0])
        runtime = [n for n in nested if n not in import_time]
        if all(_closure_stateless(n) for n in runtime):
            out[name] = {id(n) for n in import_time}
    return out


def frozen_tables(trees, regs=None):
    """Names bound, at module or class level, to a literal table of immutable
    entries (or to an empty dict), such that EVERY other occurrence of the name
    in the package (as a bare name or as an attribute `x.NAME`) is a read:
    subscript load, `in`, len/sorted/list/..., .get/.items/.keys/.values/...,
    the iterable of a loop, */** unpacking, the argument of .translate() — or
    an IMPORT-TIME fill: `T[k] = v` / `T.update(...)` at module level or inside
    a registrar (a function used only as a decorator).  A table that is passed
    to any other callee, aliased, returned, stored into at run time, deleted,
    rebound, declared global, or (for a set) iterated is NOT in the result.
    Name-based across the package, hence conservative."""
    regs = regs or {}
    import_nodes = set()
    for ids in regs.values():
        import_nodes |= ids
    cands = {}      # name -> set of kinds ; None once disqualified
    for tree in trees:
        scopes = [tree] + [n for n in ast.walk(tree)
                           if isinstance(n, ast.ClassDef)]
        for scope in scopes:
            for stmt in scope.body:
                if isinstance(stmt, ast.Assign) and len(stmt.targets) == 1 \
                        and isinstance(stmt.targets[0], ast.Name):
                    kind = table_kind(stmt.value)
                    name = stmt.targets[0].id
                    if kind is not None and cands.get(name, set()) is not None:
                        cands.setdefault(name, set()).add(kind)
    if not cands:
        return set()

    def use_ok(kind, node, par, parent):
        dictish = kind in ('dict', 'dict-init')
        if isinstance(par, ast.Attribute) and par.value is node:
            gp = parent.get(par)
            called = isinstance(gp, ast.Call) and gp.func is par
            if par.attr in READ_METHODS and called:
                return kind != 'set'
            if par.attr in ('update', 'setdefault') and called and dictish:
                return import_time(gp, parent)
            return False
        if isinstance(par, ast.Subscript) and par.value is node:
            if isinstance(par.ctx, ast.Load):
                return dictish or kind == 'seq'
            if isinstance(par.ctx, ast.Store) and dictish:
                return import_time(par, parent)
            return False
        if isinstance(par, ast.Compare) and node in par.comparators \
                and all(isinstance(o, (ast.In, ast.NotIn)) for o in par.ops):
            return True
        if isinstance(par, ast.Call) and node in par.args:
            if isinstance(par.func, ast.Name) and par.func.id in READ_CALLS:
                return kind != 'set' or par.func.id in (
                    'len', 'sorted', 'bool', 'frozenset', 'set')
            if isinstance(par.func, ast.Attribute) \
                    and par.func.attr == 'translate' and kind == 'trans':
                return True
            return False
        if isinstance(par, (ast.For, ast.comprehension)) and par.iter is node:
            return dictish or kind == 'seq'
        if isinstance(par, ast.Starred):
            return kind == 'seq'
        if isinstance(par, ast.Dict) and node in par.values \
                and par.keys[par.values.index(node)] is None:
            return dictish
        if isinstance(par, ast.keyword) and par.arg is None:
            return dictish
        return False

    def import_time(node, parent):
        funcs = _enclosing_functions(node, parent)
        return all(id(f) in import_nodes for f in funcs)

    for tree in trees:
        parent = _parents(tree)
        for node in ast.walk(tree):
            if isinstance(node, (ast.Global, ast.Nonlocal)):
                for name in node.names:
                    if name in cands:
                        cands[name] = None
                continue
            if isinstance(node, ast.arg) and node.arg in cands:
                cands[node.arg] = None
                continue
            if isinstance(node, ast.Name):
                name = node.id
            elif isinstance(node, ast.Attribute):
                name = node.attr
            else:
                continue
            if cands.get(name) is None:
                continue
            par = parent.get(node)
            if isinstance(node.ctx, (ast.Store, ast.Del)):
                gp = parent.get(par)
                if isinstance(node, ast.Name) and isinstance(par, ast.Assign) \
                        and isinstance(gp, (ast.Module, ast.ClassDef)) \
                        and table_kind(par.value) is not None:
                    continue
                cands[name] = None
                continue
            if not all(use_ok(kind, node, par, parent)
                       for kind in cands[name]):
                cands[name] = None
    return {name for name, kinds in cands.items() if kinds}


def source_files(repo):
    repo = Path(repo)
    files = []
    for top in ('t4_geom_convert', 'MIP'):
        files.extend(sorted((repo / top).rglob('*.py')))
    return files


def collect_func_params(tree, table):
    def walk(node, in_class):
        for child in ast.iter_child_nodes(node):
            if isinstance(child, (ast.FunctionDef, ast.AsyncFunctionDef)):
                args = child.args
                params = [a.arg for a in args.posonlyargs + args.args]
                params_kw = [a.arg for a in args.kwonlyargs]
                decos = {call_name(d.func if isinstance(d, ast.Call) else d)[0]
                         for d in child.decorator_list}
                is_method = in_class and 'staticmethod' not in decos
                table.setdefault(child.name, []).append(
                    (params + params_kw, is_method))
                if in_class and child.name == '__init__':
                    table.setdefault(in_class, []).append(
                        (params + params_kw, True))
                walk(child, None)
            elif isinstance(child, ast.ClassDef):
                walk(child, child.name)
            else:
                walk(child, in_class)
    walk(tree, None)


def audit(repo):
    '''Returns (entries, info) for the working tree at `repo`.'''
    repo = Path(repo)
    trees, errors = {}, []
    for path in source_files(repo):
        try:
            trees[path] = ast.parse(path.read_text(encoding='utf-8'),
                                    filename=str(path))
        except (SyntaxError, UnicodeError) as exc:
            errors.append((path, exc))
    mods = {}
    for path, tree in trees.items():
        mods[module_name(repo, path)] = (tree, path.name == '__init__.py')
    live = live_modules(mods)
    summary = Summary()
    for tree in trees.values():
        collect_func_params(tree, summary.func_params)
    regs = registrars(list(trees.values()))
    frozen = frozen_tables(list(trees.values()), regs)
    audits = [FileAudit(repo, path, tree,
                        module_name(repo, path) in live, summary)
              for path, tree in trees.items()]
    import_nodes = set()
    for ids in regs.values():
        import_nodes |= ids
    for fa in audits:
        fa.frozen = frozen
        fa.registrars = set(regs)
        fa.import_nodes = import_nodes
    # fixpoint of the name-based summaries
    for _ in range(8):
        summary.changed = False
        for fa in audits:
            fa.run(emit=False)
        if not summary.changed:
            break
    entries = []
    counts = {}
    for fa in audits:
        fa.run(emit=True)
        entries.extend(fa.entries)
        for key, val in fa.counts.items():
            counts[key] = counts.get(key, 0) + val
    for path, exc in errors:
        entries.append({'file': str(path.relative_to(repo)), 'func': '<file>',
                        'text': f'unparsable: {type(exc).__name__}',
                        'live': True, 'c': 'CUnknown'})
    # de-duplicate identical entries (same construct twice in a function)
    seen, uniq = set(), []
    for ent in entries:
        key = (ent['file'], ent['func'], ent['text'], ent['live'], ent['c'])
        if key not in seen:
            seen.add(key)
            uniq.append(ent)
    info = {'files': len(trees), 'live_files': sum(
        1 for p in trees if module_name(repo, p) in live),
            'set_funcs': dict(summary.set_funcs),
            'frozen_tables': sorted(frozen),
            'set_attrs': dict(summary.set_attrs),
            'set_params': {f'{k[0]}:{k[1]}': v
                           for k, v in summary.set_params.items()},
            'local_store_counts': counts}
    return uniq, info


if __name__ == '__main__':
    import json
    import sys
    ents, inf = audit(sys.argv[1] if len(sys.argv) > 1 else '/repo')
    for e in ents:
        if '-a' in sys.argv or (e['live'] and not (
                e['c'] in ('CBinding ScModule VImmutable',
                           'CBinding ScClass VImmutable', 'COpen WRead'))):
            print(f"{e['file']} | {e['func']} | {e['text']} | "
                  f"{'live' if e['live'] else 'dead'} | {e['c']}")
    print(json.dumps(inf, indent=1))
