'''Line coverage of the anchored Python functions of C12 during the ties
(sys.settrace restricted to those code objects; same technique as C02's).
Lines that the tied calls cannot reach, or that belong to another property's
model, are listed by (function, source text) in EXEMPT with the reason;
everything else must be executed at least once.'''
import linecache
import sys
import types


def _codes(func):
    code = func.__code__
    out = [code]
    stack = [code]
    while stack:
        cur = stack.pop()
        for const in cur.co_consts:
            if isinstance(const, types.CodeType):
                out.append(const)
                stack.append(const)
    return out


class LineCov:
    def __init__(self, funcs):
        self.codes = {}
        for func in funcs:
            func = getattr(func, '__func__', func)
            for code in _codes(func):
                self.codes[code] = func.__qualname__
        self.hit = {code: set() for code in self.codes}
        self._prev = None

    def _global(self, frame, event, arg):
        if frame.f_code in self.codes:
            self.hit[frame.f_code].add(frame.f_lineno)
            return self._local
        return None

    def _local(self, frame, event, arg):
        if event == 'line':
            self.hit[frame.f_code].add(frame.f_lineno)
        return self._local

    def __enter__(self):
        self._prev = sys.gettrace()
        sys.settrace(self._global)
        return self

    def __exit__(self, *exc):
        sys.settrace(self._prev)
        return False

    def missing(self, unreachable):
        '''(number of executable lines, [(qualname, lineno, text)] never hit).'''
        out = []
        total = 0
        for code, name in self.codes.items():
            lines = {ln for _, _, ln in code.co_lines() if ln is not None}
            lines.discard(code.co_firstlineno)
            total += len(lines)
            for ln in sorted(lines - self.hit[code]):
                text = linecache.getline(code.co_filename, ln).strip()
                if any(fn in name and pat in text for fn, pat in unreachable):
                    continue
                out.append((name, ln, text))
        return total, out


EXEMPT = [
    # ParseMCNPCell.parse: the pickle cache of parsed cells (cell_cache_path is
    # None in the tied calls; the cache is property C18's subject)
    ('ParseMCNPCell.parse', 'try:'),
    ('ParseMCNPCell.parse', 'with self.cell_cache_path.open'),
    ('ParseMCNPCell.parse', 'abspath = self.cell_cache_path.resolve()'),
    ('ParseMCNPCell.parse', "print(f'reading MCNP cells from file"),
    ('ParseMCNPCell.parse', 'dict_cell, skipped_cells = pickle.load'),
    ('ParseMCNPCell.parse', "print(' done')"),
    ('ParseMCNPCell.parse', 'except IOError:'),
    ('ParseMCNPCell.parse', 'dict_cell, skipped_cells = self.parse_all_cells()'),
    ('ParseMCNPCell.parse', "print(f'writing MCNP cells to file"),
    ('ParseMCNPCell.parse', 'pickle.dump((dict_cell, skipped_cells), dicfile)'),
    # a geometry expression TatSu refuses: get_ast is property C11's model, the
    # C12 model carries the geometry text through
    ('ParseMCNPCell.parse_all_cells', "msg = (f'TatSu parsing failed for cell"),
    ('ParseMCNPCell.parse_all_cells', "'syntax of this cell.'.format(key))"),
    ('ParseMCNPCell.parse_all_cells', 'raise ParseMCNPCellError(msg) from err'),
    # get_cells(lim=None): the limit is never used by the converter
    ('get_cells', 'if lim and n > lim:'), ('get_cells', 'break'),
    # expand_data_card: dtype is 'int' or 'float' in every caller
    ('expand_data_card', "raise ValueError('unrecognized dtype"),
    # a TR card with m != 1 (C04 / C17)
    ('ParseMCNPCell.__init__', "raise NotImplementedError('affine transformations"),
    ('ParseMCNPCell.__init__', "'are not supported yet')"),
]


ANCHORED = [
    # (module, attribute path): resolved tolerantly - a name that a rewrite of
    # /repo removed or renamed is skipped and reported, never an error
    ('MIP.mip.datacard', 'expand_data_card'), ('MIP.mip.datacard', 'linspace'),
    ('MIP.mip.datacard', 'logspace'), ('MIP.mip.datacard', 'split'),
    ('MIP.mip.datacard', 'to_float'),
    ('MIP.geom.cells', 'get_cell_importances'), ('MIP.geom.cells', 'get_cells'),
    ('MIP.mip.cellcard', 'split'),
] + [('t4_geom_convert.Kernel.FileHandlers.Parser.ParseMCNPCell',
      'ParseMCNPCell.' + name)
     for name in ('__init__', 'parse_importance_cards', 'parse',
                  'parse_all_cells', 'parse_one_cell', 'parse_one_cell_worker',
                  'parse_material', 'apply_but', 'to_fillid', 'parse_keywords',
                  'parse_fill_kw', 'parse_lat_kw', 'parse_trcl_kw')]


def anchored_functions():
    '''(functions found, names not found).'''
    import importlib
    funcs, missing = [], []
    for modname, path in ANCHORED:
        try:
            obj = importlib.import_module(modname)
            for part in path.split('.'):
                obj = getattr(obj, part)
            getattr(obj, '__func__', obj).__code__   # a plain function?
            funcs.append(obj)
        except Exception:       # pylint: disable=broad-except
            missing.append(f'{modname}.{path}')
    return funcs, missing
