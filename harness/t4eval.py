'''Independent evaluator of written TRIPOLI-4 geometry (DESIGN.md Appendix B):
sense value of a point w.r.t. a SURF line and membership in a VOLU.'''
import math

import numpy as np


class T4EvalError(Exception):
    pass


def surf_value(t4, sid, p):
    '''Positive on the PLUS side.'''
    if sid not in t4.surfaces:
        raise T4EvalError(f'surface {sid} is not defined')
    typ, prm, tr = t4.surfaces[sid]
    p = np.asarray(p, float)
    if tr is not None:
        if tr not in t4.transforms:
            raise T4EvalError(f'transform {tr} is not defined')
        vals = t4.transforms[tr]
        shift = np.array(vals[0:3])
        rot = np.array(vals[3:12]).reshape(3, 3)
        p = rot.T @ (p - shift)        # the surface was moved by q -> R q + t
    x, y, z = (float(c) for c in p)
    if typ in ('PLANEX', 'PLANEY', 'PLANEZ'):
        return (x, y, z)['XYZ'.index(typ[-1])] - prm[0]
    if typ == 'PLANE':
        return prm[0] * x + prm[1] * y + prm[2] * z + prm[3]
    if typ == 'SPHERE':
        return (x - prm[0]) ** 2 + (y - prm[1]) ** 2 + (z - prm[2]) ** 2 \
            - prm[3] ** 2
    if typ in ('CYLX', 'CYLY', 'CYLZ'):
        k = 'XYZ'.index(typ[-1])
        q = [c for i, c in enumerate((x, y, z)) if i != k]
        return (q[0] - prm[0]) ** 2 + (q[1] - prm[1]) ** 2 - prm[2] ** 2
    if typ == 'CYL':
        c = np.array(prm[0:3])
        u = np.array(prm[4:7])
        u = u / np.linalg.norm(u)
        q = p - c
        perp = q - float(q @ u) * u
        return float(perp @ perp) - prm[3] ** 2
    if typ in ('CONEX', 'CONEY', 'CONEZ', 'CONE'):
        apex = np.array(prm[0:3])
        t = math.tan(math.radians(prm[3]))
        if typ == 'CONE':
            u = np.array(prm[4:7])
            u = u / np.linalg.norm(u)
        else:
            u = np.eye(3)['XYZ'.index(typ[-1])]
        q = p - apex
        axial = float(q @ u)
        perp = q - axial * u
        return float(perp @ perp) - t * t * axial * axial
    if typ == 'QUAD':
        a, b, c, d, e, f, g, h, j, k = prm
        return (a * x * x + b * y * y + c * z * z + d * x * y + e * y * z
                + f * z * x + g * x + h * y + j * z + k)
    if typ in ('TORUSX', 'TORUSY', 'TORUSZ'):
        k = 'XYZ'.index(typ[-1])
        q = [x - prm[0], y - prm[1], z - prm[2]]
        axial = q[k]
        rho = math.sqrt(sum(q[i] ** 2 for i in range(3) if i != k))
        return axial ** 2 / prm[4] ** 2 + (rho - prm[3]) ** 2 / prm[5] ** 2 - 1
    raise T4EvalError(f'unknown surface type {typ}')


class Evaluator:
    def __init__(self, t4, eps=1e-7):
        self.t4 = t4
        self.eps = eps

    def equa(self, vol, p, cache):
        for sid, want_plus in [(s, True) for s in vol['plus']] + \
                              [(s, False) for s in vol['minus']]:
            if sid not in cache:
                cache[sid] = surf_value(self.t4, sid, p)
            val = cache[sid]
            if abs(val) < self.eps:
                raise T4EvalError(f'point within eps of surface {sid}')
            if (val > 0) != want_plus:
                return False
        return True

    def inside(self, vid, p, cache=None, depth=0):
        if cache is None:
            cache = {}
        if depth > 200:
            raise T4EvalError('volume operators are cyclic')
        if vid not in self.t4.volumes:
            raise T4EvalError(f'volume {vid} is not defined')
        vol = self.t4.volumes[vid]
        base = self.equa(vol, p, cache)
        if vol['op'] == 'UNION':
            return base or any(self.inside(a, p, cache, depth + 1)
                               for a in vol['args'])
        if vol['op'] == 'INTE':
            return base and all(self.inside(a, p, cache, depth + 1)
                                for a in vol['args'])
        return base

    def owners(self, p):
        '''Non-FICTIVE volumes containing p.'''
        cache = {}
        return [vid for vid in self.t4.vol_order
                if not self.t4.volumes[vid]['fictive']
                and self.inside(vid, p, cache)]
