'''C13 ties: generators of descriptors, surface dictionaries, volume tables and
cell hierarchies; drivers that run the implementation's own functions on them;
rendering of inputs and canonical outputs as Coq terms.'''
import argparse
import contextlib
import io
import math

import numpy as np

import c13_cov

from common import cz, cn, cbool, cfloat, clist, copt, cpair

TYPES = ('PLANEX PLANEY PLANEZ PLANE SPHERE CYLX CYLY CYLZ CYL CONEX CONEY '
         'CONEZ CONE QUAD TORUSX TORUSY TORUSZ').split()
ARITY = {'PLANEX': 1, 'PLANEY': 1, 'PLANEZ': 1, 'PLANE': 4, 'SPHERE': 4,
         'CYLX': 3, 'CYLY': 3, 'CYLZ': 3, 'CYL': 7, 'CONEX': 4, 'CONEY': 4,
         'CONEZ': 4, 'CONE': 7, 'QUAD': 10, 'TORUSX': 6, 'TORUSY': 6,
         'TORUSZ': 6}


@contextlib.contextmanager
def quiet():
    with contextlib.redirect_stdout(io.StringIO()):
        yield


# ---------------------------------------------------------------------------
# descriptors
# ---------------------------------------------------------------------------

VALUES = [0.0, -0.0, 1.0, -1.0, 0.5, 2.0, 2.5, -3.0, 0.1, 1e-300, 4.0, 7.25,
          0.30000000000000004, 0.3, 1.0000000000000002]


def gen_value(rng):
    r = rng.random()
    if r < 0.6:
        return rng.choice(VALUES)
    if r < 0.8:
        return rng.choice([0, 1, -1, 2, 5])          # Python ints
    return round(rng.uniform(-5, 5), rng.choice([1, 3, 12]))


def gen_transform(rng):
    ang = rng.choice([0, 30, 45, 90, 180])
    c, s = math.cos(math.radians(ang)), math.sin(math.radians(ang))
    mats = [[c, -s, 0, s, c, 0, 0, 0, 1], [1, 0, 0, 0, c, -s, 0, s, c],
            [1, 0, 0, 0, 1, 0, 0, 0, 1]]
    tr = rng.choice([[0.0, 0.0, 0.0], [0.0, 0.0, 0.0], [1.0, 0.0, -2.0]])
    return ([float(v) for v in tr], [float(v) for v in rng.choice(mats)])


def gen_desc(rng):
    typ = rng.choice(TYPES) if rng.random() < 0.7 else \
        rng.choice(['PLANEX', 'PLANEY', 'SPHERE', 'TORUSZ'])
    n = ARITY[typ]
    prm = [gen_value(rng) for _ in range(n)]
    trans = None
    if typ.startswith('TORUS') and rng.random() < 0.6 or rng.random() < 0.1:
        trans = gen_transform(rng)
    return {'type': typ, 'params': prm, 'trans': trans}


def variant(rng, d):
    '''A descriptor close to d: equal, or different in one place.'''
    e = {'type': d['type'], 'params': list(d['params']),
         'trans': None if d['trans'] is None
         else (list(d['trans'][0]), list(d['trans'][1]))}
    kind = rng.choice(['same', 'same', 'zero', 'intfloat', 'ulp', 'type',
                       'short', 'long', 'trans_none', 'trans_other',
                       'trans_ulp', 'param', 'swap'])
    prm = e['params']
    k = rng.randrange(len(prm))
    if kind == 'zero':
        for i, v in enumerate(prm):
            if v == 0:
                prm[i] = -v if isinstance(v, float) else 0.0
        if e['trans'] is not None:
            e['trans'] = ([-v if v == 0 else v for v in e['trans'][0]],
                          [-v if v == 0 else v for v in e['trans'][1]])
    elif kind == 'intfloat':
        for i, v in enumerate(prm):
            if isinstance(v, int):
                prm[i] = float(v)
            elif float(v).is_integer() and abs(v) < 1e6 and \
                    math.copysign(1, v) > 0:
                prm[i] = int(v)
    elif kind == 'ulp':
        prm[k] = math.nextafter(float(prm[k]), math.inf)
    elif kind == 'param':
        prm[k] = gen_value(rng)
    elif kind == 'swap' and len(prm) > 1:
        j = (k + 1) % len(prm)
        prm[k], prm[j] = prm[j], prm[k]
    elif kind == 'type':
        same = [t for t in TYPES if ARITY[t] == len(prm) and t != e['type']]
        if same:
            e['type'] = rng.choice(same)
    elif kind == 'short':
        prm.pop()
    elif kind == 'long':
        prm.append(prm[-1])
    elif kind == 'trans_none':
        e['trans'] = None if e['trans'] is not None else \
            ([0.0, 0.0, 0.0], [1.0, 0, 0, 0, 1.0, 0, 0, 0, 1.0])
    elif kind == 'trans_other':
        e['trans'] = gen_transform(rng)
    elif kind == 'trans_ulp' and e['trans'] is not None:
        j = rng.randrange(9)
        e['trans'][1][j] = math.nextafter(e['trans'][1][j], math.inf)
    return e, kind


def to_surface(d, origin=()):
    from t4_geom_convert.Kernel.Surface.SurfaceT4 import SurfaceT4
    from t4_geom_convert.Kernel.Surface.ESurfaceTypeT4 import ESurfaceTypeT4
    trans = None
    if d['trans'] is not None:
        trans = (np.array(d['trans'][0], dtype=float),
                 np.array(d['trans'][1], dtype=float).reshape(3, 3))
    return SurfaceT4(getattr(ESurfaceTypeT4, d['type']), list(d['params']),
                     list(origin), transform=trans)


def coq_desc(d):
    trans = 'None'
    if d['trans'] is not None:
        trans = ('(Some (' + clist(cfloat(v) for v in d['trans'][0]) + ', '
                 + clist(cfloat(v) for v in d['trans'][1]) + '))')
    return (f'(mkDesc {cn(TYPES.index(d["type"]))} '
            + clist(cfloat(v) for v in d['params']) + f' {trans})')


def desc_key(d):
    '''Independent reading of "the same descriptor": type, parameter values,
    transformation values (-0.0 = 0.0, 1 = 1.0).'''
    return (d['type'], tuple(float(v) for v in d['params']),
            None if d['trans'] is None else
            (tuple(float(v) for v in d['trans'][0]),
             tuple(float(v) for v in d['trans'][1])))


# ---------------------------------------------------------------------------
# surface dictionaries and volume tables
# ---------------------------------------------------------------------------

def gen_surface_dict(rng, n=None, helpers=True):
    '''[(key, desc)] in insertion order; descriptors repeat. The last two
    entries are the union helper planes (PLANEX 1 / PLANEX -1, int params as in
    construct_volume_t4) when helpers=True; returns (items, u0, u1).'''
    n = n or rng.choice([1, 2, 3, 5, 8, 12])
    pool = [gen_desc(rng) for _ in range(max(1, n // 2))]
    if rng.random() < 0.4:
        pool.append({'type': 'PLANEX', 'params': [rng.choice([1.0, -1.0, 1])],
                     'trans': None})
    keys = rng.sample(range(1, 60), n)
    if rng.random() < 0.5:
        keys.sort()
    items = []
    for key in keys:
        if rng.random() < 0.7:
            d = rng.choice(pool)
            if rng.random() < 0.3:
                d, _ = variant(rng, d)
        else:
            d = gen_desc(rng)
        items.append((key, d))
    free = max(keys) + 1
    u0, u1 = free + 1, free + 2
    if helpers:
        items.append((u0, {'type': 'PLANEX', 'params': [1], 'trans': None}))
        items.append((u1, {'type': 'PLANEX', 'params': [-1], 'trans': None}))
    return items, u0, u1


def gen_volumes(rng, surf_keys, u0, u1, bad_refs=False):
    '''[(key, vol)] with vol = {'plus','minus','op','args','fictive'}.'''
    n = rng.choice([0, 1, 2, 2, 3, 4, 6, 9])
    keys = rng.sample(range(1, 80), n)
    vols = []
    for key in keys:
        k = rng.choice([0, 1, 1, 2, 3])
        chosen = rng.sample(surf_keys, min(k, len(surf_keys)))
        plus, minus = [], []
        for s in chosen:
            (plus if rng.random() < 0.5 else minus).append(s)
        r = rng.random()
        if r < 0.2 and chosen:
            # the same surface with both signs
            s = rng.choice(chosen)
            plus.append(s) if s not in plus else None
            minus.append(s) if s not in minus else None
        elif r < 0.3:
            plus, minus = [u0], [u1]
        if bad_refs and rng.random() < 0.2:
            plus.append(rng.choice([97, 98]))
        op, args = None, []
        if rng.random() < 0.6 and len(keys) > 1:
            op = rng.choice(['UNION', 'INTE'])
            others = [x for x in keys if x != key]
            args = rng.sample(others, rng.randint(1, min(3, len(others))))
        origin = [(rng.randint(1, 30), rng.randint(1, 30))
                  for _ in range(rng.choice([0, 0, 1, 2]))]
        vols.append((key, {'plus': sorted(set(plus)), 'minus': sorted(set(minus)),
                           'op': op, 'args': args,
                           'fictive': rng.random() < 0.5, 'origin': origin}))
    return vols


def to_volume_dict(vols):
    from t4_geom_convert.Kernel.Volume.DictVolumeT4 import DictVolumeT4
    from t4_geom_convert.Kernel.Volume.VolumeT4 import VolumeT4
    dic = DictVolumeT4()
    for key, v in vols:
        ops = None if v['op'] is None else (v['op'], tuple(v['args']))
        dic[key] = VolumeT4(list(v['plus']), list(v['minus']), ops=ops,
                            idorigin=[tuple(o) for o in v.get('origin', [])],
                            fictive=v['fictive'])
    return dic


def from_volume_dict(dic):
    out = []
    for key, v in dic.items():
        op, args = (None, []) if v.ops is None else (v.ops[0], list(v.ops[1]))
        out.append((key, {'plus': sorted(v.pluses), 'minus': sorted(v.minuses),
                          'op': op, 'args': args, 'fictive': bool(v.fictive),
                          'origin': [tuple(o) for o in v.idorigin]}))
    return out


def coq_volu(v):
    ops = 'None'
    if v['op'] is not None:
        kind = 'OUnion' if v['op'] == 'UNION' else 'OInte'
        ops = f'(Some ({kind}, {clist(cz(a) for a in v["args"])}))'
    origin = clist(cpair(cz(a), cz(b)) for a, b in v.get('origin', []))
    return (f'(MkVolu {clist(cz(s) for s in v["plus"])} '
            f'{clist(cz(s) for s in v["minus"])} {ops} {cbool(v["fictive"])} '
            f'{origin})')


def coq_volus(vols):
    return clist(cpair(cz(k), coq_volu(v)) for k, v in vols)


def coq_surfs(items):
    return clist(cpair(cz(k), coq_desc(d)) for k, d in items)


def impl_dedup(items):
    from t4_geom_convert.Kernel.Surface.Duplicates import \
        remove_duplicate_surfaces
    surfs = {k: to_surface(d, origin=[k]) for k, d in items}
    with quiet():
        new_surfs, ren = remove_duplicate_surfaces(surfs)
    return list(new_surfs.keys()), list(ren.items())


def impl_renumber(vols, ren):
    from t4_geom_convert.Kernel.Surface.Duplicates import renumber_surfaces
    dic = to_volume_dict(vols)
    try:
        with quiet():
            out = renumber_surfaces(dic, dict(ren))
    except KeyError:
        return ('err', 'EKey')
    except ValueError:
        return ('err', 'EValue')
    return ('ok', from_volume_dict(out))


def impl_finish(skip, items, vols, u0, u1):
    '''The real convertMCNPGeometry (with construct_surface_t4 and
    construct_volume_t4 replaced by stubs returning the generated tables)
    followed by the real writeT4Geometry.  Also returns what reached
    construct_volume_t4 (option plumbing).'''
    from t4_geom_convert.Kernel.FileHandlers.Writer import WriteT4Geometry as W
    surfs = {k: to_surface(d, origin=[k]) for k, d in items}
    dic = to_volume_dict(vols)
    seen = {}

    def fake_surf(_parser):
        return {}, {}

    def fake_vol(_parser, _lat, _cache, _s4, _sm, inline_filled,
                 inline_filling, max_inline_score):
        seen['args'] = (inline_filled, inline_filling, max_inline_score)
        # some volumes are in skipped_cells (importance 0): the writer leaves
        # their VOLU lines out but still writes their surfaces
        return dic, {}, surfs, [k for k, _ in vols[::3]], (u0, u1)
    args = argparse.Namespace(input='deck', cache=False,
                              skip_deduplication=skip,
                              always_inline_filled=False,
                              always_inline_filling=True,
                              max_inline_score=3.5)
    # the two constructors are reached through module-level names of
    # WriteT4Geometry; if a rewrite reaches them differently the stubs do not
    # take effect: fall back to the public functions the tail calls
    if not (hasattr(W, 'construct_surface_t4')
            and hasattr(W, 'construct_volume_t4')):
        return impl_finish_public(skip, surfs, dic, u0, u1), 'skipped'
    old = W.construct_surface_t4, W.construct_volume_t4
    W.construct_surface_t4, W.construct_volume_t4 = fake_surf, fake_vol
    try:
        with quiet():
            try:
                out = W.convertMCNPGeometry(None, {}, args)
                # (dic_surface_mcnp, dic_surface_t4, dic_volume, mcnp_new_dict,
                #  skipped_cells[, renumber]) - the 6th item came with the
                #  boundary-condition fix and is not used here
                s4, vol, skipped = out[1], out[2], out[4]
                buf = io.StringIO()
                W.writeT4Geometry(s4, vol, skipped, buf)
            except KeyError:
                if 'args' not in seen:
                    raise
                return ('err', 'EKey'), seen.get('args')
            except ValueError:
                if 'args' not in seen:
                    raise
                return ('err', 'EValue'), seen.get('args')
    except Exception:      # pylint: disable=broad-except
        # the stub was never reached (the rewrite bypasses the patched names),
        # or the rewrite expects another representation of what the
        # constructors return (a record instead of a tuple): use the public
        # functions of the tail instead
        W.construct_surface_t4, W.construct_volume_t4 = old
        surfs = {k: to_surface(d, origin=[k]) for k, d in items}
        return impl_finish_public(skip, surfs, to_volume_dict(vols), u0, u1), \
            'skipped'
    finally:
        W.construct_surface_t4, W.construct_volume_t4 = old
    written = [int(line.split()[1]) for line in buf.getvalue().splitlines()
               if line.startswith('SURF ')]
    return ('ok', list(s4.keys()), from_volume_dict(vol), written), \
        seen.get('args')


def impl_finish_public(skip, surfs, dic, u0, u1):
    '''The same tail through the public functions it calls, in the order of
    convertMCNPGeometry (used only when the constructors cannot be stubbed).'''
    from t4_geom_convert.Kernel.Surface.Duplicates import (
        remove_duplicate_surfaces, renumber_surfaces)
    from t4_geom_convert.Kernel.Volume.ConstructVolumeT4 import (
        remove_empty_volumes, remove_unused_volumes, extract_used_surfaces)
    from t4_geom_convert.Kernel.FileHandlers.Writer import WriteT4Geometry as W
    union_ids = (u0, u1)
    try:
        with quiet():
            if not skip:
                surfs, ren = remove_duplicate_surfaces(surfs)
                dic = renumber_surfaces(dic, ren)
                union_ids = tuple(ren[u] for u in union_ids)
            remove_empty_volumes(dic, union_ids)
            remove_unused_volumes(dic)
            buf = io.StringIO()
            W.writeT4Geometry(surfs, dic, [], buf)
    except KeyError:
        return ('err', 'EKey')
    except ValueError:
        return ('err', 'EValue')
    written = [int(line.split()[1]) for line in buf.getvalue().splitlines()
               if line.startswith('SURF ')]
    return ('ok', list(surfs.keys()), from_volume_dict(dic), written)


def coq_res(out, render):
    if out[0] == 'err':
        return f'(Err {out[1]})'
    return f'(Ok {render(out)})'


# ---------------------------------------------------------------------------
# cell hierarchies
# ---------------------------------------------------------------------------

def gen_tree(rng, refs, depth=0, surf_pool=8):
    '''('s', n) | ('r', cell) | (op, [children]) with op in '*', ':'.'''
    r = rng.random()
    if depth >= 3 or (depth > 0 and r < 0.45):
        if refs and rng.random() < 0.45:
            return ('r', rng.choice(refs))
        n = rng.randint(1, surf_pool)
        return ('s', n if rng.random() < 0.5 else -n)
    k = rng.choice([1, 2, 2, 3, 4])
    return (rng.choice('*:'), [gen_tree(rng, refs, depth + 1, surf_pool)
                               for _ in range(k)])


def gen_hierarchy(rng, cyclic=False, missing=False):
    '''[(key, {'u': universe, 'fill': None, 'geom': tree})] in dict order.
    References go to later cells (acyclic) unless cyclic=True.'''
    n = rng.choice([1, 2, 3, 4, 5, 7, 10])
    keys = rng.sample(range(1, 60), n)
    n_root = rng.randint(1, max(1, n // 2))
    cells = []
    for i, key in enumerate(keys):
        later = keys[i + 1:]
        if cyclic:
            later = keys
        if missing and rng.random() < 0.3:
            later = later + [99]
        top = rng.random()
        if top < 0.1:
            geom = ('s', rng.choice([3, -4]))       # a bare leaf at the top
        else:
            geom = gen_tree(rng, later)
            if geom[0] in 'sr':
                geom = ('*', [geom])
        cells.append((key, {'u': 0 if i < n_root else rng.choice([1, 2]),
                            'fill': None, 'geom': geom,
                            'origin': [(key + 1, 3)] if rng.random() < 0.3
                            else [], 'mat': rng.randint(0, 4)}))
    if rng.random() < 0.4:
        rng.shuffle(cells)
    return cells


def to_py_geom(tree, rng):
    from MIP.geom.semantics import GeomExpression, Surface
    from t4_geom_convert.Kernel.Volume.CellMCNP import CellRef
    if tree[0] == 's':
        return Surface(tree[1]) if rng.random() < 0.5 else tree[1]
    if tree[0] == 'r':
        return CellRef(tree[1])
    items = [tree[0]] + [to_py_geom(t, rng) for t in tree[1]]
    kind = rng.randrange(3)
    return items if kind == 0 else tuple(items) if kind == 1 \
        else GeomExpression(items)


def from_py_geom(geom):
    from MIP.geom.semantics import Surface
    from t4_geom_convert.Kernel.Volume.CellMCNP import CellRef
    if isinstance(geom, CellRef):
        return ('r', geom.cell)
    if isinstance(geom, Surface):
        assert geom.sub is None
        return ('s', geom.surface)
    if isinstance(geom, int):
        return ('s', geom)
    return (geom[0], [from_py_geom(g) for g in geom[1:]])


def to_cell_dict(cells, rng):
    from t4_geom_convert.Kernel.Volume.CellMCNP import CellMCNP
    dic = {}
    for key, c in cells:
        dic[key] = CellMCNP(c.get('mat', 0), str(c.get('mat', 0)) + '.5',
                            to_py_geom(c['geom'], rng), 1.0,
                            c['u'], c['fill'], None, None, [],
                            [tuple(o) for o in c.get('origin', [])])
    return dic


def from_cell_dict(dic):
    return [(key, {'u': int(c.universe),
                   'fill': None if c.fillid is None else int(c.fillid),
                   'geom': from_py_geom(c.geometry),
                   'origin': [tuple(o) for o in c.idorigin],
                   'mat': cell_mat(c)})
            for key, c in dic.items()]


def cell_mat(c):
    '''(materialID, density) as one integer tag; the generator keeps the two
    in step (density = "<mat>.5"), anything else is reported as -1.'''
    mat = int(c.materialID)
    return mat if str(c.density) == f'{mat}.5' else -1


def coq_geom(tree):
    if tree[0] == 's':
        return f'GSurf {cz(tree[1])}'
    if tree[0] == 'r':
        return f'GRef {cz(tree[1])}'
    op = 'true' if tree[0] == '*' else 'false'
    return f'GNode {op} ' + clist(coq_geom(t) for t in tree[1])


def coq_cells(cells):
    return clist(cpair(cz(k), f'MkCell {cz(c["u"])} {copt(c["fill"], cz)} '
                              f'({coq_geom(c["geom"])}) '
                              + clist(cpair(cz(a), cz(b))
                                      for a, b in c.get('origin', []))
                              + f' {cz(c.get("mat", 0))}')
                 for k, c in cells)


def impl_size(tree, rng):
    from t4_geom_convert.Kernel.Volume.CellInlining import (geometry_size,
                                                            extract_subcells)
    geom = to_py_geom(tree, rng)
    return geometry_size(geom), list(extract_subcells(geom))


def impl_occurrences(cells, rng):
    from t4_geom_convert.Kernel.Volume.CellInlining import find_occurrences
    dic = to_cell_dict(cells, rng)
    try:
        occ = find_occurrences(dic)
    except KeyError:
        return ('err', 'EKey')
    return ('ok', [(k, list(v)) for k, v in occ.items()])


def impl_inline(cells, score, rng):
    '''inline_cells(dic, score) through the public entry point, with the set of
    inlined cells obtained from the public find_occurrences and
    compute_inlining_scores (score < max, the selection rule of inline_cells)
    on a copy of the table - no private helper is hooked.  Returns
    (to_inline or None when those functions are not present, result).'''
    from t4_geom_convert.Kernel.Volume import CellInlining as CI
    find = getattr(CI, 'find_occurrences', None)
    scores = getattr(CI, 'compute_inlining_scores', None)
    if find is None or scores is None:
        return None, ('skip', 'find_occurrences / compute_inlining_scores '
                              'not present')
    probe = to_cell_dict(cells, random_copy(rng))
    try:
        occ = find(probe)
        ti = sorted(int(k) for k, sc in scores(probe, occ).items()
                    if sc < score) if occ else []
    except KeyError:
        ti = []
    dic = to_cell_dict(cells, rng)
    with quiet():
        try:
            CI.inline_cells(dic, score)
            out = ('ok', from_cell_dict(dic))
        except KeyError:
            out = ('err', 'EKey')
        except RecursionError:
            c13_cov.rearm()
            out = ('err', 'EFuel')
    return ti, out


def random_copy(rng):
    import random
    return random.Random(rng.random())


def impl_inline_plain(cells, score, rng):
    '''inline_cells(dic, score) with nothing captured.'''
    from t4_geom_convert.Kernel.Volume import CellInlining as CI
    dic = to_cell_dict(cells, rng)
    with quiet():
        try:
            CI.inline_cells(dic, score)
        except KeyError:
            return ('err', 'EKey')
        except RecursionError:
            c13_cov.rearm()
            return ('err', 'EFuel')
    return ('ok', from_cell_dict(dic))


def gen_fill_table(rng, cyclic=False):
    '''Cells of universes 0..3; some cells of universe u are FILLed with a
    universe > u (any universe when cyclic).'''
    n_univ = rng.choice([2, 2, 3, 4])
    cells = []
    keys = rng.sample(range(1, 50), rng.randint(n_univ, 3 * n_univ))
    for i, key in enumerate(keys):
        u = i if i < n_univ else rng.randrange(n_univ)
        fill = None
        deeper = list(range(u + 1, n_univ + (1 if rng.random() < 0.1 else 0)))
        if cyclic:
            deeper = list(range(n_univ))
        if deeper and rng.random() < 0.6:
            fill = rng.choice(deeper)
        geom = gen_tree(rng, [])
        if geom[0] == 's' and rng.random() < 0.7:
            geom = ('*', [geom])
        origin = []
        if rng.random() < 0.25:
            origin = [(rng.randint(50, 60), rng.randint(50, 60))
                      for _ in range(rng.choice([1, 2]))]
        cells.append((key, {'u': u, 'fill': fill, 'geom': geom,
                            'origin': origin, 'mat': rng.randint(0, 5)}))
    rng.shuffle(cells)
    return cells


def impl_fill(cells, fd, fg, rng):
    '''The FILL loop of construct_volume_t4 on a CellConversion built on the
    generated table (no transformations).'''
    from t4_geom_convert.Kernel.Volume.CellConversion import CellConversion
    from t4_geom_convert.Kernel.Volume.ByUniverse import by_universe
    dic = to_cell_dict(cells, rng)
    free_key = max(dic) + 1
    conv = CellConversion(free_key, 100, {}, {}, {}, dic)
    dict_universe = by_universe(dic)
    fill_keys = [key for key, value in dic.items()
                 if value.fillid is not None and value.universe == 0]
    try:
        for key in fill_keys:
            conv.pot_fill(key, dict_universe, inline_filled=fd,
                          inline_filling=fg)
    except KeyError:
        return free_key, ('err', 'EKey')
    except RecursionError:
        c13_cov.rearm()
        return free_key, ('err', 'EFuel')
    return free_key, ('ok', from_cell_dict(dic),
                      getattr(conv, 'new_cell_key', max(max(dic), free_key)))


# ---------------------------------------------------------------------------
# the FILL loop with transformations, captured from a real conversion
# ---------------------------------------------------------------------------

class Unsupported(Exception):
    pass


def snapshot_cells(mcnp_dict, mats):
    from MIP.geom.semantics import Surface
    cells, tinfo = [], []

    def check(geom):
        if isinstance(geom, Surface) and geom.sub is not None:
            raise Unsupported('facet reference')
        if isinstance(geom, (list, tuple)):
            if geom[0] not in '*:':
                raise Unsupported(f'operator {geom[0]!r}')
            for g in geom[1:]:
                check(g)
    for key, c in mcnp_dict.items():
        check(c.geometry)
        if c.lattice:
            raise Unsupported('lattice cell left')
        tag = mats.setdefault((str(c.materialID), str(c.density)), len(mats))
        cells.append((int(key), {
            'u': int(c.universe),
            'fill': None if c.fillid is None else int(c.fillid),
            'geom': from_py_geom(c.geometry),
            'origin': [(int(a), int(b)) for a, b in c.idorigin],
            'mat': tag}))
        ft = tuple(float(x) for x in c.filltr) if c.filltr else None
        tc = [tuple(float(x) for x in t) for t in (c.trcl or [])]
        if ft is not None or tc:
            tinfo.append((int(key), (ft, tc)))
    return cells, tinfo


def tree_leaves(tree):
    if tree[0] == 's':
        return [abs(tree[1])]
    if tree[0] == 'r':
        return []
    return [x for t in tree[1] for x in tree_leaves(t)]


def impl_fill_tr(deck_text, args):
    '''Run the real conversion and capture the cell table just before the FILL
    loop (at by_universe) and just after it (at inline_cells).  Only the tables
    are read (public attributes of the cells); the two counters are derived
    from them: the cells / surfaces made by the loop are numbered from
    counter + 1 upwards.  Returns (pre, post), None when the conversion does
    not get that far, or 'hooks-missing'.'''
    from t4_geom_convert.Kernel.Volume import ConstructVolumeT4 as CV
    import impl
    cap, mats = {}, {}
    if not all(hasattr(CV, n) for n in ('by_universe', 'inline_cells')):
        return 'hooks-missing'
    real_by, real_inl = CV.by_universe, CV.inline_cells

    def spy_by(mcnp_dict):
        try:
            cap['pre'] = snapshot_cells(mcnp_dict, mats)
        except Exception as exc:      # pylint: disable=broad-except
            cap['skip'] = repr(exc)
        return real_by(mcnp_dict)

    def spy_inl(mcnp_dict, score):
        try:
            cap['post'] = snapshot_cells(mcnp_dict, mats)[0]
        except Exception as exc:      # pylint: disable=broad-except
            cap['skip'] = repr(exc)
        return real_inl(mcnp_dict, score)
    CV.by_universe, CV.inline_cells = spy_by, spy_inl
    try:
        conv = impl.convert(deck_text, args, keep_stdout=False)
    finally:
        CV.by_universe, CV.inline_cells = real_by, real_inl
    if 'skip' in cap or 'pre' not in cap or 'post' not in cap:
        return ('not-captured', bool(conv.ok))
    cells, tinfo = cap['pre']
    post = cap['post']
    old_keys = {k for k, _ in cells}
    new_keys = [k for k, _ in post if k not in old_keys]
    ckey = min(new_keys) - 1 if new_keys else max(old_keys) + 1
    ckey2 = max(new_keys) if new_keys else ckey
    old_surfs = {x for _, c in cells for x in tree_leaves(c['geom'])}
    new_surfs = {x for _, c in post for x in tree_leaves(c['geom'])} - old_surfs
    skey = min(new_surfs) - 1 if new_surfs else max(old_surfs | {0})
    skey2 = max(new_surfs) if new_surfs else skey
    return (cells, tinfo, ckey, skey, 0), (post, ckey2, skey2)


def coq_tr(t):
    return clist(cfloat(x) for x in t)


def coq_tinfo(tinfo):
    return clist(cpair(cz(k), cpair(copt(ft, coq_tr),
                                     clist(coq_tr(t) for t in tc)))
                 for k, (ft, tc) in tinfo)
