'''Line coverage of the anchored Python functions of C13 during the ties
(sys.settrace restricted to those code objects; the deck sweep runs in worker
processes and is not counted).  Lines that the ties cannot reach are listed, by
their source text, in UNREACHABLE with the reason; everything else must be
executed at least once.'''
import linecache
import sys
import types


def _codes(func):
    code = func.__code__
    out = [code]
    stack = [code]
    while stack:
        cur = stack.pop()
        for const in cur.co_consts:
            if isinstance(const, types.CodeType):
                out.append(const)
                stack.append(const)
    return out


ACTIVE = None


def rearm():
    '''Python drops the trace function when it raises (RecursionError inside a
    traced frame): put it back.'''
    if ACTIVE is not None:
        sys.settrace(ACTIVE._global)


class LineCov:
    def __init__(self, funcs):
        self.codes = {}
        for func in funcs:
            func = getattr(func, '__func__', func)
            for code in _codes(func):
                self.codes[code] = func.__qualname__
        self.hit = {code: set() for code in self.codes}
        self._prev = None

    def _global(self, frame, event, arg):
        if frame.f_code in self.codes:
            self.hit[frame.f_code].add(frame.f_lineno)
            return self._local
        return None

    def _local(self, frame, event, arg):
        if event == 'line':
            self.hit[frame.f_code].add(frame.f_lineno)
        return self._local

    def __enter__(self):
        global ACTIVE
        self._prev = sys.gettrace()
        sys.settrace(self._global)
        ACTIVE = self
        return self

    def __exit__(self, *exc):
        global ACTIVE
        ACTIVE = None
        sys.settrace(self._prev)
        return False

    def missing(self, unreachable):
        '''[(qualname, lineno, text)] of executable lines never hit.'''
        out = []
        total = 0
        for code, name in self.codes.items():
            lines = {ln for _, _, ln in code.co_lines() if ln is not None}
            lines.discard(code.co_firstlineno)
            total += len(lines)
            for ln in sorted(lines - self.hit[code]):
                text = linecache.getline(code.co_filename, ln).strip()
                if any(pat in text for pat in unreachable):
                    continue
                out.append((name, ln, text))
        return total, out


UNREACHABLE = [
    # convertMCNPGeometry: the --cache branches (pickle files), never used by
    # the conversion options of this property
    'mcnp_cell_cache_path = input_file.with_suffix', 'try:', 'except:',
    'with t4_surf_cache_path.open', 'with t4_vol_cache_path.open',
    'abspath = ', "print(f'reading", "print(f'writing", "end='', flush=True)",
    'surf_conv = pickle.load(dicfile)', 'vol_conv = pickle.load(dicfile)',
    "print(' done', flush=True)", 'pickle.dump(',
    # ... and the second, textually identical copies of the two constructor calls
    # inside those branches (the reachable copies are checked by tie:plumbing)
    'surf_conv = construct_surface_t4(mcnp_parser)',
    'vol_conv = construct_volume_t4(mcnp_parser, lattice_params,',
    'mcnp_cell_cache_path,', 'dic_surface_t4,', 'dic_surface_mcnp,',
    'args.always_inline_filled,', 'args.always_inline_filling,',
    'args.max_inline_score)',
    # pot_transform: empty transformation / complement nodes / the assert
    'return p_tree', "if operator == '^':",
    # cell_transform: empty transformation (pot_fill never passes one)
    'if cache:', 'self.cell_transform_cache[cache_key] = cell_key',
    '(self.cell_transform_rcache', '.setdefault(cell_key, [])',
    '.append(cache_key))', 'return cell_key',
]


def anchored_functions():
    '''The anchored functions that exist in this working tree.  Resolution is
    tolerant (coverage is information only): a name that a rewrite removed or
    renamed is skipped and listed in MISSING.'''
    import importlib
    wanted = [
        ('t4_geom_convert.Kernel.Surface.SurfaceT4', 'SurfaceT4.__eq__'),
        ('t4_geom_convert.Kernel.Surface.SurfaceT4', 'SurfaceT4.__ne__'),
        ('t4_geom_convert.Kernel.Surface.SurfaceT4', 'SurfaceT4.__hash__'),
        ('t4_geom_convert.Kernel.Surface.Duplicates', 'remove_duplicate_surfaces'),
        ('t4_geom_convert.Kernel.Surface.Duplicates', 'renumber_surfaces'),
        ('t4_geom_convert.Kernel.Volume.CellInlining', 'find_occurrences'),
        ('t4_geom_convert.Kernel.Volume.CellInlining', 'extract_subcells'),
        ('t4_geom_convert.Kernel.Volume.CellInlining', 'compute_inlining_scores'),
        ('t4_geom_convert.Kernel.Volume.CellInlining', 'geometry_size'),
        ('t4_geom_convert.Kernel.Volume.CellInlining', 'inline_cells'),
        ('t4_geom_convert.Kernel.Volume.CellInlining', 'inline_cells_worker'),
        ('t4_geom_convert.Kernel.Volume.CellConversion', 'CellConversion.pot_fill'),
        ('t4_geom_convert.Kernel.Volume.CellConversion', 'CellConversion.cell_transform'),
        ('t4_geom_convert.Kernel.Volume.CellConversion', 'CellConversion.pot_transform'),
        ('t4_geom_convert.Kernel.Volume.ConstructVolumeT4', 'remove_empty_volumes'),
        ('t4_geom_convert.Kernel.Volume.ConstructVolumeT4', 'remove_unused_volumes'),
        ('t4_geom_convert.Kernel.Volume.ConstructVolumeT4', 'extract_used_surfaces'),
        ('t4_geom_convert.Kernel.FileHandlers.Writer.WriteT4Geometry', 'convertMCNPGeometry'),
        ('t4_geom_convert.Kernel.FileHandlers.Writer.WriteT4Geometry', 'writeT4Geometry'),
    ]
    funcs = []
    del MISSING[:]
    for modname, path in wanted:
        try:
            obj = importlib.import_module(modname)
            for part in path.split('.'):
                obj = getattr(obj, part)
            getattr(obj, '__func__', obj).__code__
            funcs.append(obj)
        except Exception:      # pylint: disable=broad-except
            MISSING.append(f'{modname}.{path}')
    return funcs


MISSING = []
