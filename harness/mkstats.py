#!/usr/bin/env python3
"""Print a Markdown table of what the committed evidence files say (theorem
count, axioms reported by Print Assumptions, obligations, evaluations on the
implementation, wall time, open finding classes).  Used to refresh DESIGN.md
Part I; nothing registered in MANIFEST.json depends on it."""
import json
import re
from pathlib import Path

VERIF = Path(__file__).resolve().parent.parent


def open_classes(pid):
    out = []
    for f in [VERIF / 'known_findings.txt', VERIF / 'findings' / f'{pid}.txt']:
        if not f.exists():
            continue
        for line in f.read_text().splitlines():
            m = re.match(r'\s*open:\s*property=(\w+)\s+(\S+)', line)
            if m and m.group(1) == pid:
                out.append(m.group(2))
    return out


def main():
    print('| id | theorems audited | with the four `Reals` axioms | closed | '
          'obligations | evaluations on /repo | quick wall (s) | open finding classes |')
    print('|---|---|---|---|---|---|---|---|')
    tot_t = tot_o = tot_e = 0
    for i in range(1, 19):
        pid = f'C{i:02d}'
        ev = json.loads((VERIF / 'evidence' / f'{pid}.json').read_text())
        cov = ev['coverage']
        thms = [o for o in cov.get('obligation_list', [])
                if o['name'].startswith('theorem ')]
        with_ax = sum(1 for o in thms if 'axioms: none' not in o.get('detail', ''))
        closed = len(thms) - with_ax
        tot_t += len(thms)
        tot_o += cov['obligations']
        tot_e += cov.get('evaluations', 0) or 0
        print(f"| {pid} | {len(thms)} | {with_ax} | {closed} | "
              f"{cov['discharged']}/{cov['obligations']} | {cov.get('evaluations', '–')} | "
              f"{ev.get('wall_s', '–')} | {', '.join(open_classes(pid)) or '–'} |")
    print(f'| all | {tot_t} | | | {tot_o} | {tot_e} | | |')


def patch_design():
    """Refresh the 'thms' column of DESIGN.md section I.2 and the size line of section I.1
    from the Coq sources (member theorems of coq/Properties/Cxx.v)."""
    import subprocess
    design = VERIF / 'DESIGN.md'
    text = design.read_text()
    total = 0
    for i in range(1, 19):
        pid = f'C{i:02d}'
        src = (VERIF / 'coq' / 'Properties' / f'{pid}.v').read_text()
        n = len(re.findall(r'^(?:Theorem|Lemma|Corollary) ', src, flags=re.M))
        total += n
        ev = json.loads((VERIF / 'evidence' / f'{pid}.json').read_text())
        audited = [o for o in ev['coverage'].get('obligation_list', []) if o['name'].startswith('theorem ')]
        with_ax = sum(1 for o in audited if 'axioms: none' not in o.get('detail', ''))
        if with_ax == 0:
            ax = 'none'
        elif with_ax == len(audited):
            ax = 'R'
        else:
            ax = f'none; R under {with_ax} of {len(audited)} audited statements (those linked to a property over the reals)'
        text, k = re.subn(rf'^\| {pid} \| \d+ \| [^|]* \|', f'| {pid} | {n} | {ax} |', text, count=1, flags=re.M)
        assert k == 1, pid
    coq = sum(len(f.read_text().splitlines()) for f in (VERIF / 'coq').rglob('*.v')
              if 'generated' not in f.parts)
    py = sum(len(f.read_text().splitlines()) for f in (VERIF / 'harness').rglob('*.py'))
    text, k = re.subn(r'Size: ~\d+ k lines of Coq, ~\d+ k lines of Python harness, \d+ property\n  theorems\.',
                      f'Size: ~{coq // 1000} k lines of Coq, ~{py // 1000} k lines of Python harness, {total} property\n  theorems.',
                      text, count=1)
    assert k == 1, 'size line'
    design.write_text(text)
    print(f'DESIGN.md: {total} theorems, {coq} lines of Coq, {py} lines of Python')


if __name__ == '__main__':
    import sys
    if '--design' in sys.argv:
        patch_design()
    else:
        main()
