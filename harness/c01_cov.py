'''C01 — line coverage of the anchored Python functions during the ties and the
sweeps (sys.settrace restricted to their code objects; same technique as C02).
Lines that no input of the property's domain can reach are listed, by source
text, in UNREACHABLE; every other line must be executed at least once.'''
import linecache
import sys
import types


def _codes(func):
    code = func.__code__
    out, stack = [code], [code]
    while stack:
        cur = stack.pop()
        for const in cur.co_consts:
            if isinstance(const, types.CodeType):
                out.append(const)
                stack.append(const)
    return out


class LineCov:
    def __init__(self, funcs):
        self.codes = {}
        for func in funcs:
            func = getattr(func, '__func__', func)
            for code in _codes(func):
                self.codes[code] = func.__qualname__
        self.hit = {code: set() for code in self.codes}
        self._prev = None

    def _global(self, frame, event, arg):
        if frame.f_code in self.codes:
            self.hit[frame.f_code].add(frame.f_lineno)
            return self._local
        return None

    def _local(self, frame, event, arg):
        if event == 'line':
            self.hit[frame.f_code].add(frame.f_lineno)
        return self._local

    def __enter__(self):
        self._prev = sys.gettrace()
        sys.settrace(self._global)
        return self

    def __exit__(self, *exc):
        sys.settrace(self._prev)
        return False

    def missing(self, unreachable):
        out, total = [], 0
        for code, name in self.codes.items():
            lines = {ln for _, _, ln in code.co_lines() if ln is not None}
            lines.discard(code.co_firstlineno)
            total += len(lines)
            for ln in sorted(lines - self.hit[code]):
                text = linecache.getline(code.co_filename, ln).strip()
                if any(pat in f'{name}::{text}' for pat in unreachable):
                    continue
                out.append((name, ln, text))
        return total, out


UNREACHABLE = [
    # pot_to_t4_cell: operators other than '*' and ':' do not exist after
    # pot_complement (C11_handover_no_complement)
    "raise CellConversionError('Converting cell with unexpected '",
    "f'operator: {operator}')",
    # isLeaf: the argument is always a tuple/list or a leaf object: the final
    # fall-through is never taken (the first `return False` is hit, so it is
    # not hidden by this entry)
    'isLeaf::return False',
    # largestPureIntersectionNode: a union member of a union (pot_optimise
    # has spliced those: C01_optimise_den's flattening)
    'largestPureIntersectionNode::continue',
    # writeT4Geometry: surfaces with a TRANSFORM block are C04/C08's decks
    'ofile.write(f"TRANSFORM {key} MATRIX {transform}\\n")',
    "transform_kw = f'TRANSFORM {key} '",
    # the writer's filter: a skipped cell (importance 0) never has a volume
    # (conv_keys excludes it; proved: written_all)
    'writeT4Geometry::continue',
]


MISSING = []        # anchored names that the working tree no longer has


def _resolve(module_name, *path):
    '''getattr chain that never raises: a renamed or removed helper is
    recorded and skipped (coverage is information only).'''
    try:
        import importlib
        obj = importlib.import_module(module_name)
        for name in path:
            obj = getattr(obj, name)
        return obj
    except Exception:      # pylint: disable=broad-except
        MISSING.append('.'.join((module_name,) + path))
        return None


def anchored_functions():
    del MISSING[:]
    cc = 't4_geom_convert.Kernel.Volume.CellConversion'
    tf = 't4_geom_convert.Kernel.Volume.TreeFunctions'
    cv = 't4_geom_convert.Kernel.Volume.ConstructVolumeT4'
    vt = 't4_geom_convert.Kernel.Volume.VolumeT4'
    wanted = [(cc, 'CellConversion', n) for n in (
        'conv_equa', 'conv_intersection', 'conv_union', 'conv_union_helpers',
        'pot_flag', 'pot_expand_surfs', 'pot_optimise', 'pot_convert',
        'convert_surface', 'convert_cellref', 'pot_to_t4_cell')]
    wanted += [(tf, n) for n in ('isLeaf', 'isSurface', 'isCellRef',
                                 'isIntersection', 'isUnion',
                                 'largestPureIntersectionNode')]
    wanted += [(cv, n) for n in ('remove_empty_volumes',
                                 'remove_unused_volumes',
                                 'extract_used_surfaces')]
    wanted += [(vt, 'VolumeT4', n) for n in ('__init__', '__str__', 'copy',
                                             'comment', 'empty',
                                             'surface_ids')]
    wanted += [('t4_geom_convert.Kernel.Surface.Duplicates',
                'renumber_surfaces'),
               ('t4_geom_convert.Kernel.FileHandlers.Writer.WriteT4Geometry',
                'writeT4Geometry')]
    funcs = []
    for spec in wanted:
        obj = _resolve(*spec)
        if obj is not None and hasattr(getattr(obj, '__func__', obj),
                                       '__code__'):
            funcs.append(obj)
    return funcs


ACTIVE = None      # the LineCov of the current run


class traced:
    '''Trace the enclosed calls when `on` (tracing everything would triple
    the run time: a prefix of every stream is traced).'''

    def __init__(self, on=True):
        self.on = on and ACTIVE is not None

    def __enter__(self):
        if self.on:
            ACTIVE.__enter__()

    def __exit__(self, *exc):
        if self.on:
            ACTIVE.__exit__()
        return False
