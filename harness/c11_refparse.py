'''C11 helper: an independent reader of MCNP cell expressions, written from the
MCNP manual's description of cell cards (not from the converter):

  * a surface reference is an optionally signed integer, optionally followed
    by ".k" with one facet digit 1-9; it ends at a blank, a parenthesis, a
    colon, a '#' or the end of the text (so "1-2", "1+2", "1.23" are not
    expressions);
  * blank = intersection, ':' = union, intersection binds tighter, both
    associate; parentheses group;
  * '#' followed by an unsigned cell number is the complement of that cell,
    '#' followed by '(' ... ')' the complement of the expression; blanks may
    follow the '#'.

``parse(text)`` returns the abstract expression used by props/c11.py
(('s', z, sub) | ('*', a, b) | (':', a, b) | ('#', e) | ('#c', n) | ('p', e))
or None when the text is not an expression.  Recursive descent over a token
list; deliberately structured differently from both the converter (regex
rewriting + PEG) and the Coq model (pushdown automaton).'''

DELIMS = ' ():#'


def tokens(text):
    '''list of ('n', z, sub) | ('(',) | (')',) | (':',) | ('#',) or None'''
    out = []
    i, n = 0, len(text)
    while i < n:
        ch = text[i]
        if ch == ' ':
            i += 1
        elif ch in '():#':
            out.append((ch,))
            i += 1
        elif ch in '+-' or ch.isdigit():
            j = i + 1 if ch in '+-' else i
            k = j
            while k < n and text[k].isdigit():
                k += 1
            if k == j:
                return None                 # a sign without digits
            sub = None
            if k < n and text[k] == '.':
                if k + 1 < n and text[k + 1] in '123456789':
                    sub = int(text[k + 1])
                    k += 2
                else:
                    return None
            if k < n and text[k] not in DELIMS:
                return None                 # number runs into something else
            z = int(text[j:k].split('.')[0])
            out.append(('n', -z if ch == '-' else z, sub,
                        ch in '+-'))
            i = k
        else:
            return None
    return out


class _Reader:
    def __init__(self, toks):
        self.toks, self.pos = toks, 0

    def peek(self):
        return self.toks[self.pos][0] if self.pos < len(self.toks) else None

    def union(self):
        left = self.isect()
        if left is None:
            return None
        while self.peek() == ':':
            self.pos += 1
            right = self.isect()
            if right is None:
                return None
            left = (':', left, right)
        return left

    def isect(self):
        left = self.operand()
        if left is None:
            return None
        while self.peek() in ('n', '(', '#'):
            right = self.operand()
            if right is None:
                return None
            left = ('*', left, right)
        return left

    def operand(self):
        kind = self.peek()
        if kind == 'n':
            tok = self.toks[self.pos]
            self.pos += 1
            return ('s', tok[1], tok[2])
        if kind == '(':
            self.pos += 1
            inner = self.union()
            if inner is None or self.peek() != ')':
                return None
            self.pos += 1
            return ('p', inner)
        if kind == '#':
            self.pos += 1
            if self.peek() == 'n':
                tok = self.toks[self.pos]
                if tok[2] is not None or tok[3]:
                    return None             # cell numbers: unsigned, no facet
                self.pos += 1
                return ('#c', tok[1])
            if self.peek() == '(':
                self.pos += 1
                inner = self.union()
                if inner is None or self.peek() != ')':
                    return None
                self.pos += 1
                return ('#', inner)
        return None


def parse(text):
    toks = tokens(text)
    if not toks:
        return None
    reader = _Reader(toks)
    expr = reader.union()
    if expr is None or reader.pos != len(toks):
        return None
    return expr
