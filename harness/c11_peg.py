'''C11 helper: the harness PEG shim with completed results memoised.

``shim_peg.Parser._rule`` forgets the result of a rule once its seed growing
ends, so every enclosing alternative re-parses nested parentheses from scratch
(`((((1))))` takes about a second, `(((((1)))))` ten).  This subclass keeps
the final result of (rule, position) when no other left-recursive head is
still growing at the same position — such a result cannot depend on a seed,
because rules invoked at a position never look at memo entries of smaller
positions.  Same grammar interpreter, same semantic actions, same exceptions;
`cross_check` compares both parsers on given texts (run by props/c11.py on
every check).  See notes/C11.md, shared-file requests.'''
import shim_peg


class FastParser(shim_peg.Parser):

    def parse(self, text, semantics=None, **kwargs):
        self.final = {}
        self.active = {}
        return super().parse(text, semantics=semantics, **kwargs)

    def _rule(self, name, pos):
        key = (name, pos)
        if key in self.memo:
            return self.memo[key]
        if key in self.final:
            return self.final[key]
        self.memo[key] = None
        self.active[pos] = self.active.get(pos, 0) + 1
        best = None
        try:
            while True:
                res = self._body(name, pos)
                if res is None or (best is not None and res[1] <= best[1]):
                    break
                best = res
                self.memo[key] = best
        finally:
            self.memo.pop(key, None)
            self.active[pos] -= 1
        if self.active[pos] == 0:
            self.final[key] = best
        return best


def install():
    '''Replace MIP.geom.parsegeom.parser by the memoising shim; idempotent.
    Returns (module, plain shim parser) — the latter for cross checks.'''
    import MIP.geom.parsegeom as pg
    if not isinstance(pg.parser, FastParser):
        pg.parser = FastParser(pg.grammar)
    return pg, shim_peg.Parser(pg.grammar)
