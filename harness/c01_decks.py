'''C01 — deck level: generated decks converted by the real code with the data
the model needs captured on the way (mcnp_dict, matching, counter, union_ids,
renumbering), the written file compared with the model and, independently,
with harness/mcnpref.py at sample points.'''
import random
from collections import OrderedDict

import common
import deck as deckmod
import geomcheck
import impl
import c01_gen as G

HEADER = ('From Coq Require Import List ZArith Bool.\n'
          'From T4V Require Import C01.Model C01.Printer C01.Exec.\n'
          'Import ListNotations.\nOpen Scope Z_scope.\n')


# --------------------------------------------------------------------------
# running the converter with observation wrappers
# --------------------------------------------------------------------------

def convert_captured(text, extra_args=()):
    '''impl.convert with wrappers (calling through) around construct_volume_t4,
    renumber_surfaces, remove_unused_volumes and CellConversion.pot_convert.'''
    from t4_geom_convert.Kernel.FileHandlers.Writer import WriteT4Geometry as W
    from t4_geom_convert.Kernel.Volume.CellConversion import CellConversion
    cap = {}
    orig_cv, orig_rn, orig_ru = (W.construct_volume_t4, W.renumber_surfaces,
                                 W.remove_unused_volumes)
    orig_pc = CellConversion.pot_convert

    def cv(parser, lat, path, dic_surface_t4, dic_surface_mcnp, *rest):
        out = orig_cv(parser, lat, path, dic_surface_t4, dic_surface_mcnp,
                      *rest)
        dic_vol, mcnp_dict, _numbering, skipped, union_ids = out
        cap['before'] = G.canon_table(dic_vol)
        cap['mcnp_dict'] = mcnp_dict
        cap['union_ids'] = tuple(union_ids)
        cap['skipped'] = list(skipped)
        cap['matching'] = dic_surface_t4.number_items()[1]
        conv = cap.get('conv')
        if conv is not None:
            cap['cnt'] = getattr(conv, 'new_cell_key', None)
            cap['sc'], cap['cc'] = G.read_caches(conv)
        return out

    def pc(self, cell, matching, union_ids):
        if 'conv' not in cap:
            cap['conv'] = self
            cap['cnt0'] = getattr(self, 'new_cell_key', None)
        return orig_pc(self, cell, matching, union_ids)

    def rn(volus, renumbering):
        cap['rn'] = {int(k): int(v) for k, v in renumbering.items()}
        return orig_rn(volus, renumbering)

    def ru(dic):
        out = orig_ru(dic)
        cap['final'] = G.canon_table(dic)
        return out
    W.construct_volume_t4, W.renumber_surfaces, W.remove_unused_volumes = \
        cv, rn, ru
    CellConversion.pot_convert = pc
    try:
        conv = impl.convert(text, list(extra_args))
    finally:
        W.construct_volume_t4, W.renumber_surfaces, \
            W.remove_unused_volumes = orig_cv, orig_rn, orig_ru
        CellConversion.pot_convert = orig_pc
    cap.pop('conv', None)
    return conv, cap


class Unsupported(Exception):
    pass


def abstract_tree(geom):
    from MIP.geom.semantics import Surface
    from t4_geom_convert.Kernel.Volume.CellMCNP import CellRef
    if isinstance(geom, Surface):
        return ('s', geom.surface, geom.sub)
    if isinstance(geom, CellRef):
        return ('r', int(geom.cell))
    if isinstance(geom, (tuple, list)) and geom and geom[0] in ('*', ':'):
        return (geom[0], [abstract_tree(k) for k in geom[1:]])
    raise Unsupported(repr(geom)[:80])


def case_of_capture(cap):
    cells = OrderedDict()
    for key, cell in cap['mcnp_dict'].items():
        cells[int(key)] = {'geom': abstract_tree(cell.geometry),
                           'orig': [tuple(int(x) for x in p)
                                    for p in cell.idorigin],
                           'imp': cell.importance, 'u': int(cell.universe),
                           'fill': cell.fillid is not None}
    return {'cells': cells, 'order': list(cells),
            'matching': OrderedDict((int(k), [int(t) for t in v])
                                    for k, v in cap['matching'].items()),
            'u0': cap['union_ids'][0], 'u1': cap['union_ids'][1],
            'cnt0': cap['cnt0'], 'rn': cap.get('rn'),
            'skipped': [int(c) for c in cap['skipped']], 'partition': False}


# --------------------------------------------------------------------------
# deck generation
# --------------------------------------------------------------------------

BODY_KINDS = ['rpp', 'rcc', 'sph']


def random_body(rng, sid):
    mn = rng.choice(BODY_KINDS)
    if mn == 'rpp':
        lo = [rng.choice([-2, -1.5, -1, -0.5]) for _ in range(3)]
        hi = [rng.choice([0.5, 1, 1.5, 2]) for _ in range(3)]
        prm = [lo[0], hi[0], lo[1], hi[1], lo[2], hi[2]]
    elif mn == 'rcc':
        axis = rng.randrange(3)
        base = [rng.choice([-1, -0.5, 0]) for _ in range(3)]
        h = [0.0, 0.0, 0.0]
        h[axis] = rng.choice([1.5, 2, 2.5])
        prm = base + h + [rng.choice([0.75, 1, 1.5])]
    else:
        prm = [rng.choice([-1, 0, 0.5]) for _ in range(3)] + \
            [rng.choice([1, 1.5, 2])]
    return {'id': sid, 'mn': mn, 'params': [float(v) for v in prm],
            'tr': None, 'bc': ''}


N_FACETS = {'rpp': 6, 'rcc': 3, 'sph': 1}


def gen_surfaces(rng, first_id, n, bodies=True):
    surfs = []
    for k in range(n):
        sid = first_id + k
        if bodies and rng.random() < 0.2:
            surfs.append(random_body(rng, sid))
        elif surfs and rng.random() < 0.12:
            # an exact duplicate of an earlier surface: merged by the
            # de-duplication, may make volumes patently empty
            src = rng.choice(surfs)
            dup = dict(src)
            dup['id'] = sid
            surfs.append(dup)
        elif rng.random() < 0.08:
            # user planes coinciding with the union helper planes x=1 / x=-1
            surfs.append({'id': sid, 'mn': 'px',
                          'params': [rng.choice([1.0, -1.0])], 'tr': None,
                          'bc': ''})
        else:
            surfs.append(deckmod.random_surface(rng, sid))
    return surfs


def rand_expr_from_leaf(rng, lits, surfs_by_id):
    '''Intersection of literals; a literal on a body may be replaced by its
    facets (inside = all facets negative).'''
    return deckmod.leaf_expr(lits)


def union_dress(rng, exprs):
    '''Merge some leaves of the partition into unions so that both union
    branches (with and without a pure-intersection member) occur.'''
    out = list(exprs)
    while len(out) > 2 and rng.random() < 0.5:
        a = out.pop(rng.randrange(len(out)))
        b = out.pop(rng.randrange(len(out)))
        kids = []
        for e in (a, b):
            kids.extend(e[1:] if e[0] == ':' else [e])
        rng.shuffle(kids)
        out.append((':',) + tuple(kids))
    return out


def gen_universe(rng, surf_ids, first_cell, n_cells, univ, allow_empty=False):
    leaves = deckmod.bsp(rng, surf_ids, n_cells)
    exprs = [deckmod.leaf_expr(l) if l else None for l in leaves]
    if exprs[0] is None:
        # a single cell covering everything: use s : -s
        s = surf_ids[0]
        exprs = [(':', deckmod.S(s), deckmod.S(-s))]
    exprs = union_dress(rng, exprs)
    ids = list(range(first_cell, first_cell + len(exprs)))
    exprs = deckmod.dress(rng, exprs, ids)
    cells = []
    for cid, expr in zip(ids, exprs):
        cells.append({'id': cid, 'mat': 0, 'rho': None, 'expr': expr,
                      'imp': {'n': 1}, 'u': univ, 'lat': None, 'fill': None,
                      'trcl': None, 'like': None})
    if allow_empty and rng.random() < 0.3:
        s = rng.choice(surf_ids)
        cells.append({'id': ids[-1] + 1, 'mat': 0, 'rho': None,
                      'expr': ('*', deckmod.S(-s), deckmod.S(s)),
                      'imp': {'n': 1}, 'u': univ, 'lat': None, 'fill': None,
                      'trcl': None, 'like': None})
    return cells


def with_facets(rng, expr, modes):
    '''modes: body id -> None (keep) | ('full', n) | ('one', k).  'full' writes
    the body as all its facets; 'one' cuts along the plane of facet k instead of
    the body, for every occurrence, so that the cells still partition space.'''
    tag = expr[0]
    if tag == 's' and modes.get(abs(expr[1])):
        n, mode = expr[1], modes[abs(expr[1])]
        if mode[0] == 'one':
            return ('f', n, mode[1])
        nf = mode[1]
        if nf == 1:
            return ('f', n, 1)
        if n < 0:
            return ('*',) + tuple(('f', n, k) for k in range(1, nf + 1))
        return (':',) + tuple(('f', n, k) for k in range(1, nf + 1))
    if tag in ('*', ':', '#'):
        return (tag,) + tuple(with_facets(rng, e, modes) for e in expr[1:])
    return expr


def renumber_surface(cells, old, new):
    def walk(e):
        if e[0] == 's' and abs(e[1]) == old:
            return ('s', new if e[1] > 0 else -new)
        if e[0] == 'f' and abs(e[1]) == old:
            return ('f', new if e[1] > 0 else -new, e[2])
        if e[0] in ('*', ':', '#'):
            return (e[0],) + tuple(walk(k) for k in e[1:])
        return e
    for c in cells:
        c['expr'] = walk(c['expr'])


def has_facet(expr):
    return expr[0] == 'f' or (expr[0] in ('*', ':', '#')
                              and any(has_facet(e) for e in expr[1:]))


def plain(expr):
    '''no complement inside'''
    return expr[0] in ('s', 'f') or (expr[0] in ('*', ':')
                                     and all(plain(e) for e in expr[1:]))


def negate_expr(expr):
    if expr[0] == 's':
        return ('s', -expr[1])
    if expr[0] == 'f':
        return ('f', -expr[1], expr[2])
    return (':' if expr[0] == '*' else '*',) + tuple(negate_expr(e)
                                                     for e in expr[1:])


def imp_cards(rng, deck):
    '''Importances on IMP data cards for two particles with crossing zero
    patterns (a cell is live iff one of them is non-zero).  Returns the text of
    the deck; the abstract deck keeps the per-particle values on the cells.'''
    import copy
    level0 = [c for c in deck['cells'] if not c.get('u')]
    for c in deck['cells']:
        c['imp'] = {'n': 1, 'p': 1}
    for c in level0:
        c['imp'] = {'n': rng.choice([0, 1, 1, 2]), 'p': rng.choice([0, 1, 1, 4])}
    if all(max(c['imp'].values()) == 0 for c in level0):
        level0[0]['imp'] = {'n': 0, 'p': 1}
    shadow = copy.deepcopy(deck)
    for c in shadow['cells']:
        c['imp'] = None
    order = rng.sample(['n', 'p'], 2)
    shadow['data'] = list(shadow.get('data', [])) + ['mode n p'] + [
        f'imp:{part} ' + ' '.join(str(c['imp'][part]) for c in deck['cells'])
        for part in order]
    return deckmod.render(shadow)


def gen_deck(rng):
    n_surf = rng.randint(2, 7)
    surfaces = gen_surfaces(rng, 1, n_surf)
    sids = [s['id'] for s in surfaces]
    n_cells = rng.randint(2, 6)
    cells = gen_universe(rng, sids, 1, n_cells, 0)
    deck = {'title': 'C01 generated deck', 'cells': cells,
            'surfaces': surfaces, 'transforms': {}, 'materials': {},
            'data': []}
    # zero importance for some cells (never all of them)
    for cell in cells:
        if rng.random() < 0.2:
            cell['imp'] = {'n': 0}
    if all(c['imp']['n'] == 0 for c in cells):
        cells[0]['imp'] = {'n': 1}
    # a union member that becomes patently empty after de-duplication:
    # (a -a') : x  with a' a copy of a  (remove_empty_volumes then re-inserts
    # the helper planes)
    if rng.random() < 0.3:
        simple = [c for c in cells if c['expr'][0] == 's']
        if simple:
            victim = rng.choice(simple)
            src = rng.choice(surfaces)
            dup = dict(src)
            dup['id'] = max(s['id'] for s in surfaces) + 1
            surfaces.append(dup)
            sign = rng.choice([1, -1])
            victim['expr'] = (':', ('*', S(sign * src['id']),
                                    S(-sign * dup['id'])), victim['expr'])
    # macrobody FACETS: a body literal -b becomes the intersection of its facets
    # (-b.1 ... -b.n), +b the union of b.k; the complements written by dress()
    # (#n of such a cell, #( ... ) around such an expression) then go through
    # Surface.inverse() with a facet index
    bodies = {s['id']: N_FACETS[s['mn']] for s in surfaces if s['mn'] in N_FACETS}
    if bodies and rng.random() < 0.7:
        modes = {}
        for b, nf in bodies.items():
            pick = rng.random()
            modes[b] = None if pick < 0.2 else ('full', nf) if pick < 0.5 \
                else ('one', rng.randint(1, nf))
        for c in cells:
            c['expr'] = with_facets(rng, c['expr'], modes)
            if rng.random() < 0.3 and has_facet(c['expr']) and plain(c['expr']):
                c['expr'] = ('#', negate_expr(c['expr']))
    # an EXPLICITLY defined surface whose number looks like an implicit TRCL
    # surface (1000*cell + surface, both existing): it must keep its own
    # definition
    if rng.random() < 0.35 and len(surfaces) >= 2:
        victim, other = rng.sample(surfaces, 2)
        if victim['id'] < 1000 and other['id'] < 1000:
            new_id = 1000 * rng.choice([c['id'] for c in cells]) + other['id']
            renumber_surface(cells, victim['id'], new_id)
            victim['id'] = new_id
    # universes: one or two level-0 cells filled with the same universe
    if rng.random() < 0.45:
        n2 = rng.randint(2, 5)
        surfaces2 = gen_surfaces(rng, 20, n2, bodies=False)
        deck['surfaces'] += surfaces2
        inner = gen_universe(rng, [s['id'] for s in surfaces2], 50,
                             rng.randint(1, 4), 1, allow_empty=True)
        for cell in inner:
            # no references between cells of a filled universe through #n:
            # keep what dress() produced (it only refers to the same universe)
            pass
        level0 = list(cells)
        deck['cells'] = level0 + inner
        hosts = rng.sample(level0, min(len(level0), rng.choice([1, 2, 2, 3])))
        for host in hosts:
            host['fill'] = {'u': 1, 'tr': None}
    return deck


# --------------------------------------------------------------------------
# known-finding witnesses
# --------------------------------------------------------------------------

WITNESS_EMPTY_REF = '''empty filler cell used twice
1 0 -1 fill=1 imp:n=1
2 0 1 -2 fill=1 imp:n=1
3 0 2 imp:n=0
10 0 -5 u=1 imp:n=1
11 0 5 u=1 imp:n=1
12 0 -6 6 u=1 imp:n=1

1 so 2
2 so 4
5 px 0
6 py 0
'''

WITNESS_HELPER_MERGE = '''user plane equal to a union helper plane, patently empty union
1 0 (2 -3) : -1 imp:n=1
2 0 #1 imp:n=1

1 px 1
2 py 0
3 py 0
'''


def none_operand_in(text):
    return text is not None and any(
        line.startswith('VOLU') and ' None' in line.split('//')[0]
        for line in text.splitlines())


def helper_merge_failure(conv, cap):
    '''KeyError of the writer on a helper-plane id that the de-duplication
    merged into a user plane.'''
    if conv.ok or conv.exc != 'KeyError' or 'union_ids' not in cap:
        return False
    rn = cap.get('rn') or {}
    merged = [u for u in cap['union_ids'] if rn.get(u, u) != u]
    return bool(merged) and conv.msg.strip() in {str(u) for u in merged}


def cell(cid, expr, imp=1, u=0, fill=None):
    return {'id': cid, 'mat': 0, 'rho': None, 'expr': expr, 'imp': {'n': imp},
            'u': u, 'lat': None, 'fill': fill, 'trcl': None, 'like': None}


def surf(sid, mn, *params):
    return {'id': sid, 'mn': mn, 'params': [float(p) for p in params],
            'tr': None, 'bc': ''}


S = deckmod.S

# minimised past failures, as abstract decks (run first, through the whole
# deck check: tie on captured data + point sweep)
CORPUS = [
    # empty filler cell kept by reference (was: INTE 1 None)
    {'title': 'empty filler cell used twice',
     'cells': [cell(1, S(-1), fill={'u': 1, 'tr': None}),
               cell(2, ('*', S(1), S(-2)), fill={'u': 1, 'tr': None}),
               cell(3, S(2), imp=0),
               cell(10, S(-5), u=1), cell(11, S(5), u=1),
               cell(12, ('*', S(-6), S(6)), u=1)],
     'surfaces': [surf(1, 'so', 2), surf(2, 'so', 4), surf(5, 'px', 0),
                  surf(6, 'py', 0)],
     'transforms': {}, 'materials': {}, 'data': []},
    # user plane equal to a helper plane + patently empty union member after
    # de-duplication (was: KeyError in the writer)
    {'title': 'helper plane merged, patently empty union member',
     'cells': [cell(1, (':', ('*', S(2), S(-3)), S(-1))),
               cell(2, ('#c', 1))],
     'surfaces': [surf(1, 'px', 1), surf(2, 'py', 0), surf(3, 'py', 0)],
     'transforms': {}, 'materials': {}, 'data': []},
    # the same with the other helper plane and no user plane on x = +-1
    {'title': 'patently empty union member after de-duplication',
     'cells': [cell(1, (':', ('*', S(2), S(-3)), S(-1))),
               cell(2, ('#c', 1))],
     'surfaces': [surf(1, 'px', 0.5), surf(2, 'py', 0), surf(3, 'py', 0)],
     'transforms': {}, 'materials': {}, 'data': []},
    {'title': 'patently empty union member, user plane x = -1',
     'cells': [cell(1, (':', ('*', S(2), S(-3)), S(1))),
               cell(2, ('#c', 1))],
     'surfaces': [surf(1, 'px', -1), surf(2, 'py', 0), surf(3, 'py', 0)],
     'transforms': {}, 'materials': {}, 'data': []},
    # complement of a cell defined with a macrobody facet, and #( facet )
    {'title': 'complement of a facet',
     'cells': [cell(1, ('*', S(-30), ('f', 10, 1))),
               cell(2, ('*', S(-30), ('#c', 1))),
               cell(3, S(30), imp=0)],
     'surfaces': [surf(10, 'rpp', -1, 1, -1, 1, -1, 1), surf(30, 'so', 5)],
     'transforms': {}, 'materials': {}, 'data': []},
    {'title': 'complement of an expression with facets',
     'cells': [cell(1, ('*', S(-30), ('#', (':', ('f', 10, 1), ('f', 10, 3))))),
               cell(2, ('*', S(-30), (':', ('f', 10, 1), ('f', 10, 3)))),
               cell(3, S(30), imp=0)],
     'surfaces': [surf(10, 'rpp', -1, 1, -1, 1, -1, 1), surf(30, 'so', 5)],
     'transforms': {}, 'materials': {}, 'data': []},
    # an explicit surface 1005 while cell 1 and surface 5 exist
    {'title': 'explicit surface numbered like an implicit one',
     'cells': [cell(1, S(-1005)), cell(2, ('*', S(1005), S(-5))), cell(3, S(5), imp=0)],
     'surfaces': [surf(5, 'so', 4), surf(1005, 'so', 2)],
     'transforms': {}, 'materials': {}, 'data': []},
]

# importances on IMP data cards of two particles, zero patterns that cross
CORPUS_IMP = {
    'title': 'importance cards of two particles',
    'cells': [cell(1, S(-1)), cell(2, ('*', S(1), S(-2))),
              cell(3, ('*', S(2), S(-3))), cell(4, ('*', S(3), S(-4))),
              cell(5, S(4))],
    'surfaces': [surf(1, 'so', 1), surf(2, 'so', 2), surf(3, 'so', 3),
                 surf(4, 'so', 4)],
    'transforms': {}, 'materials': {}, 'data': []}
CORPUS_IMP_VALUES = {'n': [1, 0, 1, 1, 0], 'p': [1, 1, 0, 1, 0]}


def run_witnesses(res, rng=None):
    '''Corpus first: each deck through the whole deck check.'''
    rng = rng or random.Random(1)
    coq_cases, metas = [], []
    for deck in CORPUS:
        res.count('corpus:deck')
        check_deck(res, deck, deckmod.render(deck), rng, coq_cases, metas)
    import copy
    for order in (['n', 'p'], ['p', 'n']):
        deck = copy.deepcopy(CORPUS_IMP)
        for c, a, b in zip(deck['cells'], CORPUS_IMP_VALUES['n'],
                           CORPUS_IMP_VALUES['p']):
            c['imp'] = {'n': a, 'p': b}
        shadow = copy.deepcopy(deck)
        for c in shadow['cells']:
            c['imp'] = None
        shadow['data'] = ['mode n p'] + [
            f'imp:{part} ' + ' '.join(str(v) for v in CORPUS_IMP_VALUES[part])
            for part in order]
        res.count('corpus:deck')
        check_deck(res, deck, deckmod.render(shadow), rng, coq_cases, metas)
    bad, errs = common.run_case_files('c01_corpus', HEADER, 'case',
                                      'check_case', coq_cases, chunk=40)
    res.obligation(f'tie:corpus ({len(coq_cases)} minimised decks)',
                   not bad and not errs, f'{len(bad)} disagreements {errs[:1]}')
    for idx in bad:
        text, case, obs = metas[idx]
        res.violation('correspondence',
                      'model and implementation disagree on a corpus deck',
                      {'input': {'deck': text}, 'observed': repr(obs)[:2000],
                       'theorem_or_correspondence': 'tie:corpus'},
                      found_input=False)


# --------------------------------------------------------------------------
# the deck stream
# --------------------------------------------------------------------------

def check_deck(res, deck, text, rng, coq_cases, metas, args=(), trace=True):
    import c01_cov
    with c01_cov.traced(trace):
        conv, cap = convert_captured(text, args)
    res.seen(text, nontrivial=len(deck['cells']) >= 2)
    payload = {'input': {'deck': text, 'args': list(args)}}
    if not conv.ok and conv.exc == 'ValueError' and 'max()' in conv.msg:
        # a progress meter takes max() of an empty table: every cell of the
        # conversion list is empty.  Not a C01 failure unless a live cell
        # owns a point.
        import mcnpref
        import numpy as np
        ref = mcnpref.Reference(deck)
        owned = 0
        for p in geomcheck.sample_points(rng, 300, half=3.0):
            try:
                chain = ref.locate(np.array(p, float))
            except mcnpref.Ambiguous:
                continue
            leaf, top = geomcheck.expected_leaf(ref, chain)
            if leaf is not None and not geomcheck.importance_zero(
                    ref.resolve(top)):
                owned += 1
        res.count('deck:all-live-cells-empty')
        if owned:
            res.violation('impl-violation',
                          f'deck not converted ({conv.msg}) although live '
                          f'cells own {owned} sample points',
                          dict(payload, observed=repr(conv)), found_input=True)
        return
    if not conv.ok:
        res.count('deck:impl:' + str(conv.exc))
        cls = None
        if helper_merge_failure(conv, cap):
            cls = 'helper_plane_dedup_merge'
        res.violation('impl-violation',
                      f'valid deck not converted: {conv.exc}: '
                      f'{conv.msg[:150]}', dict(payload, observed=repr(conv)),
                      cls=cls, found_input=True)
        return
    res.count('deck:impl:ok')
    # ---- sweep: written file vs reference semantics at points ----
    if none_operand_in(conv.text):
        res.count('deck:none-operand')
        line = [l for l in conv.text.splitlines() if ' None' in l][0]
        res.violation('impl-violation',
                      f'written volume has a None operand: {line}',
                      dict(payload, observed=line),
                      cls='empty_cellref_operand', found_input=True)
    else:
        t4 = impl.T4File(conv.text)
        if t4.errors:
            res.violation('impl-violation',
                          f'written file cannot be read: {t4.errors[0]}',
                          dict(payload, observed=t4.errors[:3]),
                          found_input=True)
        else:
            pts = geomcheck.sample_points(rng, 200, half=3.0)
            checked, failures = geomcheck.compare(deck, t4, pts)
            res.count('deck:points', checked)
            for fail in failures[:1]:
                res.violation('impl-violation',
                              f'written geometry differs from the deck: '
                              f'{fail["why"]}'[:300],
                              dict(payload, observed=fail), found_input=True)
    # ---- tie on the captured data ----
    try:
        case = case_of_capture(cap)
        if case['cnt0'] is None:
            raise Unsupported('counter attribute not present')
    except (Unsupported, KeyError) as exc:
        res.count('deck:tie-skipped')
        return
    file_, _why = G.file_table(conv.text)
    if 'final' not in cap:
        return
    obs = ('ok', cap['cnt'], cap['before'], cap['sc'], cap['cc'],
           cap['final'], file_, G.volu_lines(conv.text))
    coq_cases.append(G.coq_case(case, obs))
    metas.append((text, case, obs))
    if cap.get('cc'):
        res.count('deck:with-cellrefs')
    if cap.get('rn') and any(k != v for k, v in cap['rn'].items()):
        res.count('deck:with-merged-surfaces')


def run_decks(res, rng, n_decks):
    coq_cases, metas = [], []
    for _ in range(n_decks):
        deck = gen_deck(rng)
        if rng.random() < 0.3:
            text = imp_cards(rng, deck)
            res.count('deck:imp-data-cards')
        else:
            text = deckmod.render(deck)
        if any(has_facet(c['expr']) for c in deck['cells']):
            res.count('deck:with-facets')
        args = []
        if rng.random() < 0.15:
            args.append('--skip-deduplication')
        if rng.random() < 0.3:
            args += ['--max-inline-score', '0']
        check_deck(res, deck, text, rng, coq_cases, metas, args,
                   trace=len(metas) < 25)
    if metas:
        res.sample({'deck': metas[0][0]})
    bad, errs = common.run_case_files('c01_decks', HEADER, 'case',
                                      'check_case', coq_cases, chunk=40)
    res.obligation(f'tie:decks ({len(coq_cases)} converted decks: model on '
                   'captured mcnp_dict/matching = final table and written '
                   'VOLU lines)', not bad and not errs,
                   f'{len(bad)} disagreements {errs[:1]}')
    for err in errs[:3]:
        res.violation('correspondence', 'coqc failed on generated deck cases: '
                      + err[-300:], {'theorem_or_correspondence': 'tie:decks',
                                     'log': err}, found_input=False)
    for idx in bad[:5]:
        text, case, obs = metas[idx]
        res.violation('correspondence',
                      'model and implementation disagree on a converted deck',
                      {'input': {'deck': text}, 'observed': repr(obs)[:2000],
                       'theorem_or_correspondence': 'tie:decks'},
                      found_input=False)


def replay_deck(inp):
    text = inp['deck']
    conv, cap = convert_captured(text, inp.get('args', ()))
    print('conversion:', conv)
    if conv.text:
        print(conv.text)
    if 'final' in cap:
        try:
            case = case_of_capture(cap)
            file_, why = G.file_table(conv.text)
            obs = ('ok', cap['cnt'], cap['before'], cap['sc'], cap['cc'],
                   cap['final'], file_, G.volu_lines(conv.text))
            model, out = common.coq_eval(HEADER,
                                         'run_case ' + G.coq_case(case, obs))
            print('implementation:', obs)
            print('model:', model if model else out[-1500:])
        except Unsupported as exc:
            print('tie not applicable:', exc)
