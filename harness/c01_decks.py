'''stub'''
def run_witnesses(res):
    pass
def run_decks(res, rng, n):
    pass
def replay_deck(inp):
    pass
