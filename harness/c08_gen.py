'''C08 deck generator: structure-oriented random decks (deck.py format).  The
geometry does not have to be a partition — C08 is about the structure of the
written file — so expressions are free-form: unions, nested parentheses,
#(...), #n, macrobody facets, duplicate surfaces (merged by de-duplication),
patently empty cells, user planes equal to the union helper planes, universes
(fillers used several times, empty fillers, nested FILL, fill transformations),
rectangular lattices (explicit arrays and FILL=n with --lattice), flagged
surfaces, several materials and densities, LIKE n BUT.'''
import deck as deckmod

OPTION_SETS = [
    [],
    ['--skip-deduplication'],
    ['--always-inline-filling'],
    ['--always-inline-filled'],
    ['--always-inline-filling', '--always-inline-filled'],
    ['--max-inline-score', '0'],
    ['--max-inline-score', '100'],
    ['--skip-deduplication', '--always-inline-filling',
     '--max-inline-score', '5'],
    ['--skip-compositions'],
    ['--skip-geomcomp', '--skip-boundary-conditions'],
    ['--skip-geomcomp'],
    ['--skip-boundary-conditions'],
]

DENSITIES = ['-1.0', '-2.7', '0.05', '-7.85', '1.0', '-.5', '-1.00',
             '6.0-2', '-11.35', '4.8e-2', '-1', '-0.5', '1', '5e-2']

# numerically equal densities whose spellings normalize_float keeps distinct
# (C09_normalize_float_kept_distinct): one material used at both needs two
# compositions, one per spelling, because GEOMCOMP names use the spelling
EQUAL_VALUE_PAIRS = [('-1', '-1.0'), ('-.5', '-0.5'), ('0.05', '5e-2'),
                     ('1', '1.0'), ('-15', '-1.5e1'), ('-2e5', '-2e+5'),
                     ('0.5', '.5'), ('-2.7', '-27e-1')]


def _c(rng):
    return rng.choice([-2.0, -1.0, -0.5, 0.0, 0.5, 1.0, 1.5, 2.0, 3.0])


def _r(rng):
    return rng.choice([0.5, 1.0, 1.5, 2.0, 2.5, 4.0])


def gen_surface(rng, sid):
    '''(surface dict, number of facets or 0 for a plain surface)'''
    kind = rng.choice(['px', 'py', 'pz', 'px', 'py', 'p', 'so', 's', 'sx',
                       'cz', 'c/z', 'cx', 'c/y', 'kz1', 'k/x', 'kz', 'rpp',
                       'rcc', 'sph', 'box', 'tz', 'gq', 'sq', 'px1', 'pxm1'])
    facets = 0
    if kind in ('px', 'py', 'pz'):
        mn, prm = kind, [_c(rng)]
    elif kind == 'px1':
        mn, prm = 'px', [1.0]
    elif kind == 'pxm1':
        mn, prm = 'px', [-1.0]
    elif kind == 'p':
        n = [rng.choice([-1.0, 0.0, 1.0, 2.0]) for _ in range(3)]
        if not any(n):
            n[rng.randrange(3)] = 1.0
        mn, prm = 'p', n + [_c(rng)]
    elif kind == 'so':
        mn, prm = 'so', [_r(rng)]
    elif kind == 's':
        mn, prm = 's', [_c(rng), _c(rng), _c(rng), _r(rng)]
    elif kind == 'sx':
        mn, prm = rng.choice(['sx', 'sy', 'sz']), [_c(rng), _r(rng)]
    elif kind in ('cz', 'cx'):
        mn, prm = kind, [_r(rng)]
    elif kind in ('c/z', 'c/y'):
        mn, prm = kind, [_c(rng), _c(rng), _r(rng)]
    elif kind == 'kz1':
        mn, prm = rng.choice(['kz', 'kx', 'ky']), \
            [_c(rng), rng.choice([0.25, 1.0, 3.0]), rng.choice([1.0, -1.0])]
    elif kind == 'kz':
        mn, prm = 'kz', [_c(rng), rng.choice([0.25, 1.0, 3.0])]
    elif kind == 'k/x':
        mn, prm = rng.choice(['k/x', 'k/z']), \
            [_c(rng), _c(rng), _c(rng), rng.choice([0.5, 1.0]),
             rng.choice([1.0, -1.0])]
    elif kind == 'rpp':
        lo = [_c(rng) for _ in range(3)]
        mn = 'rpp'
        prm = [lo[0], lo[0] + _r(rng), lo[1], lo[1] + _r(rng), lo[2],
               lo[2] + _r(rng)]
        facets = 6
    elif kind == 'box':
        mn = 'box'
        prm = [_c(rng), _c(rng), _c(rng), _r(rng), 0.0, 0.0, 0.0, _r(rng),
               0.0, 0.0, 0.0, _r(rng)]
        facets = 6
    elif kind == 'rcc':
        axis = [0.0, 0.0, 0.0]
        axis[rng.randrange(3)] = _r(rng)
        mn, prm = 'rcc', [_c(rng), _c(rng), _c(rng)] + axis + [_r(rng)]
        facets = 3
    elif kind == 'sph':
        mn, prm = 'sph', [_c(rng), _c(rng), _c(rng), _r(rng)]
        facets = 1
    elif kind == 'tz':
        mn = rng.choice(['tz', 'tx', 'ty'])
        prm = [_c(rng), _c(rng), _c(rng), 3.0, rng.choice([0.5, 1.0]),
               rng.choice([0.5, 1.0])]
    elif kind == 'gq':
        mn = 'gq'
        prm = [1.0, rng.choice([1.0, 2.0]), rng.choice([1.0, -1.0, 0.5]),
               rng.choice([0.0, 0.5]), 0.0, 0.0, _c(rng), 0.0, 0.0,
               -rng.choice([1.0, 4.0])]
    else:
        mn = 'sq'
        prm = [1.0, 2.0, rng.choice([1.0, 0.0]), 0.0, 0.0, 0.0, -4.0,
               _c(rng), _c(rng), 0.0]
    return ({'id': sid, 'mn': mn, 'params': [float(v) for v in prm],
             'tr': None, 'bc': ''}, facets)


def gen_expr(rng, lits, cells_before, depth=0):
    '''Free-form expression over the literal pool.'''
    r = rng.random()
    if depth >= 3 or r < 0.35:
        lit = rng.choice(lits)
        return lit
    if r < 0.65:
        n = rng.choice([2, 2, 3, 4])
        return ('*',) + tuple(gen_expr(rng, lits, cells_before, depth + 1)
                              for _ in range(n))
    if r < 0.88:
        n = rng.choice([2, 2, 3])
        return (':',) + tuple(gen_expr(rng, lits, cells_before, depth + 1)
                              for _ in range(n))
    if r < 0.95 or not cells_before:
        sub = gen_expr(rng, lits, cells_before, depth + 1)
        if _has_complement(sub):
            return sub
        return ('#', sub)
    return ('#c', rng.choice(cells_before))


def _has_complement(expr):
    if expr[0] in ('#', '#c'):
        return True
    if expr[0] in ('*', ':'):
        return any(_has_complement(sub) for sub in expr[1:])
    return False


def _literals(rng, surfs, facets):
    lits = []
    for surf in surfs:
        sid = surf['id']
        lits.append(('s', sid))
        lits.append(('s', -sid))
        if facets.get(sid, 0) > 1 and rng.random() < 0.5:
            k = rng.randint(1, facets[sid])
            lits.append(('f', rng.choice([sid, -sid]), k))
    return lits


def gen_deck(rng):
    '''Returns (deck, tags) — tags name the generator features used.'''
    tags = set()
    dk = {'title': 'c08 generated deck', 'cells': [], 'surfaces': [],
          'transforms': {}, 'materials': {}, 'data': []}
    facets = {}
    n_surf = rng.choice([2, 3, 4, 5, 6, 8])
    sid = 0
    for _ in range(n_surf):
        sid += rng.choice([1, 1, 2, 7])
        if dk['surfaces'] and rng.random() < 0.2:
            # duplicate of an earlier surface (merged by de-duplication)
            src = rng.choice(dk['surfaces'])
            surf = dict(src, id=sid, bc='')
            facets[sid] = facets.get(src['id'], 0)
            tags.add('duplicate-surface')
        else:
            surf, nf = gen_surface(rng, sid)
            facets[sid] = nf
        if surf['mn'] == 'px' and surf['params'] in ([1.0], [-1.0]):
            tags.add('helper-like-plane')
        if rng.random() < 0.15 and facets[sid] == 0:
            surf['bc'] = rng.choice(['*', '+'])
            tags.add('flagged')
        if rng.random() < 0.12 or (surf['mn'] in ('tz', 'tx', 'ty')
                                   and rng.random() < 0.6):
            n = rng.randint(1, 9)
            if n not in dk['transforms']:
                dk['transforms'][n] = deckmod.random_tr(rng)
            surf['tr'] = n
            tags.add('tr-surface')
        dk['surfaces'].append(surf)
    mats = sorted(rng.sample([1, 2, 3, 5, 12], rng.choice([1, 2, 3])))
    for m in mats:
        dk['materials'][m] = rng.choice([['1001', '1.0'],
                                         ['8016', '1', '1001', '2'],
                                         ['26000', '-0.7', '6012', '-0.3'],
                                         ['92235.70c', '0.05', '92238', '0.95']])
        if rng.random() < 0.03:
            # Fortran spellings (open finding fortran_spelled_fraction_copied)
            dk['materials'][m] = ['1001', '-1.5d-1', '8016', '-8.5-1']
            tags.add('fortran-spelled-fractions')

    def material(cell):
        if rng.random() < 0.2:
            cell['mat'], cell['rho'] = 0, None
        else:
            cell['mat'] = rng.choice(mats)
            cell['rho'] = rng.choice(DENSITIES)
            if rng.random() < 0.04:
                cell['mat'] = f'0{cell["mat"]}'
                tags.add('leading-zero-material')
            elif rng.random() < 0.012:
                cell['mat'] = 77          # no M77 card (open finding)
                tags.add('material-without-card')

    next_cid = [0]

    def new_cell(expr, univ=0):
        next_cid[0] += rng.choice([1, 1, 2, 10])
        cell = {'id': next_cid[0], 'expr': expr, 'imp': {'n': 1}, 'u': univ,
                'lat': None, 'fill': None, 'trcl': None, 'like': None}
        material(cell)
        dk['cells'].append(cell)
        return cell

    lits = _literals(rng, dk['surfaces'], facets)
    # ---- filler universes ----
    universes = []
    n_univ = rng.choice([0, 0, 1, 1, 2, 3])
    for k in range(n_univ):
        univ = (k + 1) * 10 + rng.choice([0, 5])
        kind = rng.choice(['cells', 'cells', 'cells', 'lattice'])
        if kind == 'lattice' and universes:
            _lattice_universe(rng, dk, univ, universes, new_cell, tags)
        else:
            ids = []
            for _ in range(rng.choice([1, 2, 2, 3])):
                if rng.random() < 0.15:
                    lit = rng.choice(dk['surfaces'])['id']
                    expr = ('*', ('s', -lit), ('s', lit))     # patently empty
                    tags.add('empty-filler')
                else:
                    expr = gen_expr(rng, lits, ids)
                cell = new_cell(expr, univ)
                ids.append(cell['id'])
                if universes and rng.random() < 0.3:
                    cell['fill'] = {'u': rng.choice(universes),
                                    'tr': _fill_tr(rng, dk)}
                    cell['mat'], cell['rho'] = 0, None
                    tags.add('nested-fill')
        universes.append(univ)
    # ---- level 0 ----
    ids = []
    for _ in range(rng.choice([1, 2, 3, 3, 4, 5])):
        if rng.random() < 0.06:
            lit = rng.choice(dk['surfaces'])['id']
            expr = ('*', ('s', -lit), ('s', lit))
            tags.add('empty-cell')
        else:
            expr = gen_expr(rng, lits, ids)
        cell = new_cell(expr)
        ids.append(cell['id'])
        if universes and rng.random() < 0.5:
            cell['fill'] = {'u': rng.choice(universes),
                            'tr': _fill_tr(rng, dk)}
            cell['mat'], cell['rho'] = 0, None
            tags.add('fill')
        elif rng.random() < 0.1:
            cell['trcl'] = ('num', _tr_number(rng, dk))
            tags.add('trcl')
        if rng.random() < 0.08:
            cell['imp'] = {'n': 0}
            tags.add('imp0')
        elif rng.random() < 0.012:
            cell['imp'] = {'n': -1}       # open finding
            tags.add('negative-importance')
    plain = [c for c in dk['cells'] if c['u'] == 0 and c['mat'] != 0
             and c.get('fill') is None and c['imp'] == {'n': 1}]
    if len(plain) >= 2 and rng.random() < 0.3:
        one, two = rng.sample(plain, 2)
        pair = list(rng.choice(EQUAL_VALUE_PAIRS))
        rng.shuffle(pair)
        two['mat'] = one['mat']
        one['rho'], two['rho'] = pair
        tags.add('equal-value-densities')
    if rng.random() < 0.5:
        cell = new_cell(gen_expr(rng, lits, ids))
        cell['imp'] = {'n': 0}
        cell['mat'], cell['rho'] = 0, None
    if rng.random() < 0.12 and ids:
        next_cid[0] += 1
        base = rng.choice(ids)
        but = rng.choice([{'mat': rng.choice(mats), 'rho': '-3.0'},
                          {'trcl': deckmod.make_tr([1, 0, 0])},
                          {'imp': {'n': 1}}])
        dk['cells'].append({'id': next_cid[0], 'like': base, 'but': but})
        tags.add('like-but')
    if rng.random() < 0.3:
        rng.shuffle(dk['cells'])
        # LIKE n BUT may refer to a later cell; #n too — both are legal MCNP
    return dk, tags


def _tr_number(rng, dk):
    n = rng.randint(1, 9)
    if n not in dk['transforms']:
        dk['transforms'][n] = deckmod.random_tr(rng)
    return n


def _fill_tr(rng, dk):
    r = rng.random()
    if r < 0.45:
        return None
    if r < 0.7:
        return ('num', _tr_number(rng, dk))
    if r < 0.85:
        return deckmod.random_tr(rng, translate_only=True)
    return deckmod.random_tr(rng, star=True, translate_only=False)


def _lattice_universe(rng, dk, univ, universes, new_cell, tags):
    '''One LAT=1 cell bounded by pairs of planes, filled with an explicit
    array or with FILL=n (+ --lattice).'''
    base = max(s['id'] for s in dk['surfaces']) + 1
    dims = rng.choice([1, 2, 2, 3])
    pitch = rng.choice([1.0, 2.0, 3.0])
    lits = []
    for d in range(dims):
        mn = ('px', 'py', 'pz')[d]
        lo = {'id': base + 2 * d, 'mn': mn, 'params': [-pitch / 2],
              'tr': None, 'bc': ''}
        hi = {'id': base + 2 * d + 1, 'mn': mn, 'params': [pitch / 2],
              'tr': None, 'bc': ''}
        dk['surfaces'] += [lo, hi]
        lits += [('s', -hi['id']), ('s', lo['id'])]
    cell = new_cell(('*',) + tuple(lits), univ)
    cell['lat'] = 1
    ranges = []
    for d in range(3):
        if d < dims:
            ranges.append(rng.choice([(0, 0), (-1, 1), (0, 1), (-1, 0)]))
        else:
            ranges.append((0, 0))
    size = 1
    for lo, hi in ranges:
        size *= hi - lo + 1
    if rng.random() < 0.3:
        cell['fill'] = {'ranges': ranges[:dims], 'homogeneous': True,
                        'array': [rng.choice(universes)], 'tr': None}
        tags.add('lattice-homogeneous')
    else:
        choices = list(universes) + [0, univ]
        cell['fill'] = {'ranges': ranges,
                        'array': [rng.choice(choices) for _ in range(size)],
                        'tr': None}
        tags.add('lattice-array')
    if all(u == univ for u in cell['fill']['array']) or rng.random() < 0.5:
        pass
    if univ not in cell['fill']['array']:
        cell['mat'], cell['rho'] = 0, None


# ---- rendering (deck.render with a layout the repository's lexer accepts:
# a complement directly after ':' is parenthesised, "1 : (#(2))") ------------

def expr_text(expr):
    tag = expr[0]
    if tag == 's':
        return str(expr[1])
    if tag == 'f':
        return f'{expr[1]}.{expr[2]}'
    if tag == '#c':
        return f'#{expr[1]}'
    if tag == '#':
        return f'#({expr_text(expr[1])})'
    if tag == '*':
        parts = []
        for sub in expr[1:]:
            txt = expr_text(sub)
            parts.append(f'({txt})' if sub[0] == ':' else txt)
        return ' '.join(parts)
    if tag == ':':
        parts = []
        for k, sub in enumerate(expr[1:]):
            txt = expr_text(sub)
            if k > 0 and sub[0] in ('#', '#c'):
                txt = f'({txt})'
            elif sub[0] == '*' and k > 0 and sub[1][0] in ('#', '#c'):
                txt = f'({txt})'
            parts.append(txt)
        return ' : '.join(parts)
    raise ValueError(f'bad expression {expr!r}')


def cell_text(cell):
    if cell.get('like') is not None:
        return deckmod.cell_text(cell)
    head = f'{cell["id"]} {cell["mat"]}'
    if cell['mat'] != 0:
        head += f' {cell["rho"]}'
    return ' '.join([head, expr_text(cell['expr'])]
                    + deckmod.cell_options(cell))


def render(dk):
    out = [dk.get('title', 'generated deck')]
    out += [deckmod.wrap(cell_text(cell)) for cell in dk['cells']]
    out.append('')
    out += [deckmod.wrap(deckmod.surface_text(s)) for s in dk['surfaces']]
    out.append('')
    for n, tr in sorted(dk.get('transforms', {}).items()):
        star = '*' if tr.get('star') else ''
        out.append(deckmod.wrap(f'{star}tr{n} {deckmod.tr_text(tr)}'))
    for n, toks in sorted(dk.get('materials', {}).items()):
        out.append(deckmod.wrap(f'm{n} ' + ' '.join(toks)))
    out.extend(dk.get('data', []))
    return '\n'.join(out) + '\n'
