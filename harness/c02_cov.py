'''Line coverage of the anchored Python functions of C02 during the ties and
the sweep (sys.settrace restricted to those code objects).  Lines that cannot
be reached by a surface card without a TR number are listed, by their source
text, in UNREACHABLE; everything else must be executed at least once.'''
import linecache
import sys
import types


def _codes(func):
    code = func.__code__
    out = [code]
    stack = [code]
    while stack:
        cur = stack.pop()
        for const in cur.co_consts:
            if isinstance(const, types.CodeType):
                out.append(const)
                stack.append(const)
    return out


class LineCov:
    def __init__(self, funcs):
        self.codes = {}
        for func in funcs:
            try:
                func = getattr(func, '__func__', func)
                for code in _codes(func):
                    self.codes[code] = getattr(func, '__qualname__', '?')
            except Exception:           # pylint: disable=broad-except
                continue
        self.hit = {code: set() for code in self.codes}
        self._prev = None

    def _global(self, frame, event, arg):
        if frame.f_code in self.codes:
            self.hit[frame.f_code].add(frame.f_lineno)
            return self._local
        return None

    def _local(self, frame, event, arg):
        if event == 'line':
            self.hit[frame.f_code].add(frame.f_lineno)
        return self._local

    def __enter__(self):
        self._prev = sys.gettrace()
        sys.settrace(self._global)
        return self

    def __exit__(self, *exc):
        sys.settrace(self._prev)
        return False

    def missing(self, unreachable):
        '''[(qualname, lineno, text)] of executable lines never hit.'''
        out = []
        total = 0
        for code, name in self.codes.items():
            lines = {ln for _, _, ln in code.co_lines() if ln is not None}
            lines.discard(code.co_firstlineno)
            total += len(lines)
            for ln in sorted(lines - self.hit[code]):
                text = linecache.getline(code.co_filename, ln).strip()
                if any(pat in text for pat in unreachable):
                    continue
                out.append((name, ln, text))
        return total, out


UNREACHABLE = [
    # convert_torus: axis not along a coordinate axis (needs a TR card: C04)
    'transform_mat = rotation_from_vectors', 'center = transform_mat.T.dot',
    'param[:3] = list(center.flat)', 'transform = (np.zeros(3), transform_mat)',
    'type_surface = T4S.TORUSZ',
    # conversion_surface_params / convert_mcnp_surface: defensive branches
    "msg = f'Unrecognized surface type", 'raise SurfaceConversionError(msg)',
    'except SurfaceConversionError as err:',
    "msg = f'{err} (while converting surface {key})'",
    'raise SurfaceConversionError(msg) from None',
    # to_surface_mcnp: TR number (C04); cone tuples always have 3 entries
    'idorigin.append(transform_id)',
    'surf = transformation(transform_parsed[int(transform_id)], surf)',
    "msg = f'Unexpected number of parameters for cone", 'raise ValueError(msg)',
    'compl_params = (*compl_params, None)',
    # get_surfaces: the lim argument is never given
    'break',
    # mcnp_to_mip is always called with an enum member
    's = en',
    # forcad._normal: self-check that cannot fail
    'print(x, y, z)', 'print(a, b, c)', 'print(check1, check2)',
    "raise ValueError('Normal vector not normal or zero')",
    # planeParamsFromPoints: a unit vector has a component above 1e-14
    "raise ValueError('Cannot convert plane from three points because the '",
    "'points are collinear or almost so: '", "f'{pt1}, {pt2}, {pt3}')",
]


def _get(obj, name, missing):
    """getattr that never raises: a renamed or removed helper is recorded."""
    val = getattr(obj, name, None)
    if val is None:
        missing.append(f'{getattr(obj, "__name__", obj)}.{name}')
    return val


MISSING = []        # names of helpers that the current /repo no longer has


def anchored_functions():
    """The functions whose lines are counted. Information only: every lookup is
    tolerant (private helpers may be renamed or removed by a refactoring), and
    any failure yields an empty list."""
    del MISSING[:]
    try:
        return _anchored_functions(MISSING)
    except Exception as exc:            # pylint: disable=broad-except
        MISSING.append(f'coverage set unavailable: {type(exc).__name__}: {exc}')
        return []


def _anchored_functions(missing):
    import importlib

    def mod(name):
        try:
            return importlib.import_module(name)
        except Exception:               # pylint: disable=broad-except
            missing.append(name)
            return None
    funcs = []
    forcad = mod('MIP.geom.forcad')
    if forcad is not None:
        table = getattr(forcad, 'mcnp2cad', {}) or {}
        funcs += list({id(f): f for f in table.values()}.values())
        for name in ('_sphere', '_plane', '_cylinder', '_cone', '_torus',
                     '_shift', '_norm', '_norm2', '_normal'):
            funcs.append(_get(forcad, name, missing))
    vect = mod('t4_geom_convert.Kernel.VectUtils')
    if vect is not None:
        for name in ('planeParamsFromPoints', 'scal', 'vect', 'rescale',
                     'vdiff', 'renorm', 'mag2', 'mag'):
            funcs.append(_get(vect, name, missing))
    parse = mod('t4_geom_convert.Kernel.FileHandlers.Parser.ParseMCNPSurface')
    if parse is not None:
        for name in ('normalize_surface', 'to_surface_mcnp',
                     'to_surfaces_mcnp'):
            funcs.append(_get(parse, name, missing))
    conv = mod('t4_geom_convert.Kernel.Surface.ConversionSurfaceMCNPToT4')
    if conv is not None:
        for name in ('conversion_surface_params', 'convert_plane',
                     'convert_cylinder', 'convert_sphere',
                     'convert_special_quadric', 'eval_quadric',
                     'convert_quadric', 'convert_torus', 'convert_cone',
                     'convert_mcnp_surface', 'sq_to_gq'):
            funcs.append(_get(conv, name, missing))
    coll = mod('t4_geom_convert.Kernel.Surface.SurfaceCollection')
    if coll is not None:
        cls = _get(coll, 'SurfaceCollection', missing)
        if cls is not None:
            funcs += [_get(cls, 'join', missing), _get(cls, '__init__', missing)]
    cdict = mod('t4_geom_convert.Kernel.Surface.CollectionDict')
    if cdict is not None:
        cls = _get(cdict, 'CollectionDict', missing)
        if cls is not None:
            funcs.append(_get(cls, 'number_items', missing))
    for modname, names in (
            ('MIP.geom.surfaces', ('get_surfaces',)),
            ('MIP.mip.surfacecard', ('split',)),
            ('MIP.mip.datacard', ('to_float',)),
            ('t4_geom_convert.Kernel.Surface.ESurfaceTypeMCNP',
             ('string_to_enum', 'mcnp_to_mip'))):
        module = mod(modname)
        if module is not None:
            for name in names:
                funcs.append(_get(module, name, missing))
    main = mod('MIP.mip.main')
    if main is not None:
        card = _get(main, 'Card', missing)
        if card is not None:
            funcs.append(_get(card, 'content', missing))
    return [f for f in funcs if f is not None and
            hasattr(getattr(f, '__func__', f), '__code__')]
