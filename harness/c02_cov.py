'''Line coverage of the anchored Python functions of C02 during the ties and
the sweep (sys.settrace restricted to those code objects).  Lines that cannot
be reached by a surface card without a TR number are listed, by their source
text, in UNREACHABLE; everything else must be executed at least once.'''
import linecache
import sys
import types


def _codes(func):
    code = func.__code__
    out = [code]
    stack = [code]
    while stack:
        cur = stack.pop()
        for const in cur.co_consts:
            if isinstance(const, types.CodeType):
                out.append(const)
                stack.append(const)
    return out


class LineCov:
    def __init__(self, funcs):
        self.codes = {}
        for func in funcs:
            func = getattr(func, '__func__', func)
            for code in _codes(func):
                self.codes[code] = func.__qualname__
        self.hit = {code: set() for code in self.codes}
        self._prev = None

    def _global(self, frame, event, arg):
        if frame.f_code in self.codes:
            self.hit[frame.f_code].add(frame.f_lineno)
            return self._local
        return None

    def _local(self, frame, event, arg):
        if event == 'line':
            self.hit[frame.f_code].add(frame.f_lineno)
        return self._local

    def __enter__(self):
        self._prev = sys.gettrace()
        sys.settrace(self._global)
        return self

    def __exit__(self, *exc):
        sys.settrace(self._prev)
        return False

    def missing(self, unreachable):
        '''[(qualname, lineno, text)] of executable lines never hit.'''
        out = []
        total = 0
        for code, name in self.codes.items():
            lines = {ln for _, _, ln in code.co_lines() if ln is not None}
            lines.discard(code.co_firstlineno)
            total += len(lines)
            for ln in sorted(lines - self.hit[code]):
                text = linecache.getline(code.co_filename, ln).strip()
                if any(pat in text for pat in unreachable):
                    continue
                out.append((name, ln, text))
        return total, out


UNREACHABLE = [
    # convert_torus: axis not along a coordinate axis (needs a TR card: C04)
    'transform_mat = rotation_from_vectors', 'center = transform_mat.T.dot',
    'param[:3] = list(center.flat)', 'transform = (np.zeros(3), transform_mat)',
    'type_surface = T4S.TORUSZ',
    # conversion_surface_params / convert_mcnp_surface: defensive branches
    "msg = f'Unrecognized surface type", 'raise SurfaceConversionError(msg)',
    'except SurfaceConversionError as err:',
    "msg = f'{err} (while converting surface {key})'",
    'raise SurfaceConversionError(msg) from None',
    # to_surface_mcnp: TR number (C04); cone tuples always have 3 entries
    'idorigin.append(transform_id)',
    'surf = transformation(transform_parsed[int(transform_id)], surf)',
    "msg = f'Unexpected number of parameters for cone", 'raise ValueError(msg)',
    'compl_params = (*compl_params, None)',
    # get_surfaces: the lim argument is never given
    'break',
    # mcnp_to_mip is always called with an enum member
    's = en',
    # forcad._normal: self-check that cannot fail
    'print(x, y, z)', 'print(a, b, c)', 'print(check1, check2)',
    "raise ValueError('Normal vector not normal or zero')",
    # planeParamsFromPoints: a unit vector has a component above 1e-14
    "raise ValueError('Cannot convert plane from three points because the '",
    "'points are collinear or almost so: '", "f'{pt1}, {pt2}, {pt3}')",
]


def anchored_functions():
    from MIP.geom import forcad
    from t4_geom_convert.Kernel import VectUtils
    from t4_geom_convert.Kernel.FileHandlers.Parser import ParseMCNPSurface
    from t4_geom_convert.Kernel.Surface import ConversionSurfaceMCNPToT4 as conv
    from t4_geom_convert.Kernel.Surface.CollectionDict import CollectionDict
    from t4_geom_convert.Kernel.Surface.SurfaceCollection import \
        SurfaceCollection
    funcs = list({id(f): f for f in forcad.mcnp2cad.values()}.values())
    funcs += [forcad._sphere, forcad._plane, forcad._cylinder, forcad._cone,
              forcad._torus, forcad._shift, forcad._norm, forcad._norm2,
              forcad._normal]
    funcs += [VectUtils.planeParamsFromPoints, VectUtils.scal, VectUtils.vect,
              VectUtils.rescale, VectUtils.vdiff, VectUtils.renorm,
              VectUtils.mag2, VectUtils.mag]
    funcs += [ParseMCNPSurface.normalize_surface,
              ParseMCNPSurface.to_surface_mcnp]
    funcs += [conv.conversion_surface_params, conv.convert_plane,
              conv.convert_cylinder, conv.convert_sphere,
              conv.convert_special_quadric, conv.eval_quadric,
              conv.convert_quadric, conv.convert_torus, conv.convert_cone,
              conv.convert_mcnp_surface]
    from MIP.geom import surfaces
    from MIP.mip import surfacecard, datacard
    from MIP.mip.main import Card
    from t4_geom_convert.Kernel.Surface import ESurfaceTypeMCNP as enum_mod
    funcs += [surfaces.get_surfaces, surfacecard.split, datacard.to_float,
              Card.content, enum_mod.string_to_enum, enum_mod.mcnp_to_mip,
              ParseMCNPSurface.to_surfaces_mcnp]
    if hasattr(conv, 'sq_to_gq'):
        funcs.append(conv.sq_to_gq)
    funcs += [SurfaceCollection.join, SurfaceCollection.__init__,
              CollectionDict.number_items]
    return funcs
