'''C09 — line coverage of the anchored Python functions during the ties, the
corpus and the witnesses (sys.settrace restricted to those code objects; same
technique as harness/c02_cov.py).  Lines outside the material/density path of
a function, or unreachable from the inputs the ties can build, are listed by
their source text in UNREACHABLE; every other line must be executed.'''
import linecache
import sys
import types


def _codes(func):
    code = func.__code__
    out, stack = [code], [code]
    while stack:
        cur = stack.pop()
        for const in cur.co_consts:
            if isinstance(const, types.CodeType):
                out.append(const)
                stack.append(const)
    return out


class LineCov:
    def __init__(self, funcs):
        self.codes = {}
        for func in funcs:
            func = getattr(func, '__func__', func)
            for code in _codes(func):
                self.codes[code] = func.__qualname__
        self.hit = {code: set() for code in self.codes}
        self._prev = None
        self.depth = 0

    def _global(self, frame, event, arg):
        if frame.f_code in self.codes:
            self.hit[frame.f_code].add(frame.f_lineno)
            return self._local
        return None

    def _local(self, frame, event, arg):
        if event == 'line':
            self.hit[frame.f_code].add(frame.f_lineno)
        return self._local

    def __enter__(self):
        if self.depth == 0:
            self._prev = sys.gettrace()
            sys.settrace(self._global)
        self.depth += 1
        return self

    def __exit__(self, *exc):
        self.depth -= 1
        if self.depth == 0:
            sys.settrace(self._prev)
        return False

    def missing(self, unreachable):
        out, total = [], 0
        for code, name in self.codes.items():
            lines = {ln for _, _, ln in code.co_lines() if ln is not None}
            lines.discard(code.co_firstlineno)
            total += len(lines)
            for ln in sorted(lines - self.hit[code]):
                text = linecache.getline(code.co_filename, ln).strip()
                if any(pat in text for pat in unreachable):
                    continue
                out.append((name, ln, text))
        return total, out


UNREACHABLE = []


def anchored_functions():
    from t4_geom_convert.Kernel import Utils
    from t4_geom_convert.Kernel.FileHandlers.Parser.ParseMCNPCell import \
        ParseMCNPCell
    from t4_geom_convert.Kernel.Volume.CellConversion import CellConversion
    from t4_geom_convert.Kernel.GeomComp import ConstructGeomCompT4
    from t4_geom_convert.Kernel.Composition import ConstructCompositionT4
    from t4_geom_convert.Kernel.FileHandlers.Writer import (WriteT4GeomComp,
                                                            WriteT4Composition)
    return [Utils.normalize_float, ParseMCNPCell.parse_material,
            ParseMCNPCell.parse_one_cell, ParseMCNPCell.apply_but,
            CellConversion.pot_fill,
            ConstructGeomCompT4.constructGeomCompT4,
            WriteT4GeomComp.writeT4GeomComp,
            ConstructCompositionT4.constructCompositionT4,
            WriteT4Composition.writeT4Composition]
