'''C09 — line coverage of the anchored Python functions during the ties, the
corpus and the witnesses (sys.settrace restricted to those code objects; same
technique as harness/c02_cov.py).  Lines outside the material/density path of
a function, or unreachable from the inputs the ties can build, are listed by
their source text in UNREACHABLE; every other line must be executed.'''
import linecache
import sys
import types


def _codes(func):
    code = func.__code__
    out, stack = [code], [code]
    while stack:
        cur = stack.pop()
        for const in cur.co_consts:
            if isinstance(const, types.CodeType):
                out.append(const)
                stack.append(const)
    return out


class LineCov:
    def __init__(self, funcs):
        self.codes = {}
        for func in funcs:
            func = getattr(func, '__func__', func)
            for code in _codes(func):
                self.codes[code] = func.__qualname__
        self.hit = {code: set() for code in self.codes}
        self._prev = None
        self.depth = 0

    def _global(self, frame, event, arg):
        if frame.f_code in self.codes:
            self.hit[frame.f_code].add(frame.f_lineno)
            return self._local
        return None

    def _local(self, frame, event, arg):
        if event == 'line':
            self.hit[frame.f_code].add(frame.f_lineno)
        return self._local

    def __enter__(self):
        if self.depth == 0:
            self._prev = sys.gettrace()
            sys.settrace(self._global)
        self.depth += 1
        return self

    def __exit__(self, *exc):
        self.depth -= 1
        if self.depth == 0:
            sys.settrace(self._prev)
        return False

    def missing(self, unreachable):
        out, total = [], 0
        for code, name in self.codes.items():
            lines = {ln for _, _, ln in code.co_lines() if ln is not None}
            lines.discard(code.co_firstlineno)
            total += len(lines)
            for ln in sorted(lines - self.hit[code]):
                text = linecache.getline(code.co_filename, ln).strip()
                if any(pat in text for pat in unreachable):
                    continue
                out.append((name, ln, text))
        return total, out


UNREACHABLE = []


class NoCov:
    '''Stand-in when the tracer cannot be set up: coverage is information only.'''
    codes = {}

    def __enter__(self):
        return self

    def __exit__(self, *exc):
        return False

    def missing(self, unreachable):
        return 0, []


def anchored_functions():
    '''(functions found, names not present).  Every lookup is tolerant: a
    rewrite may rename or remove helpers; what is missing is only recorded.'''
    import importlib
    wanted = [
        ('t4_geom_convert.Kernel.Utils', ['normalize_float']),
        ('t4_geom_convert.Kernel.FileHandlers.Parser.ParseMCNPCell',
         ['ParseMCNPCell.parse_material', 'ParseMCNPCell.parse_one_cell',
          'ParseMCNPCell.apply_but']),
        ('t4_geom_convert.Kernel.Volume.CellConversion',
         ['CellConversion.pot_fill']),
        ('t4_geom_convert.Kernel.GeomComp.ConstructGeomCompT4',
         ['constructGeomCompT4']),
        ('t4_geom_convert.Kernel.FileHandlers.Writer.WriteT4GeomComp',
         ['writeT4GeomComp']),
        ('t4_geom_convert.Kernel.Composition.ConstructCompositionT4',
         ['constructCompositionT4']),
        ('t4_geom_convert.Kernel.FileHandlers.Writer.WriteT4Composition',
         ['writeT4Composition']),
    ]
    found, absent = [], []
    for module, names in wanted:
        try:
            mod = importlib.import_module(module)
        except Exception:
            absent.extend(f'{module}.{n}' for n in names)
            continue
        for dotted in names:
            obj = mod
            for part in dotted.split('.'):
                obj = getattr(obj, part, None)
                if obj is None:
                    break
            func = getattr(obj, '__func__', obj)
            if obj is None or not hasattr(func, '__code__'):
                absent.append(f'{module}.{dotted}')
            else:
                found.append(obj)
    return found, absent
