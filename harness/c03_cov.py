'''C03 — line coverage of the anchored Python functions during the TIED calls
(sys.settrace restricted to their code objects, switched on only around the
calls whose results go to the Coq model).  Lines that the ties cannot reach
are listed by their source text in UNREACHABLE, with the reason; every other
line must be executed at least once in every run.'''
import linecache
import sys
import types


def _codes(func):
    out, stack = [func.__code__], [func.__code__]
    while stack:
        cur = stack.pop()
        for const in cur.co_consts:
            if isinstance(const, types.CodeType):
                out.append(const)
                stack.append(const)
    return out


class LineCov:
    def __init__(self, funcs):
        self.codes = {}
        for func in funcs:
            func = getattr(func, '__func__', func)
            for code in _codes(func):
                self.codes[code] = func.__qualname__
        self.hit = {code: set() for code in self.codes}
        self._prev = None
        self._depth = 0

    def _global(self, frame, event, arg):
        if frame.f_code in self.codes:
            self.hit[frame.f_code].add(frame.f_lineno)
            return self._local
        return None

    def _local(self, frame, event, arg):
        if event == 'line':
            self.hit[frame.f_code].add(frame.f_lineno)
        return self._local

    def __enter__(self):
        if self._depth == 0:
            self._prev = sys.gettrace()
            sys.settrace(self._global)
        self._depth += 1
        return self

    def __exit__(self, *exc):
        self._depth -= 1
        if self._depth == 0:
            sys.settrace(self._prev)
        return False

    def missing(self, unreachable):
        out, total = [], 0
        for code, name in self.codes.items():
            lines = {ln for _, _, ln in code.co_lines() if ln is not None}
            lines.discard(code.co_firstlineno)
            total += len(lines)
            for ln in sorted(lines - self.hit[code]):
                text = linecache.getline(code.co_filename, ln).strip()
                if any((pat in text) if isinstance(pat, str)
                       else (pat[0] == name and pat[1] in text)
                       for pat in unreachable):
                    continue
                out.append((name, ln, text))
        return total, out


UNREACHABLE = [
    # ell: third Gram-Schmidt branch; impossible for a unit vector (the proof of
    # C03_ell_*_facet_k covers it anyway)
    'u_b = renorm(vdiff((0, 0, 1), rescale(u_a[2], u_a)))',
    # planeParamsFromPoints: a unit normal has a component above 1e-14
    "raise ValueError('Cannot convert plane from three points because the '",
    "'points are collinear or almost so: '", "f'{pt1}, {pt2}, {pt3}')",
    # transformation_quad: numpy never raises on 4x4 products
    'except np.linalg.LinAlgError as err:',
    "msg = (f'Numpy error while transforming quadric", "f'{m_mat}: {err}')",
    'raise TransformationError(msg) from None',
    # transformation(): an empty transformation is filtered by the callers;
    # SQ surfaces are not produced by macrobodies
    'return surface', 'surface = SurfaceMCNP(surface.boundary_cond, MS.GQ,',
    'surface.param_surface,', 'sq_to_gq(surface.compl_param), surface.idorigin)',
    # to_surfaces_macro is only called for the eleven dispatched mnemonics
    "raise NotImplementedError(f'Macrobody {enum_surface} is not '",
    "'implemented yet')",
    # to_surface_mcnp: forcad._cone always returns three complementary entries
    'compl_params = (*compl_params, None)',
    "msg = f'Unexpected number of parameters for cone", 'raise ValueError(msg)',
    # conversion_surface_params: SQ, tori and unknown types are not macrobody facets
    'type_surface, param = convert_special_quadric(val)',
    'elif val.type_surface in (MS.TX, MS.TY, MS.TZ, MS.T):',
    'type_surface, param, transform = convert_torus(val)',
    "msg = f'Unrecognized surface type", 'raise SurfaceConversionError(msg)',
    # convert_cone: one-nappe cones are not macrobody facets (C02)
    ('convert_cone', 'pos = -(u_x * p_x'), ('convert_cone', 'side = -int(nappe)'),
    ('convert_cone', 'if u_x == 0 and u_y == 0:'),
    ('convert_cone', 'elif u_y == 0 and u_z == 0:'),
    ('convert_cone', 'elif u_z == 0 and u_x == 0:'),
    ('convert_cone', 'T4S.PLANE'), ('convert_cone', 'param = [-pos'),
    ('convert_cone', 'side = side if'), ('convert_cone', 'else:'),
    ('convert_cone', 'param = [u_x, u_y, u_z, pos]'),
    ('convert_cone', 'plane = SurfaceT4'), ('convert_cone', 'aux plane for cone'),
    ('convert_cone', '(plane, side)])'),
    # forcad._cone: log is never set
    "print('_cone', frm, srf, p)",
    # SurfaceCollection: a conversion never yields an empty list
    "raise SurfaceConversionError('need a non-empty list of surfaces '",
    "'in SurfaceCollection')",
    # CollectionDict._normalize_key: keys are ints or Surface objects here
    ('CollectionDict._normalize_key', 'isinstance(args, tuple)'),
    ('CollectionDict._normalize_key', 'raise IndexError'),
    ('CollectionDict._normalize_key', "f'CollectionDict, got"),
    ('CollectionDict._normalize_key', 'isinstance(args[0], int)'),
    ('CollectionDict._normalize_key', 'raise TypeError'),
    ('CollectionDict._normalize_key', "'CollectionDict')"),
    ('CollectionDict._normalize_key', 'return args'),
    # pot_expand_surfs / pot_transform: the ties feed surface LEAVES; operator
    # nodes, cell references and complements belong to C01 / C11 / C04 and are
    # exercised here by the two sweeps only
    ('CellConversion.pot_expand_surfs', 'p_id, operator, *args = p_tree'),
    ('CellConversion.pot_expand_surfs', 'new_tree'),
    ('CellConversion.pot_expand_surfs', 'for node in args)'),
    ('CellConversion.pot_expand_surfs', 'return p_tree'),
    ('CellConversion.pot_transform', 'return p_tree'),
    ('CellConversion.pot_transform', 'operator, *args = p_tree'),
    ('CellConversion.pot_transform', "if operator == '^':"),
    ('CellConversion.pot_transform', 'new_args'), ('CellConversion.pot_transform', 'new_tree'),
    ('CellConversion.pot_transform', 'cell_transform'),
    ('CellConversion.pot_transform', 'return CellRef(new_cell_key)'),
]


MISSING = []       # names that could not be resolved (information only)


def _get(obj, dotted):
    '''obj.a.b resolved tolerantly: None (and the name recorded) when any part
    is missing -- a harmless rewrite may rename or remove private helpers.'''
    cur = obj
    for part in dotted.split('.'):
        cur = getattr(cur, part, None)
        if cur is None:
            MISSING.append(f'{getattr(obj, "__name__", obj)}.{dotted}')
            return None
    return cur


def anchored_functions():
    '''The functions whose lines are watched.  Nothing here may raise: what
    cannot be imported or found is skipped and listed in MISSING.'''
    import importlib
    del MISSING[:]
    spec = {
        't4_geom_convert.Kernel.Surface.MacroBodies': [
            'check_params_length', 'box', 'rpp', 'sph', 'rcc', 'rhp', 'rec',
            'trc', 'ell', 'wed', 'parse_facet', 'arb',
            'MacroBodyError.__init__'],
        't4_geom_convert.Kernel.VectUtils': [
            'scal', 'vect', 'rescale', 'vsum', 'vdiff', 'renorm', 'mag2', 'mag',
            'rotate', 'planeParamsFromPoints', 'planeParamsFromNormalAndPoint'],
        't4_geom_convert.Kernel.Transformation.TransformationQuad': [
            'transformation_quad'],
        't4_geom_convert.Kernel.Transformation.Transformation': [
            'transformation'],
        't4_geom_convert.Kernel.FileHandlers.Parser.ParseMCNPSurface': [
            'to_surfaces_macro', 'to_surface_mcnp', 'normalize_surface'],
        't4_geom_convert.Kernel.Surface.ConversionSurfaceMCNPToT4': [
            'conversion_surface_params', 'convert_plane', 'convert_cylinder',
            'convert_sphere', 'convert_quadric', 'convert_cone'],
        'MIP.geom.forcad': [
            'p', 's', 'cylinder', 'cone', 'gq', '_plane', '_sphere',
            '_cylinder', '_cone', '_shift', '_norm', '_norm2',
            'transform_frame'],
        'MIP.geom.transforms': ['transform_point', 'transform_vector'],
        't4_geom_convert.Kernel.Surface.SurfaceCollection': [
            'SurfaceCollection.join', 'SurfaceCollection.__init__'],
        't4_geom_convert.Kernel.Surface.CollectionDict': [
            'CollectionDict.number_items', 'CollectionDict._get_item',
            'CollectionDict._normalize_key'],
        't4_geom_convert.Kernel.Volume.CellConversion': [
            'CellConversion.pot_expand_surfs', 'CellConversion.pot_transform'],
    }
    funcs = []
    for modname, names in spec.items():
        try:
            mod = importlib.import_module(modname)
        except Exception:      # pylint: disable=broad-except
            MISSING.append(modname)
            continue
        for name in names:
            func = _get(mod, name)
            func = getattr(func, '__func__', func)
            if func is not None and hasattr(func, '__code__'):
                funcs.append(func)
    return funcs
