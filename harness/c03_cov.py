'''C03 — line coverage of the anchored Python functions during the TIED calls
(sys.settrace restricted to their code objects, switched on only around the
calls whose results go to the Coq model).  Lines that the ties cannot reach
are listed by their source text in UNREACHABLE, with the reason; every other
line must be executed at least once in every run.'''
import linecache
import sys
import types


def _codes(func):
    out, stack = [func.__code__], [func.__code__]
    while stack:
        cur = stack.pop()
        for const in cur.co_consts:
            if isinstance(const, types.CodeType):
                out.append(const)
                stack.append(const)
    return out


class LineCov:
    def __init__(self, funcs):
        self.codes = {}
        for func in funcs:
            func = getattr(func, '__func__', func)
            for code in _codes(func):
                self.codes[code] = func.__qualname__
        self.hit = {code: set() for code in self.codes}
        self._prev = None
        self._depth = 0

    def _global(self, frame, event, arg):
        if frame.f_code in self.codes:
            self.hit[frame.f_code].add(frame.f_lineno)
            return self._local
        return None

    def _local(self, frame, event, arg):
        if event == 'line':
            self.hit[frame.f_code].add(frame.f_lineno)
        return self._local

    def __enter__(self):
        if self._depth == 0:
            self._prev = sys.gettrace()
            sys.settrace(self._global)
        self._depth += 1
        return self

    def __exit__(self, *exc):
        self._depth -= 1
        if self._depth == 0:
            sys.settrace(self._prev)
        return False

    def missing(self, unreachable):
        out, total = [], 0
        for code, name in self.codes.items():
            lines = {ln for _, _, ln in code.co_lines() if ln is not None}
            lines.discard(code.co_firstlineno)
            total += len(lines)
            for ln in sorted(lines - self.hit[code]):
                text = linecache.getline(code.co_filename, ln).strip()
                if any((pat in text) if isinstance(pat, str)
                       else (pat[0] == name and pat[1] in text)
                       for pat in unreachable):
                    continue
                out.append((name, ln, text))
        return total, out


UNREACHABLE = [
    # ell: third Gram-Schmidt branch; impossible for a unit vector (the proof of
    # C03_ell_*_facet_k covers it anyway)
    'u_b = renorm(vdiff((0, 0, 1), rescale(u_a[2], u_a)))',
    # planeParamsFromPoints: a unit normal has a component above 1e-14
    "raise ValueError('Cannot convert plane from three points because the '",
    "'points are collinear or almost so: '", "f'{pt1}, {pt2}, {pt3}')",
    # transformation_quad: numpy never raises on 4x4 products
    'except np.linalg.LinAlgError as err:',
    "msg = (f'Numpy error while transforming quadric", "f'{m_mat}: {err}')",
    'raise TransformationError(msg) from None',
    # transformation(): an empty transformation is filtered by the callers;
    # SQ surfaces are not produced by macrobodies
    'return surface', 'surface = SurfaceMCNP(surface.boundary_cond, MS.GQ,',
    'surface.param_surface,', 'sq_to_gq(surface.compl_param), surface.idorigin)',
    # to_surfaces_macro is only called for the eleven dispatched mnemonics
    "raise NotImplementedError(f'Macrobody {enum_surface} is not '",
    "'implemented yet')",
    # to_surface_mcnp: forcad._cone always returns three complementary entries
    'compl_params = (*compl_params, None)',
    "msg = f'Unexpected number of parameters for cone", 'raise ValueError(msg)',
    # conversion_surface_params: SQ, tori and unknown types are not macrobody facets
    'type_surface, param = convert_special_quadric(val)',
    'elif val.type_surface in (MS.TX, MS.TY, MS.TZ, MS.T):',
    'type_surface, param, transform = convert_torus(val)',
    "msg = f'Unrecognized surface type", 'raise SurfaceConversionError(msg)',
    # convert_cone: one-nappe cones are not macrobody facets (C02)
    ('convert_cone', 'pos = -(u_x * p_x'), ('convert_cone', 'side = -int(nappe)'),
    ('convert_cone', 'if u_x == 0 and u_y == 0:'),
    ('convert_cone', 'elif u_y == 0 and u_z == 0:'),
    ('convert_cone', 'elif u_z == 0 and u_x == 0:'),
    ('convert_cone', 'T4S.PLANE'), ('convert_cone', 'param = [-pos'),
    ('convert_cone', 'side = side if'), ('convert_cone', 'else:'),
    ('convert_cone', 'param = [u_x, u_y, u_z, pos]'),
    ('convert_cone', 'plane = SurfaceT4'), ('convert_cone', 'aux plane for cone'),
    ('convert_cone', '(plane, side)])'),
    # forcad._cone: log is never set
    "print('_cone', frm, srf, p)",
    # SurfaceCollection: a conversion never yields an empty list
    "raise SurfaceConversionError('need a non-empty list of surfaces '",
    "'in SurfaceCollection')",
    # CollectionDict._normalize_key: keys are ints or Surface objects here
    ('CollectionDict._normalize_key', 'isinstance(args, tuple)'),
    ('CollectionDict._normalize_key', 'raise IndexError'),
    ('CollectionDict._normalize_key', "f'CollectionDict, got"),
    ('CollectionDict._normalize_key', 'isinstance(args[0], int)'),
    ('CollectionDict._normalize_key', 'raise TypeError'),
    ('CollectionDict._normalize_key', "'CollectionDict')"),
    ('CollectionDict._normalize_key', 'return args'),
    # pot_expand_surfs / pot_transform: the ties feed surface LEAVES; operator
    # nodes, cell references and complements belong to C01 / C11 / C04 and are
    # exercised here by the two sweeps only
    ('CellConversion.pot_expand_surfs', 'p_id, operator, *args = p_tree'),
    ('CellConversion.pot_expand_surfs', 'new_tree'),
    ('CellConversion.pot_expand_surfs', 'for node in args)'),
    ('CellConversion.pot_expand_surfs', 'return p_tree'),
    ('CellConversion.pot_transform', 'return p_tree'),
    ('CellConversion.pot_transform', 'operator, *args = p_tree'),
    ('CellConversion.pot_transform', "if operator == '^':"),
    ('CellConversion.pot_transform', 'new_args'), ('CellConversion.pot_transform', 'new_tree'),
    ('CellConversion.pot_transform', 'cell_transform'),
    ('CellConversion.pot_transform', 'return CellRef(new_cell_key)'),
]


def anchored_functions():
    from MIP.geom import forcad, transforms
    from t4_geom_convert.Kernel import VectUtils as VU
    from t4_geom_convert.Kernel.FileHandlers.Parser import ParseMCNPSurface as PS
    from t4_geom_convert.Kernel.Surface import ConversionSurfaceMCNPToT4 as conv
    from t4_geom_convert.Kernel.Surface import MacroBodies as MB
    from t4_geom_convert.Kernel.Surface.CollectionDict import CollectionDict
    from t4_geom_convert.Kernel.Surface.SurfaceCollection import \
        SurfaceCollection
    from t4_geom_convert.Kernel.Transformation import Transformation as TR
    from t4_geom_convert.Kernel.Transformation import TransformationQuad as TQ
    from t4_geom_convert.Kernel.Volume.CellConversion import CellConversion
    funcs = [MB.check_params_length, MB.box, MB.rpp, MB.sph, MB.rcc, MB.rhp,
             MB.rec, MB.trc, MB.ell, MB.wed, MB.parse_facet, MB.arb,
             MB.MacroBodyError.__init__]
    funcs += [VU.scal, VU.vect, VU.rescale, VU.vsum, VU.vdiff,
              VU.renorm, VU.mag2, VU.mag, VU.rotate, VU.planeParamsFromPoints,
              VU.planeParamsFromNormalAndPoint]
    funcs += [TQ.transformation_quad, TR.transformation]
    funcs += [PS.to_surfaces_macro, PS.to_surface_mcnp, PS.normalize_surface]
    funcs += [conv.conversion_surface_params, conv.convert_plane,
              conv.convert_cylinder, conv.convert_sphere, conv.convert_quadric,
              conv.convert_cone]
    funcs += [forcad.p, forcad.s, forcad.cylinder, forcad.cone, forcad.gq,
              forcad._plane, forcad._sphere, forcad._cylinder, forcad._cone,
              forcad._shift, forcad._norm, forcad._norm2,
              forcad.transform_frame, transforms.transform_point,
              transforms.transform_vector]
    funcs += [SurfaceCollection.join, SurfaceCollection.__init__,
              CollectionDict.number_items, CollectionDict._get_item,
              CollectionDict._normalize_key]
    funcs += [CellConversion.pot_expand_surfs, CellConversion.pot_transform]
    return funcs
