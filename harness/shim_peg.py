'''Harness-side PEG interpreter standing in for TatSu (>=5.6,<5.24).

The installed TatSu 5.24.0 mis-handles left recursion, so
``MIP.geom.parsegeom.parser.parse`` rejects every expression with an operator.
This module interprets the EBNF subset used by ``MIP/geom/grammars/geom.ebnf``
(read from /repo at run time through pkgutil) and is installed by replacing the
module attribute ``MIP.geom.parsegeom.parser``.  ``normalize``, ``get_ast``,
the grammar text and ``GeomSemantics`` stay the repository's.

Supported: rules ``name = alt | alt ;`` (optional leading ``|``), sequences of
elements, named elements ``n:elem``, literals ``'..'``/``".."``, regex
terminals ``/../``, rule references, ``$`` (end of text, void), direct left
recursion by seed growing.  A rule with named elements yields an object whose
attributes are *all* names used in that rule (missing ones ``None``), like
TatSu's AST; a rule without names yields its single non-void element, or the
list of elements.  Semantic actions are looked up by rule name.
'''
import re
import tatsu.exceptions


class ShimParseError(tatsu.exceptions.ParseException):
    '''Raised where TatSu would raise FailedParse.'''


class Node:
    '''AST object with attribute and key access (TatSu AST look-alike).'''

    def __init__(self, names):
        for name in names:
            setattr(self, name, None)
        self._names = list(names)

    def __getitem__(self, key):
        return getattr(self, key)

    def __contains__(self, key):
        return key in self._names

    def __eq__(self, other):
        return (isinstance(other, Node)
                and [(n, getattr(self, n)) for n in self._names]
                == [(n, getattr(other, n)) for n in other._names])

    def __hash__(self):
        return id(self)

    def __repr__(self):
        return '{' + ', '.join(f'{n}: {getattr(self, n)!r}'
                               for n in self._names) + '}'


_TOKEN = re.compile(r'''\s*(?:
      (?P<name>[A-Za-z_][A-Za-z_0-9]*)
    | '(?P<sq>(?:[^'\\]|\\.)*)'
    | "(?P<dq>(?:[^"\\]|\\.)*)"
    | /(?P<re>(?:[^/\\]|\\.)*)/
    | (?P<punct>[=|;:$])
    )''', re.X)


def _tokenize(text):
    # strip comments (# ... and (* ... *))
    text = re.sub(r'\(\*.*?\*\)', ' ', text, flags=re.S)
    text = re.sub(r'^\s*#.*$', ' ', text, flags=re.M)
    pos = 0
    toks = []
    while True:
        m = re.compile(r'\s*').match(text, pos)
        pos = m.end()
        if pos >= len(text):
            return toks
        m = _TOKEN.match(text, pos)
        if not m:
            raise ValueError(f'shim_peg: cannot tokenize grammar at {pos}: '
                             f'{text[pos:pos+20]!r}')
        for kind in ('name', 'sq', 'dq', 're', 'punct'):
            if m.group(kind) is not None:
                k = 'lit' if kind in ('sq', 'dq') else kind
                toks.append((k, m.group(kind)))
                break
        pos = m.end()


def _parse_grammar(text):
    toks = _tokenize(text)
    rules = {}
    order = []
    i = 0
    while i < len(toks):
        kind, name = toks[i]
        if kind != 'name' or toks[i + 1] != ('punct', '='):
            raise ValueError(f'shim_peg: expected rule definition at {toks[i]}')
        i += 2
        alts = [[]]
        while toks[i] != ('punct', ';'):
            tok = toks[i]
            if tok == ('punct', '|'):
                if alts[-1]:
                    alts.append([])
                i += 1
                continue
            label = None
            if (tok[0] == 'name' and i + 1 < len(toks)
                    and toks[i + 1] == ('punct', ':')):
                label = tok[1]
                i += 2
                tok = toks[i]
            if tok[0] == 'name':
                elem = ('ref', tok[1])
            elif tok[0] == 'lit':
                elem = ('lit', tok[1])
            elif tok[0] == 're':
                elem = ('re', re.compile(tok[1]))
            elif tok == ('punct', '$'):
                elem = ('eof', None)
            else:
                raise ValueError(f'shim_peg: unsupported element {tok}')
            alts[-1].append((label, elem))
            i += 1
        i += 1
        rules[name] = alts
        order.append(name)
    return rules, order


class Parser:
    '''``Parser(grammar_text).parse(text, semantics=obj)``.'''

    def __init__(self, grammar):
        self.rules, order = _parse_grammar(grammar)
        self.start = 'start' if 'start' in self.rules else order[0]
        self.names = {
            rule: [n for n in dict.fromkeys(label for alt in alts
                                            for label, _ in alt
                                            if label is not None)]
            for rule, alts in self.rules.items()}

    def parse(self, text, semantics=None, **_kwargs):
        self.text = text
        self.semantics = semantics
        self.memo = {}
        self.final = {}      # completed (rule, pos) results, see _rule
        self.active = {}     # pos -> number of left-recursive heads growing
        self.farthest = 0
        res = self._rule(self.start, 0)
        if res is None:
            raise ShimParseError(
                f'shim_peg: parse failed near position {self.farthest} '
                f'of {text!r}')
        return res[0]

    # each _x returns None on failure or (value, new_pos)
    def _rule(self, name, pos):
        key = (name, pos)
        if key in self.memo:
            return self.memo[key]
        if key in self.final:
            return self.final[key]
        # seed growing for (direct or indirect) left recursion
        self.memo[key] = None
        self.active[pos] = self.active.get(pos, 0) + 1
        best = None
        try:
            while True:
                res = self._body(name, pos)
                if res is None or (best is not None and res[1] <= best[1]):
                    break
                best = res
                self.memo[key] = best
        finally:
            self.memo.pop(key, None)
            self.active[pos] -= 1
        # A result completed while no other head is growing at the same
        # position cannot depend on a seed (rules invoked at a position never
        # consult memo entries of smaller positions): keep it, so that nested
        # parentheses are not re-parsed by every enclosing alternative.
        if self.active[pos] == 0:
            self.final[key] = best
        return best

    def _body(self, name, pos):
        for alt in self.rules[name]:
            res = self._seq(name, alt, pos)
            if res is not None:
                value, end = res
                action = getattr(self.semantics, name, None)
                if action is not None:
                    value = action(value)
                return value, end
        return None

    def _seq(self, name, alt, pos):
        names = self.names[name]
        node = Node(names) if names else None
        values = []
        for label, (kind, arg) in alt:
            if kind == 'ref':
                res = self._rule(arg, pos)
                if res is None:
                    return None
                val, pos = res
            elif kind == 'lit':
                if not self.text.startswith(arg, pos):
                    self.farthest = max(self.farthest, pos)
                    return None
                val, pos = arg, pos + len(arg)
            elif kind == 're':
                m = arg.match(self.text, pos)
                if m is None:
                    self.farthest = max(self.farthest, pos)
                    return None
                val, pos = m.group(0), m.end()
            elif kind == 'eof':
                if pos != len(self.text):
                    self.farthest = max(self.farthest, pos)
                    return None
                continue
            if label is not None:
                setattr(node, label, val)
            values.append(val)
        if node is not None:
            return node, pos
        if len(values) == 1:
            return values[0], pos
        return values, pos


def install():
    '''Replace MIP.geom.parsegeom.parser by the shim; idempotent.'''
    import MIP.geom.parsegeom as pg
    if not isinstance(pg.parser, Parser):
        pg.parser = Parser(pg.grammar)
    return pg
