'''C09 — corpus of small hand-written decks with the composition every probe
point must end up in (derived by hand from the MCNP reading of the deck, not
from the converter) and the exact set of compositions expected.'''

MATS = 'm1 1001 2 8016 1\nm2 26056 1\nm3 13027 1\n'

CORPUS = [
    # three levels; the containers carry materials that must not show up
    ('nesting-3-levels', '''corpus nesting
1 2 -7.8 -1 fill=1 imp:n=1
2 0 1 imp:n=0
3 2 -7.8 -2 fill=2 u=1 imp:n=1
4 3 -2.7 2 u=1 imp:n=1
5 1 -1.0 -3 u=2 imp:n=1
6 1 -1.50 3 u=2 imp:n=1

1 so 10
2 so 5
3 so 2

''' + MATS, [],
     [((0, 0, 0), 'm1_-1.0'), ((3, 0, 0), 'm1_-1.5'), ((0, 7, 0), 'm3_-2.7')],
     {'m1_-1.0', 'm1_-1.5', 'm3_-2.7'}),
    # a lattice naming its own universe and another one; element (0,0,0) and
    # (1,0,0) are the lattice cell itself (material 3), element (-1,0,0) is
    # universe 2 (material 1)
    ('lattice-own-universe', '''corpus lattice
1 0 -1 fill=1 imp:n=1
2 0 1 imp:n=0
3 3 -2.70 -2 3 lat=1 u=1 fill=-1:1 0:0 0:0 2 1 1 imp:n=1
4 1 -1.0 -4 u=2 imp:n=1
5 2 -7.8 4 u=2 imp:n=1

1 so 5.5
2 px 1
3 px -1
4 so 0.5

''' + MATS, [],
     [((0, 0.2, 0), 'm3_-2.7'), ((2, 0.2, 0), 'm3_-2.7'),
      ((-2, 0.1, 0), 'm1_-1.0'), ((-2, 0.8, 0), 'm2_-7.8')],
     {'m3_-2.7', 'm1_-1.0', 'm2_-7.8'}),
    # two materials with the same density string; one density under three
    # spellings; a void cell
    ('same-density-two-materials', '''corpus densities
1 1 -2.5 -1 imp:n=1
2 2 -2.5 1 -2 imp:n=1
3 1 -2.50 2 -3 imp:n=1
4 1 -2.500 3 -4 imp:n=1
5 0 4 -5 imp:n=1
6 0 5 imp:n=0

1 so 1
2 so 2
3 so 3
4 so 4
5 so 5

''' + MATS, [],
     [((0, 0, 0), 'm1_-2.5'), ((1.5, 0, 0), 'm2_-2.5'), ((2.5, 0, 0), 'm1_-2.5'),
      ((3.5, 0, 0), 'm1_-2.5'), ((4.5, 0, 0), 'm0')],
     {'m1_-2.5', 'm2_-2.5'}),
    # LIKE n BUT with RHO in another spelling of the base density, with another
    # density, and with another material, each used as a filler
    ('like-but', '''corpus like but
1 0 -1 fill=1 imp:n=1
2 0 1 -2 fill=2 imp:n=1
3 0 2 -3 fill=3 imp:n=1
4 0 3 -4 fill=4 imp:n=1
5 0 4 imp:n=0
6 1 -1.0 -9 u=1 imp:n=1
7 like 6 but rho=-1.00 u=2
8 like 6 but rho=-1.1-0 u=3
9 like 6 but mat=2 rho=-7.8d0 u=4

1 so 1
2 so 2
3 so 3
4 so 4
9 so 50

''' + MATS, [],
     [((0, 0, 0), 'm1_-1.0'), ((1.5, 0, 0), 'm1_-1.0'),
      ((2.5, 0, 0), 'm1_-1.1e-0'), ((3.5, 0, 0), 'm2_-7.8e0')],
     {'m1_-1.0', 'm1_-1.1e-0', 'm2_-7.8e0'}),
    # FILL=n of the lattice's own universe with the --lattice option: every
    # element is the lattice cell itself
    ('homogeneous-own-lattice', '''corpus homogeneous lattice
1 0 -1 fill=1 imp:n=1
2 0 1 imp:n=0
3 3 -2.70 -2 3 -4 5 lat=1 u=1 fill=1 imp:n=1

1 so 2.5
2 px 1
3 px -1
4 py 1
5 py -1

''' + MATS, ['--lattice', '3,-1:1,-1:1'],
     [((0, 0, 0), 'm3_-2.7'), ((1.5, 0.2, 0), 'm3_-2.7'),
      ((-1.5, 1.5, 0.3), 'm3_-2.7'), ((0.2, -1.7, 1), 'm3_-2.7')],
     {'m3_-2.7'}),
    # material numbers written 01 and 02 (repaired in /repo d8902ad): the
    # GEOMCOMP names are those of the compositions
    ('material-leading-zero', '''corpus material tokens
1 01 -1.0 -1 imp:n=1
2 02 -7.8 1 -2 imp:n=1
3 1 -1.0 2 -3 imp:n=1
4 00 3 -4 imp:n=1
5 0 4 imp:n=0

1 so 1
2 so 2
3 so 3
4 so 4

''' + MATS, [],
     [((0, 0, 0), 'm1_-1.0'), ((1.5, 0, 0), 'm2_-7.8'), ((2.5, 0, 0), 'm1_-1.0'),
      ((3.5, 0, 0), 'm0')],
     {'m1_-1.0', 'm2_-7.8'}),
    # repaired in /repo bd76c8d and ac9102a: zeros in front of an exponent, and
    # a void copy made by LIKE n BUT MAT=0
    ('exponent-padding-and-void-copy', '''corpus padding void
1 1 -1.5e-3 -1 imp:n=1
2 1 -1.50e-3 1 -2 imp:n=1
3 1 -1.500-3 2 -3 imp:n=1
4 2 .50D1 3 -4 imp:n=1
5 0 4 -5 fill=1 imp:n=1
6 0 5 imp:n=0
7 like 8 but mat=0 u=1
8 1 -1.5e-3 -6 u=9 imp:n=1

1 so 1
2 so 2
3 so 3
4 so 4
5 so 5
6 so 50

''' + MATS, [],
     [((0, 0, 0), 'm1_-1.5e-3'), ((1.5, 0, 0), 'm1_-1.5e-3'),
      ((2.5, 0, 0), 'm1_-1.5e-3'), ((3.5, 0, 0), 'm2_.5e1'), ((4.5, 0, 0), 'm0')],
     {'m1_-1.5e-3', 'm2_.5e1'}),
    # LIKE chains: the overrides written on an INTERMEDIATE card must reach the
    # last copy, at level 0 (TRCL copies) and inside filling universes
    ('like-chains', '''corpus like chains
1 1 -1.0 -1 imp:n=1
2 like 1 but mat=2 rho=-7.8 trcl=(3 0 0)
3 like 2 but trcl=(6 0 0)
4 like 3 but rho=-7.90 trcl=(9 0 0)
5 0 -5 fill=3 imp:n=1
6 0 -6 fill=4 imp:n=1
7 0 1 2 3 4 5 6 -9 imp:n=1
8 0 9 imp:n=0
10 1 -1.0 -8 u=1 imp:n=1
11 like 10 but mat=3 rho=-2.7 u=2
12 like 11 but u=3
13 like 12 but rho=-2.75 u=4

1 so 1
2 s 3 0 0 1
3 s 6 0 0 1
4 s 9 0 0 1
5 s 0 4 0 1
6 s 0 -4 0 1
8 so 60
9 so 20

''' + MATS, [],
     [((0, 0, 0), 'm1_-1.0'), ((3, 0, 0), 'm2_-7.8'), ((6, 0, 0), 'm2_-7.8'),
      ((9, 0, 0), 'm2_-7.9'), ((0, 4, 0), 'm3_-2.7'), ((0, -4, 0), 'm3_-2.75'),
      ((0, 0, 5), 'm0')],
     {'m1_-1.0', 'm2_-7.8', 'm2_-7.9', 'm3_-2.7', 'm3_-2.75'}),
    # a container with TRCL (and no fill transformation): the fillers move
    # with the container; run in the four inlining modes below (VARIANTS)
    ('container-trcl', '''corpus container trcl
1 0 -1 fill=1 trcl=(6 0 0) imp:n=1
2 0 -1 fill=1 imp:n=1
3 0 1 4 -9 imp:n=1
4 0 9 imp:n=0
5 1 -1.0 -3 u=1 imp:n=1
6 2 -7.8 3 u=1 imp:n=1

1 so 2
3 px 0
4 s 6 0 0 2
9 so 20

''' + MATS, [],
     [((5.5, 0, 0), 'm1_-1.0'), ((6.5, 0, 0), 'm2_-7.8'),
      ((-0.5, 0, 0), 'm1_-1.0'), ((0.5, 0, 0), 'm2_-7.8'), ((0.3, 5, 0), 'm0')],
     {'m1_-1.0', 'm2_-7.8'}),
    # densities of one material that agree to six significant digits and differ
    # beyond, at level 0 and in a filling universe (seeded change C09_C)
    ('near-twin-densities', '''corpus near twins
1 1 -10.41234 -1 imp:n=1
2 1 -10.41235 1 -2 imp:n=1
3 0 2 -3 fill=1 imp:n=1
4 0 3 imp:n=0
5 2 6.408751e-2 -4 u=1 imp:n=1
6 2 6.408752e-2 4 u=1 imp:n=1

1 so 1
2 so 2
3 so 5
4 px 0

''' + MATS, [],
     [((0.2, 0, 0), 'm1_-10.41234'), ((1.5, 0, 0), 'm1_-10.41235'),
      ((-3, 0, 0), 'm2_6.408751e-2'), ((3, 0, 0), 'm2_6.408752e-2')],
     {'m1_-10.41234', 'm1_-10.41235', 'm2_6.408751e-2', 'm2_6.408752e-2'}),
    # one density VALUE of one material under spellings that normalize_float keeps
    # apart: each has its own composition, and GEOMCOMP names none that is not
    # written (seeded change C09_F)
    ('value-twin-spellings', '''corpus value twins
1 1 -1 -1 imp:n=1
2 1 -1.0 1 -2 imp:n=1
3 2 .5 2 -3 imp:n=1
4 2 0.5 3 -4 imp:n=1
5 0 4 -5 fill=1 imp:n=1
6 0 5 imp:n=0
7 3 -1.5 -6 u=1 imp:n=1
8 3 -1.5+0 6 u=1 imp:n=1

1 so 1
2 so 2
3 so 3
4 so 4
5 so 8
6 px 0

''' + MATS, [],
     [((0.2, 0, 0), 'm1_-1'), ((1.5, 0, 0), 'm1_-1.0'), ((2.5, 0, 0), 'm2_.5'),
      ((3.5, 0, 0), 'm2_0.5'), ((-6, 0, 0), 'm3_-1.5'), ((6, 0, 0), 'm3_-1.5e+0')],
     {'m1_-1', 'm1_-1.0', 'm2_.5', 'm2_0.5', 'm3_-1.5', 'm3_-1.5e+0'}),
    # one material at several ATOM densities (and one mass density): every block
    # must carry the density of its own cells (seeded change C09_G)
    ('several-atom-densities', '''corpus atom densities
1 1 0.06 -1 imp:n=1
2 1 3.0 1 -2 imp:n=1
3 1 -1.0 2 -3 imp:n=1
4 1 0.1002 3 -4 imp:n=1
5 0 4 -5 fill=1 imp:n=1
6 0 5 imp:n=0
7 2 8.5e-2 -6 u=1 imp:n=1
8 2 4.25e-2 6 u=1 imp:n=1

1 so 1
2 so 2
3 so 3
4 so 4
5 so 8
6 px 0

''' + MATS, [],
     [((0.2, 0, 0), 'm1_0.06'), ((1.5, 0, 0), 'm1_3.0'), ((2.5, 0, 0), 'm1_-1.0'),
      ((3.5, 0, 0), 'm1_0.1002'), ((-6, 0, 0), 'm2_8.5e-2'), ((6, 0, 0), 'm2_4.25e-2')],
     {'m1_0.06', 'm1_3.0', 'm1_-1.0', 'm1_0.1002', 'm2_8.5e-2', 'm2_4.25e-2'}),
    # the two spellings repaired in /repo 6d1467b
    ('repaired-spellings', '''corpus repaired
1 1 -1.0 -1 imp:n=1
2 1 -1.00 1 -2 imp:n=1
3 2 4.0e0 2 -3 imp:n=1
4 0 3 imp:n=0

1 so 1
2 so 2
3 so 3

''' + MATS, [],
     [((0, 0, 0), 'm1_-1.0'), ((1.5, 0, 0), 'm1_-1.0'), ((2.5, 0, 0), 'm2_4.0e0')],
     {'m1_-1.0', 'm2_4.0e0'}),
]

# every corpus deck is also converted with these extra command-line options
VARIANTS = [[], ['--always-inline-filling'], ['--always-inline-filled'],
            ['--always-inline-filling', '--always-inline-filled']]
