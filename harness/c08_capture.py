'''C08: run the real converter (main.conversion through impl.convert) while
taking a snapshot of the tables construct_volume_t4 hands to the tail of
convertMCNPGeometry, and render the snapshot as a Coq term for the model.'''
import contextlib

import impl
import common
from common import cbool, clist, copt, cpair


# compact literals: the generated files open string_scope and Z_scope, so
# strings and integers need no scope suffix; floats are marked per list
def cz(n):
    n = int(n)
    return f'({n})' if n < 0 else str(n)


def pack(text):
    '''9 ASCII characters per 63-bit integer, 7 bits each, first character in
    the low bits (decoded by Exec.U; U_selftest there pins the format).'''
    data = text.encode('ascii')
    if not all(0 < c < 128 for c in data):
        raise ValueError(f'pack: not plain ASCII: {text!r}')
    out = []
    for k in range(0, len(data), 9):
        value = 0
        for i, c in enumerate(data[k:k + 9]):
            value |= c << (7 * i)
        out.append(value)
    return out


PACK_SAMPLES = {'': [], 'a': [97], '12345678': [31768959712549169],
                '123456789': [4139051819874441521],
                '1234567890': [4139051819874441521, 48]}


def cstr(text):
    ints = pack(text)
    if not ints:
        return '(U [])'
    return '(U [' + '; '.join(str(v) for v in ints) + ']%uint63)'


def cfloat(value):
    '''Bit-exact hexadecimal literal without the scope suffix, trailing
    zeros of the mantissa dropped.'''
    value = float(value)
    if value != value:
        return 'nan'
    if value in (float('inf'), float('-inf')):
        return 'infinity' if value > 0 else 'neg_infinity'
    text = value.hex()
    sign = text.startswith('-')
    text = text.lstrip('-')
    mant, expo = text.split('p')
    if '.' in mant:
        mant = mant.rstrip('0').rstrip('.')
    lit = f'{mant}p{expo}'
    return f'(-{lit})' if sign else lit


def cfloats(values):
    return '[' + '; '.join(cfloat(v) for v in values) + ']%float'


class Capture:
    '''Plain-data copy of the tables (taken BEFORE de-duplication / pruning).'''

    def __init__(self):
        self.vols = None      # [(key, plus, minus, ops, origin, fictive)]
        self.surfs = None     # [(key, type, pfloats, pstrs, tr, origin strs)]
        self.skipped = None
        self.union_ids = None
        self.cells = None     # [(id, mat, matint, density, dnorm, dneg, live, imp)]
        self.bcs = None       # [(surface key, '*' or '+')]
        self.mats = None      # [(key, fractions, atom)]
        self.rescaled = None  # [(key, density, items)]
        self.skip_reason = None


def _snap_volume(vol):
    ops = None
    if vol.ops is not None:
        ops = (vol.ops[0], [None if x is None else int(x) for x in vol.ops[1]])
    origin = [(int(a), int(b)) for a, b in vol.idorigin]
    return (sorted(int(s) for s in vol.pluses),
            sorted(int(s) for s in vol.minuses), ops, origin,
            bool(vol.fictive))


def _snap_surface(surf):
    pfl = [float(p) for p in surf.param_surface]
    pst = [str(p) for p in surf.param_surface]
    trn = None
    if surf.transform is not None:
        flat = list(surf.transform[0].flatten('C')) \
            + list(surf.transform[1].flatten('C'))
        trn = ([float(x) for x in flat], [str(x) for x in flat])
    return (surf.type_surface.name, pfl, pst, trn,
            [str(x) for x in surf.idorigin])


def _snap_cells(mcnp_dict):
    from t4_geom_convert.Kernel.Utils import normalize_float
    out = []
    for key, cell in mcnp_dict.items():
        try:
            matint = int(cell.materialID)
        except (TypeError, ValueError):
            matint = None
        dnorm, dneg = '', False
        if cell.density is not None:
            dnorm = normalize_float(cell.density)
            dneg = float(dnorm) < 0.0
        live = not (cell.importance <= 0. or cell.universe != 0
                    or cell.fillid is not None)
        out.append((int(key), str(cell.materialID), matint, cell.density,
                    dnorm, dneg, live, float(cell.importance)))
    return out


@contextlib.contextmanager
def capturing(cap):
    '''Wrap construct_volume_t4 (a public, anchored function) where it is
    defined AND under every name the writer module may have bound it to, so
    that the way the caller imports it does not matter.'''
    from t4_geom_convert.Kernel.FileHandlers.Writer import WriteT4Geometry as WG
    from t4_geom_convert.Kernel.Volume import ConstructVolumeT4 as CV
    orig = CV.construct_volume_t4

    def wrapper(*args, **kwargs):
        result = orig(*args, **kwargs)
        try:
            dic_vol, mcnp_dict, surf_numbering, skipped, union_ids = result
            dic_surface_mcnp = kwargs.get('dic_surface_mcnp',
                                          args[4] if len(args) > 4 else None)
            cap.vols = [(int(k),) + _snap_volume(v) for k, v in dic_vol.items()]
            cap.surfs = [(int(k),) + _snap_surface(s)
                         for k, s in surf_numbering.items()]
            cap.skipped = [int(k) for k in skipped]
            cap.union_ids = (int(union_ids[0]), int(union_ids[1]))
            cap.cells = _snap_cells(mcnp_dict)
            cap.bcs = [(int(k), v[0][0].boundary_cond)
                       for k, v in dic_surface_mcnp.items()
                       if v[0][0].boundary_cond != '']
        except Exception as exc:      # pylint: disable=broad-except
            cap.vols = None
            cap.skip_reason = f'snapshot: {type(exc).__name__}: {exc}'
        return result

    patched = []
    for mod in (CV, WG):
        for name, val in list(vars(mod).items()):
            if val is orig:
                setattr(mod, name, wrapper)
                patched.append((mod, name))
    try:
        yield
    finally:
        for mod, name in patched:
            setattr(mod, name, orig)


def material_tables(deck_text, cells):
    '''compositionConversionMCNPToT4 + extract_isotopes_fractions + the
    implementation's own rescale_fractions rendering (C10's subject; C08 only
    needs names, grouping and counts).'''
    from t4_geom_convert.Kernel.Composition.CompositionConversionMCNPToT4 \
        import compositionConversionMCNPToT4
    from t4_geom_convert.Kernel.Composition.ConstructCompositionT4 \
        import extract_isotopes_fractions, rescale_fractions
    from t4_geom_convert.Kernel.Utils import normalize_float
    mats, rescaled = [], []
    with impl.mip_parser(deck_text) as parser:
        for key, val in compositionConversionMCNPToT4(parser).items():
            fractions = [(str(n), str(a)) for n, a in
                         extract_isotopes_fractions(val.isotopes)]
            mats.append((int(key), fractions, bool(val.atom_fracs)))
            seen = set()
            for _cid, _mat, matint, density, _dn, dneg, live, _imp in cells:
                if not live or matint != key or density is None \
                        or density in seen or dneg or not val.atom_fracs:
                    continue
                seen.add(density)
                items = rescale_fractions(
                    fractions, float(normalize_float(density)))
                rescaled.append((int(key), density,
                                 [(str(n), str(c)) for n, c in items]))
    return mats, rescaled


def convert(deck_text, args=()):
    '''(ConvResult, Capture or None).'''
    cap = Capture()
    with capturing(cap):
        conv = impl.convert(deck_text, list(args))
    if cap.vols is None:
        return conv, None
    try:
        cap.mats, cap.rescaled = material_tables(deck_text, cap.cells)
    except Exception as exc:        # pylint: disable=broad-except
        # the helpers of the composition package are C10's; if one is gone the
        # byte tie of this run is skipped (recorded), the sweep still runs
        cap.mats, cap.rescaled = None, None
        cap.skip_reason = f'material helpers: {type(exc).__name__}: {exc}'
    return conv, cap


def observed(conv):
    '''What the run left behind: (exception class or '', text after the //
    header as one string, or None).'''
    text = None
    if conv.text is not None:
        raw = conv.text.split('\n')
        k = 0
        while k < len(raw) and raw[k].startswith('//'):
            k += 1
        text = '\n'.join(raw[k:])
    return (conv.exc or ''), text


# ---- rendering to Coq -------------------------------------------------------

def _cpairs(pairs):
    return clist(cpair(cstr(a), cstr(b)) for a, b in pairs)


def coq_volume(vol):
    _key, plus, minus, ops, origin, fictive = vol
    if ops is None:
        cops = 'None'
    else:
        kind = {'UNION': 'OUnion', 'INTE': 'OInte'}[ops[0]]
        cops = f'(Some ({kind}, {clist(copt(x, cz) for x in ops[1])}))'
    return (f'(mkVol {clist(cz(s) for s in plus)} '
            f'{clist(cz(s) for s in minus)} {cops} '
            f'{clist(cpair(cz(a), cz(b)) for a, b in origin)} '
            f'{cbool(fictive)})')


def coq_surface(surf):
    _key, typ, pfl, pst, trn, origin = surf
    ctr = 'None' if trn is None else \
        f'(Some {clist(cstr(x) for x in trn[1])})'
    ceq = cpair(cstr(typ), cfloats(pfl),
                'None' if trn is None
                else f'(Some {cfloats(trn[0])})')
    return (f'(mkSurf {cstr(typ)} {clist(cstr(x) for x in pst)} {ctr} '
            f'{clist(cstr(x) for x in origin)} {ceq})')


def coq_cell(cell):
    _cid, mat, matint, density, dnorm, dneg, live, _imp = cell
    return (f'(mkCell {cstr(mat)} {copt(matint, cz)} {copt(density, cstr)} '
            f'{cstr(dnorm)} {cbool(dneg)} {cbool(live)})')


def coq_state(cap, args=()):
    surfs = clist(cpair(cz(s[0]), coq_surface(s)) for s in cap.surfs)
    vols = clist(cpair(cz(v[0]), coq_volume(v)) for v in cap.vols)
    cells = clist(cpair(cz(c[0]), coq_cell(c)) for c in cap.cells)
    mats = clist(cpair(cz(k), f'(mkMat {_cpairs(fr)} {cbool(atom)})')
                 for k, fr, atom in cap.mats)
    resc = clist(cpair(cz(k), cstr(d), _cpairs(items))
                 for k, d, items in cap.rescaled)
    bcs = clist(cpair(cz(k), cstr(c)) for k, c in cap.bcs)
    return (f'(mkW {surfs}\n {vols}\n {clist(cz(k) for k in cap.skipped)}\n'
            f' {cells}\n {mats} {resc} {bcs} '
            f'{cbool("--skip-compositions" in args)} '
            f'{cbool("--skip-geomcomp" in args)} '
            f'{cbool("--skip-boundary-conditions" in args)})')


def coq_input(cap, args=()):
    return cpair(cbool('--skip-deduplication' in args),
                 cz(cap.union_ids[0]), cz(cap.union_ids[1]),
                 coq_state(cap, args))


def coq_observed(obs):
    exc, text = obs
    return cpair(cstr(exc), copt(text, cstr))
