'''Line coverage of the anchored Python functions of C06 during the ties and
(a part of) the deck stream: sys.settrace restricted to those code objects.
Lines that the LAT=1 path cannot reach are listed by their source text in
UNREACHABLE; every other line must be executed at least once per run.'''
import linecache
import sys
import types


def _codes(func):
    out, stack = [func.__code__], [func.__code__]
    while stack:
        cur = stack.pop()
        for const in cur.co_consts:
            if isinstance(const, types.CodeType):
                out.append(const)
                stack.append(const)
    return out


class LineCov:
    def __init__(self, funcs):
        self.codes = {}
        for func in funcs:
            func = getattr(func, '__func__', func)
            for code in _codes(func):
                self.codes[code] = func.__qualname__
        self.hit = {code: set() for code in self.codes}
        self._prev = None
        self.depth = 0

    def _global(self, frame, event, arg):
        if frame.f_code in self.codes:
            self.hit[frame.f_code].add(frame.f_lineno)
            return self._local
        return None

    def _local(self, frame, event, arg):
        if event == 'line':
            self.hit[frame.f_code].add(frame.f_lineno)
        return self._local

    def __enter__(self):
        if self.depth == 0:
            self._prev = sys.gettrace()
            sys.settrace(self._global)
        self.depth += 1
        return self

    def __exit__(self, *exc):
        self.depth -= 1
        if self.depth == 0:
            sys.settrace(self._prev)
        return False

    def missing(self, unreachable):
        out, total = [], 0
        for code, name in self.codes.items():
            lines = {ln for _, _, ln in code.co_lines() if ln is not None}
            lines.discard(code.co_firstlineno)
            total += len(lines)
            for ln in sorted(lines - self.hit[code]):
                text = linecache.getline(code.co_filename, ln).strip()
                if any(pat in text for pat in unreachable):
                    continue
                out.append((name, ln, text))
        return total, out


UNREACHABLE = [
    # type checks of the constructors: the converter only passes lists of
    # pairs of ints / LatticeBounds objects
    "raise TypeError('Expected a list of pairs of integers')",
    "raise TypeError('Expected a LatticeBounds object for the `bounds` '",
    "f'argument, got a {type(bounds)}')",
    "raise TypeError('Expected a list or a tuple for the `spec` '",
    "f'argument, got a {type(spec)}')",
    "raise TypeError('LatticeSpec can only be indexed with a tuple or '",
    "'an integer')",
    # develop_lattice: hexagonal lattices are C07's subject
    'elif cell.lattice == 2:',
    'lat_base_vectors = hexLatticeBaseVectors(surfaces)',
    # parse_fill_kw: message continuation lines of a raise
    "'after FILL keyword')",
]


def anchored_functions():
    from t4_geom_convert import main
    from t4_geom_convert.Kernel.Volume import Lattice as L
    from t4_geom_convert.Kernel.Volume.CellConversion import CellConversion
    from t4_geom_convert.Kernel.FileHandlers.Parser.ParseMCNPCell import \
        ParseMCNPCell
    from t4_geom_convert.Kernel.Transformation.Transformation import \
        compose_transform
    return [main.parse_lattice, L.latticeReciprocal, L.latticeVector,
            L.LatticeBounds.__init__, L.LatticeBounds.size,
            L.LatticeBounds.__getitem__, L.LatticeBounds.__len__,
            L.LatticeBounds.dims, L.LatticeBounds.__iter__,
            L.LatticeBounds.copy, L.LatticeBounds.indices, L.parse_ranges,
            L.LatticeSpec.__init__, L.LatticeSpec.__getitem__,
            L.LatticeSpec.items, L.squareLatticeReciprocalVecs,
            L.squareLatticeBaseVectors, CellConversion.extract_surfaces,
            CellConversion.develop_lattice, ParseMCNPCell.to_fillid,
            ParseMCNPCell.parse_fill_kw, compose_transform]
