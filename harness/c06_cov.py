'''Line coverage of the anchored Python functions of C06 during the ties and
(a part of) the deck stream: sys.settrace restricted to those code objects.
Lines that the LAT=1 path cannot reach are listed by their source text in
UNREACHABLE; every other line must be executed at least once per run.'''
import linecache
import sys
import types


def _codes(func):
    out, stack = [func.__code__], [func.__code__]
    while stack:
        cur = stack.pop()
        for const in cur.co_consts:
            if isinstance(const, types.CodeType):
                out.append(const)
                stack.append(const)
    return out


class LineCov:
    def __init__(self, funcs):
        self.codes = {}
        for func in funcs:
            func = getattr(func, '__func__', func)
            for code in _codes(func):
                self.codes[code] = func.__qualname__
        self.hit = {code: set() for code in self.codes}
        self._prev = None
        self.depth = 0

    def _global(self, frame, event, arg):
        if frame.f_code in self.codes:
            self.hit[frame.f_code].add(frame.f_lineno)
            return self._local
        return None

    def _local(self, frame, event, arg):
        if event == 'line':
            self.hit[frame.f_code].add(frame.f_lineno)
        return self._local

    def __enter__(self):
        if self.depth == 0:
            self._prev = sys.gettrace()
            sys.settrace(self._global)
        self.depth += 1
        return self

    def __exit__(self, *exc):
        self.depth -= 1
        if self.depth == 0:
            sys.settrace(self._prev)
        return False

    def missing(self, unreachable):
        out, total = [], 0
        for code, name in self.codes.items():
            lines = {ln for _, _, ln in code.co_lines() if ln is not None}
            lines.discard(code.co_firstlineno)
            total += len(lines)
            for ln in sorted(lines - self.hit[code]):
                text = linecache.getline(code.co_filename, ln).strip()
                if any(pat in text for pat in unreachable):
                    continue
                out.append((name, ln, text))
        return total, out


UNREACHABLE = [
    # type checks of the constructors: the converter only passes lists of
    # pairs of ints / LatticeBounds objects
    "raise TypeError('Expected a list of pairs of integers')",
    "raise TypeError('Expected a LatticeBounds object for the `bounds` '",
    "f'argument, got a {type(bounds)}')",
    "raise TypeError('Expected a list or a tuple for the `spec` '",
    "f'argument, got a {type(spec)}')",
    "raise TypeError('LatticeSpec can only be indexed with a tuple or '",
    "'an integer')",
    # develop_lattice: hexagonal lattices are C07's subject
    'elif cell.lattice == 2:',
    'lat_base_vectors = hexLatticeBaseVectors(surfaces)',
    # parse_fill_kw: message continuation lines of a raise
    "'after FILL keyword')",
]


MISSING = []     # anchored names that could not be resolved (information only)


def _resolve(module_name, dotted):
    '''getattr chain that never raises: None when a name is gone (a harmless
    rewrite may rename or remove helpers).'''
    import importlib
    try:
        obj = importlib.import_module(module_name)
        for part in dotted.split('.'):
            obj = getattr(obj, part)
        return obj
    except Exception:       # pylint: disable=broad-except
        MISSING.append(f'{module_name}:{dotted}')
        return None


def anchored_functions():
    '''The functions named by the anchors of C06 that exist in this tree.'''
    del MISSING[:]
    names = [
        ('t4_geom_convert.main', 'parse_lattice'),
        ('t4_geom_convert.Kernel.Volume.Lattice', 'latticeReciprocal'),
        ('t4_geom_convert.Kernel.Volume.Lattice', 'latticeVector'),
        ('t4_geom_convert.Kernel.Volume.Lattice', 'LatticeBounds.__init__'),
        ('t4_geom_convert.Kernel.Volume.Lattice', 'LatticeBounds.size'),
        ('t4_geom_convert.Kernel.Volume.Lattice', 'LatticeBounds.__getitem__'),
        ('t4_geom_convert.Kernel.Volume.Lattice', 'LatticeBounds.__len__'),
        ('t4_geom_convert.Kernel.Volume.Lattice', 'LatticeBounds.dims'),
        ('t4_geom_convert.Kernel.Volume.Lattice', 'LatticeBounds.__iter__'),
        ('t4_geom_convert.Kernel.Volume.Lattice', 'LatticeBounds.copy'),
        ('t4_geom_convert.Kernel.Volume.Lattice', 'LatticeBounds.indices'),
        ('t4_geom_convert.Kernel.Volume.Lattice', 'parse_ranges'),
        ('t4_geom_convert.Kernel.Volume.Lattice', 'LatticeSpec.__init__'),
        ('t4_geom_convert.Kernel.Volume.Lattice', 'LatticeSpec.__getitem__'),
        ('t4_geom_convert.Kernel.Volume.Lattice', 'LatticeSpec.items'),
        ('t4_geom_convert.Kernel.Volume.Lattice', 'squareLatticeReciprocalVecs'),
        ('t4_geom_convert.Kernel.Volume.Lattice', 'squareLatticeBaseVectors'),
        ('t4_geom_convert.Kernel.Volume.CellConversion',
         'CellConversion.extract_surfaces'),
        ('t4_geom_convert.Kernel.Volume.CellConversion',
         'CellConversion.develop_lattice'),
        ('t4_geom_convert.Kernel.FileHandlers.Parser.ParseMCNPCell',
         'ParseMCNPCell.to_fillid'),
        ('t4_geom_convert.Kernel.FileHandlers.Parser.ParseMCNPCell',
         'ParseMCNPCell.parse_fill_kw'),
        ('t4_geom_convert.Kernel.Transformation.Transformation',
         'compose_transform'),
    ]
    funcs = []
    for module_name, dotted in names:
        obj = _resolve(module_name, dotted)
        obj = getattr(obj, '__func__', obj)
        if obj is not None and hasattr(obj, '__code__'):
            funcs.append(obj)
    return funcs
